//! C14 — Vault: no access without a live grant, no plaintext at rest (DESIGN §5, C14).
//!
//! Part A : every sequence of <= N operations over a collision-forcing alphabet (root + u1,u2,u3 +
//!          groups g,h; secrets `prod/apikey7`, `dbpass_91`; grant / grant_with_ttl / revoke / delegate /
//!          delete / membership add-remove / clock advance / get ...) is executed on the real
//!          `tensor_vault::Vault`. After EVERY step EVERY (identity, secret, operation) triple is probed
//!          on a replay of the history and the real allow/deny decision is compared with a reference
//!          ACL (a list of grants with expiry/revoked/deleted marks and a membership relation).
//!          Alarm only in the direction the statement demands: real allows, reference has no live
//!          grant of sufficient level.  After every step the backing stores (vault store and graph
//!          store: structural walk + raw `snapshot_bytes` image), every audit record and every error
//!          string are searched for every secret value / name used so far.
//! Part B : confidentiality battery: value lengths 1,15,16,17,255,256,limit (ASCII and multi-byte) x
//!          name shapes, through a script touching set/get/grant/ttl/delegate/rotate/denials/oversize/
//!          snapshot/delete; same searches after every step.
//!
//! The clock is process-global (envshim), so parallelism is by worker processes (nvc::par).
use graph_engine::{GraphEngine, PropertyValue};
use nvc::Report;
use serde::{Deserialize, Serialize};
use serde_json::{json, Value};
use std::collections::{BTreeMap, BTreeSet, HashMap, VecDeque};
use std::hash::{Hash, Hasher};
use std::sync::Arc;
use std::time::Duration;
use tensor_store::{ScalarValue, TensorStore, TensorValue};
use tensor_vault::{AttenuationPolicy, Permission, Vault, VaultConfig};

// ------------------------------------------------------------------------------------------ universe
const ENT: [&str; 6] = ["node:root", "user:u1", "user:u2", "user:u3", "team:g", "team:h"];
const R: u8 = 0;
const U1: u8 = 1;
const U2: u8 = 2;
const U3: u8 = 3;
const G: u8 = 4;
const H: u8 = 5;
/// secret names: long enough (>= 8 bytes) that a chance occurrence in random bytes is negligible
const SEC: [&str; 2] = ["prod/apikey7", "dbpass_91"];
const A: u8 = 0;
const B: u8 = 1;
const REQUESTERS: [u8; 4] = [U1, U2, U3, G];
const HOUR_MS: i64 = 3_600_000;
const PROBE_VALUE: &str = "probe-value-Q7x9-zzzz";

fn lvl_perm(l: u8) -> Permission {
    match l {
        1 => Permission::Read,
        2 => Permission::Write,
        _ => Permission::Admin,
    }
}
fn lvl_name(l: u8) -> &'static str {
    ["none", "Read", "Write", "Admin"][l as usize]
}
fn perm_lvl(p: Permission) -> u8 {
    match p {
        Permission::Read => 1,
        Permission::Write => 2,
        Permission::Admin => 3,
    }
}

#[derive(Clone, Copy, PartialEq, Eq, Hash, PartialOrd, Ord, Debug, Serialize, Deserialize)]
enum Op {
    Set { who: u8, s: u8 },
    Rotate { who: u8, s: u8 },
    Get { who: u8, s: u8 },
    /// get_version(.., 1): a second documented way to read a value (probe only)
    GetVersion { who: u8, s: u8 },
    ListExact { who: u8, s: u8 },
    ListAll { who: u8 },
    Delete { who: u8, s: u8 },
    Grant { who: u8, to: u8, s: u8, lvl: u8 },
    /// ttl: 0 = Duration::ZERO, 1 = 1 ns, 2 = 1 h (default, so that older replay files still load)
    GrantTtl {
        who: u8,
        to: u8,
        s: u8,
        lvl: u8,
        #[serde(default = "ttl_one_hour")]
        ttl: u8,
    },
    Revoke { who: u8, from: u8, s: u8 },
    Delegate { who: u8, to: u8, s: u8, lvl: u8, ttl: bool },
    /// virtual clock + 2 h (TTLs are 1 h)
    Advance,
    MemberAdd { m: u8, g: u8 },
    MemberDel { m: u8, g: u8 },
    /// an edge of a type that is not a membership ("KNOWS")
    Link { from: u8, to: u8 },
    /// a MEMBER edge from an identity straight to the secret's node: membership alone
    MemberToSecret { m: u8, s: u8 },
    /// drop the Vault and open a new one on the same store and graph (persisted TTLs are reloaded)
    Reopen,
}

fn ttl_one_hour() -> u8 {
    2
}
fn ttl_duration(ttl: u8) -> Duration {
    match ttl {
        0 => Duration::ZERO,
        1 => Duration::from_nanos(1),
        _ => Duration::from_secs(3600),
    }
}
fn ttl_name(ttl: u8) -> &'static str {
    match ttl {
        0 => "0",
        1 => "1ns",
        _ => "1h",
    }
}
fn show(op: &Op) -> String {
    let e = |x: &u8| ENT[*x as usize];
    let s_ = |x: &u8| SEC[*x as usize];
    match op {
        Op::Set { who, s } => format!("set({}, {})", e(who), s_(s)),
        Op::Rotate { who, s } => format!("rotate({}, {})", e(who), s_(s)),
        Op::Get { who, s } => format!("get({}, {})", e(who), s_(s)),
        Op::GetVersion { who, s } => format!("get_version({}, {}, 1)", e(who), s_(s)),
        Op::ListExact { who, s } => format!("list({}, \"{}\")", e(who), s_(s)),
        Op::ListAll { who } => format!("list({}, \"*\")", e(who)),
        Op::Delete { who, s } => format!("delete({}, {})", e(who), s_(s)),
        Op::Grant { who, to, s, lvl } => format!("grant_with_permission({}, {}, {}, {})", e(who), e(to), s_(s), lvl_name(*lvl)),
        Op::GrantTtl { who, to, s, lvl, ttl } => format!("grant_with_ttl({}, {}, {}, {}, {})", e(who), e(to), s_(s), lvl_name(*lvl), ttl_name(*ttl)),
        Op::Revoke { who, from, s } => format!("revoke({}, {}, {})", e(who), e(from), s_(s)),
        Op::Delegate { who, to, s, lvl, ttl } => format!("delegate({}, {}, [{}], {}, {})", e(who), e(to), s_(s), lvl_name(*lvl), if *ttl { "Some(1h)" } else { "None" }),
        Op::Advance => "clock += 2h".into(),
        Op::MemberAdd { m, g } => format!("graph: MEMBER edge {} -> {}", e(m), e(g)),
        Op::MemberDel { m, g } => format!("graph: delete MEMBER edge {} -> {}", e(m), e(g)),
        Op::Link { from, to } => format!("graph: KNOWS edge {} -> {}", e(from), e(to)),
        Op::MemberToSecret { m, s } => format!("graph: MEMBER edge {} -> node of secret {}", e(m), s_(s)),
        Op::Reopen => "reopen: Vault::new on the same store and graph".into(),
    }
}
fn op_kind(op: &Op) -> &'static str {
    match op {
        Op::Set { .. } => "set",
        Op::Rotate { .. } => "rotate",
        Op::Get { .. } => "get",
        Op::GetVersion { .. } => "get_version",
        Op::ListExact { .. } | Op::ListAll { .. } => "list",
        Op::Delete { .. } => "delete",
        Op::Grant { .. } => "grant",
        Op::GrantTtl { .. } => "grant_with_ttl",
        Op::Revoke { .. } => "revoke",
        Op::Delegate { .. } => "delegate",
        Op::Advance => "advance",
        Op::Reopen => "reopen",
        Op::MemberAdd { .. } | Op::MemberDel { .. } | Op::Link { .. } | Op::MemberToSecret { .. } => "graph",
    }
}

/// alphabets, simplest first.
/// "full": everything below; "quick": full without root's rotate (which never changes access);
/// "core": one secret, the letters that create/kill grants and memberships (used one level deeper).
fn alphabet(kind: &str) -> Vec<Op> {
    let mut v = alphabet_full();
    match kind {
        "quick" => v.retain(|o| !matches!(o, Op::Rotate { .. })),
        "core" => v.retain(|o| match o {
            Op::GrantTtl { ttl: 1, .. } => false,
            Op::Set { s, .. } | Op::Grant { s, .. } | Op::GrantTtl { s, .. } | Op::Revoke { s, .. } | Op::Delete { s, .. } | Op::Get { s, .. } | Op::Delegate { s, .. } => *s == A,
            Op::Advance | Op::MemberAdd { .. } | Op::MemberDel { .. } => true,
            _ => false,
        }),
        _ => {}
    }
    v
}
fn alphabet_full() -> Vec<Op> {
    vec![
        Op::Set { who: R, s: A },
        Op::Set { who: R, s: B },
        Op::Grant { who: R, to: U1, s: A, lvl: 1 },
        Op::Grant { who: R, to: U1, s: A, lvl: 2 },
        Op::Grant { who: R, to: U1, s: A, lvl: 3 },
        Op::Revoke { who: R, from: U1, s: A },
        Op::Delete { who: R, s: A },
        Op::GrantTtl { who: R, to: U1, s: A, lvl: 2, ttl: 2 },
        Op::GrantTtl { who: R, to: U1, s: A, lvl: 2, ttl: 0 },
        Op::GrantTtl { who: R, to: U1, s: A, lvl: 2, ttl: 1 },
        Op::Advance,
        Op::Get { who: R, s: A },
        Op::Reopen,
        Op::Grant { who: R, to: G, s: A, lvl: 3 },
        Op::MemberAdd { m: U2, g: G },
        Op::MemberDel { m: U2, g: G },
        Op::Revoke { who: R, from: G, s: A },
        Op::GrantTtl { who: R, to: G, s: A, lvl: 3, ttl: 2 },
        Op::Grant { who: R, to: H, s: A, lvl: 2 },
        Op::MemberAdd { m: G, g: H },
        Op::MemberDel { m: G, g: H },
        Op::Grant { who: U1, to: U2, s: A, lvl: 1 },
        // TTL grants issued by a non-root Admin (u1 once it holds Admin on A)
        Op::GrantTtl { who: U1, to: U2, s: A, lvl: 2, ttl: 0 },
        Op::GrantTtl { who: U1, to: U2, s: A, lvl: 2, ttl: 1 },
        Op::GrantTtl { who: U1, to: U2, s: A, lvl: 2, ttl: 2 },
        Op::Delegate { who: U1, to: U3, s: A, lvl: 1, ttl: false },
        Op::Delegate { who: R, to: U3, s: B, lvl: 2, ttl: true },
        Op::Grant { who: R, to: U2, s: B, lvl: 1 },
        Op::Rotate { who: R, s: A },
        Op::Link { from: U3, to: G },
        Op::MemberToSecret { m: U3, s: A },
    ]
}

// --------------------------------------------------------------------------------------- value battery
fn ascii_value(tag: &str, len: usize) -> String {
    // non-periodic: tag then a running counter
    let mut s = String::from(tag);
    let mut i = 0u32;
    while s.len() < len {
        s.push_str(&format!("{:x}.", (i ^ tag.len() as u32 ^ (tag.as_bytes()[0] as u32) << 8).wrapping_mul(2654435761) >> 8));
        i += 1;
    }
    s.truncate(len);
    s
}
fn multibyte_value(tag: &str, len_bytes: usize) -> String {
    // 2-byte and 3-byte characters; padded with 'x' to the exact byte length
    const CH: [&str; 8] = ["é", "ж", "鍵", "ß", "λ", "密", "ø", "ק"];
    let mut s = String::from(tag);
    let mut st = tag.bytes().fold(0x9e3779b97f4a7c15u64, |a, b| (a ^ b as u64).wrapping_mul(0x100000001b3));
    loop {
        st = st.wrapping_mul(6364136223846793005).wrapping_add(1442695040888963407);
        let c = CH[((st >> 33) % 8) as usize];
        if s.len() + c.len() > len_bytes {
            break;
        }
        s.push_str(c);
    }
    while s.len() < len_bytes {
        s.push('x');
    }
    s
}
/// values used by the history steps of part A, by step position
fn hist_values() -> Vec<String> {
    vec!["§".to_string(), ascii_value("v15-", 15), ascii_value("v16-", 16), ascii_value("v17-", 17), multibyte_value("m255-", 255), ascii_value("v40-", 40)]
}

/// search needles for one secret string: the whole string if short, else three 16-byte windows
fn needles_of(v: &str) -> Vec<Vec<u8>> {
    let b = v.as_bytes();
    if b.len() <= 32 {
        return vec![b.to_vec()];
    }
    let cut = |mut from: usize| {
        while !v.is_char_boundary(from) {
            from += 1;
        }
        let mut to = (from + 16).min(b.len());
        while !v.is_char_boundary(to) {
            to -= 1;
        }
        b[from..to].to_vec()
    };
    let mut n = vec![cut(0), cut(b.len() / 2), cut(b.len() - 18)];
    n.dedup();
    n
}

fn contains(hay: &[u8], needle: &[u8]) -> bool {
    if needle.is_empty() || hay.len() < needle.len() {
        return false;
    }
    let first = needle[0];
    let last = hay.len() - needle.len();
    let mut i = 0;
    while i <= last {
        match hay[i..=last].iter().position(|&c| c == first) {
            None => return false,
            Some(p) => {
                i += p;
                if &hay[i..i + needle.len()] == needle {
                    return true;
                }
                i += 1;
            }
        }
    }
    false
}

/// minimum needle length searched in binary material (Bytes fields, raw images): below this a chance
/// occurrence in ciphertext is not negligible, so such needles are only searched in textual material
const MIN_BIN_NEEDLE: usize = 8;

/// every location at which a needle of each needle set is readable in `store`.
/// Location = "<store>:<key class>.<field>".
fn search_store(store: &TensorStore, which: &str, sets: &[&[Vec<u8>]]) -> Vec<BTreeSet<String>> {
    let key_class = |k: &str| k.split(':').next().unwrap_or(k).to_string();
    let mut found: Vec<BTreeSet<String>> = vec![BTreeSet::new(); sets.len()];
    let mut keys = store.scan("");
    keys.sort();
    for k in &keys {
        for (si, needles) in sets.iter().enumerate() {
            if needles.iter().any(|n| contains(k.as_bytes(), n)) {
                found[si].insert(format!("{which}:{}.<key>", key_class(k)));
            }
        }
        let Ok(t) = store.get(k) else { continue };
        for (f, v) in t.iter() {
            let mut texts: Vec<&[u8]> = vec![f.as_bytes()];
            let mut bins: Vec<&[u8]> = vec![];
            match v {
                TensorValue::Scalar(ScalarValue::String(s)) => texts.push(s.as_bytes()),
                TensorValue::Scalar(ScalarValue::Bytes(b)) => bins.push(b),
                TensorValue::Pointer(p) => texts.push(p.as_bytes()),
                TensorValue::Pointers(ps) => texts.extend(ps.iter().map(|p| p.as_bytes())),
                _ => {}
            }
            for (si, needles) in sets.iter().enumerate() {
                for n in needles.iter() {
                    if texts.iter().any(|t| contains(t, n)) || (n.len() >= MIN_BIN_NEEDLE && bins.iter().any(|b| contains(b, n))) {
                        found[si].insert(format!("{which}:{}.{f}", key_class(k)));
                        break;
                    }
                }
            }
        }
    }
    // raw snapshot image (what a checkpoint writes): only reported when the structural walk found nothing
    if found.iter().any(|f| f.is_empty()) {
        if let Ok(img) = store.snapshot_bytes() {
            for (si, needles) in sets.iter().enumerate() {
                if found[si].is_empty() && needles.iter().any(|n| n.len() >= MIN_BIN_NEEDLE && contains(&img, n)) {
                    found[si].insert(format!("{which}:snapshot_bytes-image-only"));
                }
            }
        }
    }
    found
}

// ---------------------------------------------------------------------------------------- real world
#[derive(Clone, Copy, PartialEq, Eq, Debug)]
enum St {
    Ok,
    Err,
    /// harness-level no-op (edge already there / nothing to delete)
    Noop,
}
struct Outcome {
    st: St,
    err: String,
    listed: Vec<String>,
    got: Option<String>,
}
impl Outcome {
    fn ok() -> Self {
        Outcome { st: St::Ok, err: String::new(), listed: vec![], got: None }
    }
    fn noop() -> Self {
        Outcome { st: St::Noop, err: String::new(), listed: vec![], got: None }
    }
    fn from<T>(r: Result<T, tensor_vault::VaultError>) -> (Self, Option<T>) {
        match r {
            Ok(v) => (Self::ok(), Some(v)),
            Err(e) => (Outcome { st: St::Err, err: format!("{e} || {e:?}"), listed: vec![], got: None }, None),
        }
    }
}

fn vault_config(horizon: usize) -> VaultConfig {
    let mut c = VaultConfig::default().with_salt([7u8; 16]);
    // Argon2 at its minimum so that vault creation is cheap; rate limiting, quotas off (defaults)
    c.argon2_memory_cost = 8;
    c.argon2_time_cost = 1;
    c.argon2_parallelism = 1;
    c.rate_limit = None;
    c.default_quota = None;
    c.attenuation = AttenuationPolicy { admin_limit: 1, write_limit: 2, horizon };
    c
}

struct World {
    vault: Vault,
    store: TensorStore,
    graph: Arc<GraphEngine>,
    edges: BTreeMap<(u8, u8, u8), u64>, // (kind 0=MEMBER 1=KNOWS 2=MEMBER->secret, from, to) -> edge id
    secret_nodes: [Option<u64>; 2],
    pooled: bool,
    horizon: usize,
}

thread_local! {
    /// TensorStore::new() costs ~0.9 ms (cache ring / slabs); a replay needs two. Stores are therefore
    /// recycled: cleared (and checked empty) before reuse. Violations are confirmed on never-used stores.
    static POOL: std::cell::RefCell<Vec<(TensorStore, TensorStore)>> = const { std::cell::RefCell::new(Vec::new()) };
}
impl Drop for World {
    fn drop(&mut self) {
        if self.pooled {
            let pair = (self.store.clone(), self.graph.store().clone());
            POOL.with(|p| p.borrow_mut().push(pair));
        }
    }
}

impl World {
    fn new(horizon: usize) -> World {
        Self::build(horizon, true)
    }
    /// never-used stores (confirmation of violations, part B)
    fn fresh(horizon: usize) -> World {
        Self::build(horizon, false)
    }
    fn build(horizon: usize, pooled: bool) -> World {
        nvc::env::clock_reset();
        let (store, gstore) = match if pooled { POOL.with(|p| p.borrow_mut().pop()) } else { None } {
            Some((a, b)) => {
                a.clear();
                b.clear();
                assert!(a.is_empty() && b.is_empty() && a.scan("").is_empty() && b.scan("").is_empty(), "recycled store not empty");
                (a, b)
            }
            None => (TensorStore::new(), TensorStore::new()),
        };
        let graph = Arc::new(GraphEngine::with_store(gstore));
        let vault = Vault::new(b"c14-master-key", graph.clone(), store.clone(), vault_config(horizon)).expect("vault");
        // the first access check of any vault creates the graph's entity_key index; do it now so that
        // "a denied call leaves the stores byte-identical" can be checked from the first call on
        let _ = vault.get_permission("user:warmup", "warmup");
        World { vault, store, graph, edges: BTreeMap::new(), secret_nodes: [None, None], pooled, horizon }
    }
    fn ent_node(&self, key: &str) -> u64 {
        if let Ok(nodes) = self.graph.find_nodes_by_property("entity_key", &PropertyValue::String(key.to_string())) {
            if let Some(n) = nodes.first() {
                return n.id;
            }
        }
        let mut props = HashMap::new();
        props.insert("entity_key".to_string(), PropertyValue::String(key.to_string()));
        self.graph.create_node("VaultEntity", props).expect("create node")
    }
    /// map secret index -> graph node of the secret (entity_key "vault_secret:<obfuscated>")
    fn discover(&mut self, s: u8) {
        if self.secret_nodes[s as usize].is_some() {
            return;
        }
        let known: Vec<u64> = self.secret_nodes.iter().flatten().copied().collect();
        let mut fresh: Vec<u64> = self
            .graph
            .all_nodes()
            .into_iter()
            .filter(|n| matches!(n.properties.get("entity_key"), Some(PropertyValue::String(k)) if k.starts_with("vault_secret:")))
            .map(|n| n.id)
            .filter(|id| !known.contains(id))
            .collect();
        fresh.sort();
        if fresh.len() == 1 {
            self.secret_nodes[s as usize] = Some(fresh[0]);
        }
    }
    fn graph_edge(&mut self, kind: u8, from: u8, to: u8, from_node: u64, to_node: u64, ty: &str) -> Outcome {
        if self.edges.contains_key(&(kind, from, to)) {
            return Outcome::noop();
        }
        let id = self.graph.create_edge(from_node, to_node, ty, HashMap::new(), true).expect("create edge");
        self.edges.insert((kind, from, to), id);
        Outcome::ok()
    }
    /// one vault call, after which the virtual clock moves on by 1 ms: under the frozen clock no time
    /// would pass between calls, whereas in reality every later call happens after a 1 ns deadline.
    /// (The reference ignores these ticks: they add up to far less than the 1 h / 2 h units.)
    fn exec(&mut self, op: Op, val: &str) -> Outcome {
        let o = self.exec_inner(op, val);
        nvc::env::clock_advance_ms(1);
        o
    }
    fn exec_inner(&mut self, op: Op, val: &str) -> Outcome {
        let e = |x: u8| ENT[x as usize];
        let n = |x: u8| SEC[x as usize];
        match op {
            Op::Set { who, s } => {
                let (o, _) = Outcome::from(self.vault.set(e(who), n(s), val));
                if o.st == St::Ok {
                    self.discover(s);
                }
                o
            }
            Op::Rotate { who, s } => Outcome::from(self.vault.rotate(e(who), n(s), val)).0,
            Op::Get { who, s } => {
                let (mut o, v) = Outcome::from(self.vault.get(e(who), n(s)));
                o.got = v;
                o
            }
            Op::GetVersion { who, s } => {
                let (mut o, v) = Outcome::from(self.vault.get_version(e(who), n(s), 1));
                o.got = v;
                o
            }
            Op::ListExact { who, s } => {
                let (mut o, v) = Outcome::from(self.vault.list(e(who), n(s)));
                o.listed = v.unwrap_or_default();
                o
            }
            Op::ListAll { who } => {
                let (mut o, v) = Outcome::from(self.vault.list(e(who), "*"));
                o.listed = v.unwrap_or_default();
                o
            }
            Op::Delete { who, s } => {
                let (o, _) = Outcome::from(self.vault.delete(e(who), n(s)));
                if o.st == St::Ok {
                    self.secret_nodes[s as usize] = None;
                    self.edges.retain(|k, _| !(k.0 == 2 && k.2 == s));
                }
                o
            }
            Op::Grant { who, to, s, lvl } => Outcome::from(self.vault.grant_with_permission(e(who), e(to), n(s), lvl_perm(lvl))).0,
            Op::GrantTtl { who, to, s, lvl, ttl } => Outcome::from(self.vault.grant_with_ttl(e(who), e(to), n(s), lvl_perm(lvl), ttl_duration(ttl))).0,
            Op::Revoke { who, from, s } => Outcome::from(self.vault.revoke(e(who), e(from), n(s))).0,
            Op::Delegate { who, to, s, lvl, ttl } => {
                let (o, _) = Outcome::from(self.vault.delegate(e(who), e(to), &[n(s)], lvl_perm(lvl), ttl.then(|| Duration::from_secs(3600))));
                if o.st == St::Ok {
                    self.discover(s);
                }
                o
            }
            Op::Advance => {
                nvc::env::clock_advance_ms(2 * HOUR_MS);
                Outcome::ok()
            }
            Op::MemberAdd { m, g } => {
                let (a, b) = (self.ent_node(e(m)), self.ent_node(e(g)));
                self.graph_edge(0, m, g, a, b, "MEMBER")
            }
            Op::MemberDel { m, g } => match self.edges.remove(&(0, m, g)) {
                None => Outcome::noop(),
                Some(id) => {
                    self.graph.delete_edge(id).expect("delete edge");
                    Outcome::ok()
                }
            },
            Op::Link { from, to } => {
                let (a, b) = (self.ent_node(e(from)), self.ent_node(e(to)));
                self.graph_edge(1, from, to, a, b, "KNOWS")
            }
            Op::Reopen => {
                let v = Vault::new(b"c14-master-key", self.graph.clone(), self.store.clone(), vault_config(self.horizon)).expect("reopen");
                self.vault = v;
                Outcome::ok()
            }
            Op::MemberToSecret { m, s } => match self.secret_nodes[s as usize] {
                None => Outcome::noop(),
                Some(sn) => {
                    let a = self.ent_node(e(m));
                    self.graph_edge(2, m, s, a, sn, "MEMBER")
                }
            },
        }
    }
    /// hash of the byte images of both stores; only compared within one World
    fn fingerprint(&self) -> u64 {
        let mut h = std::collections::hash_map::DefaultHasher::new();
        self.store.snapshot_bytes().expect("snapshot").hash(&mut h);
        self.graph.store().snapshot_bytes().expect("snapshot").hash(&mut h);
        h.finish()
    }
}

fn is_write_value_op(op: &Op) -> bool {
    matches!(op, Op::Set { .. } | Op::Rotate { .. })
}

// ------------------------------------------------------------------------------------ reference ACL
#[derive(Clone, Copy, PartialEq, Eq, Debug, PartialOrd, Ord)]
enum Dead {
    Revoked,
    Deleted,
}
#[derive(Clone, Debug, PartialEq, Eq, PartialOrd, Ord)]
struct GrantRec {
    ent: u8,
    s: u8,
    lvl: u8,
    expiry: Option<i64>,
    dead: Option<Dead>,
}
#[derive(Clone, Debug, Default)]
struct Model {
    now: i64,
    exists: [bool; 2],
    grants: Vec<GrantRec>,
    members: BTreeSet<(u8, u8)>,
    ex_members: BTreeSet<(u8, u8)>,
    links: BTreeSet<(u8, u8)>,
    member_to_secret: BTreeSet<(u8, u8)>,
    horizon: usize,
    /// --selftest=oracle : the reference forgets Write grants (must produce violations)
    corrupt: bool,
}

impl Model {
    /// membership-hop distance from q to every entity it belongs to (directly or transitively)
    fn dist(&self, q: u8, edges: &BTreeSet<(u8, u8)>) -> BTreeMap<u8, usize> {
        let mut d = BTreeMap::new();
        d.insert(q, 0usize);
        let mut queue = VecDeque::from([q]);
        while let Some(c) = queue.pop_front() {
            let dc = d[&c];
            for &(m, g) in edges {
                if m == c && !d.contains_key(&g) {
                    d.insert(g, dc + 1);
                    queue.push_back(g);
                }
            }
        }
        d
    }
    fn live(&self, g: &GrantRec) -> bool {
        g.dead.is_none() && g.expiry.map_or(true, |x| self.now < x)
    }
    /// highest level of a live grant on `s` from `q` or from a group q belongs to within the horizon.
    /// `attenuate` applies the configured distance policy (informational comparison only).
    fn level(&self, q: u8, s: u8, attenuate: bool) -> u8 {
        if q == R {
            return 3;
        }
        let d = self.dist(q, &self.members);
        let mut best = 0u8;
        for g in &self.grants {
            if g.s != s || !self.live(g) {
                continue;
            }
            let Some(&md) = d.get(&g.ent) else { continue };
            let hops = md + 1; // the access edge itself counts
            if hops > self.horizon {
                continue;
            }
            let l = if !attenuate || hops <= 1 {
                g.lvl
            } else if hops <= 2 {
                g.lvl.min(2)
            } else {
                g.lvl.min(1)
            };
            best = best.max(l);
        }
        best
    }
    /// why the reference denies (used for the violation signature). A dead grant that WOULD have been
    /// sufficient explains the decision better than a live one that is too weak.
    fn reason(&self, q: u8, s: u8, need: u8) -> &'static str {
        let d = self.dist(q, &self.members);
        let within = |e: u8| d.get(&e).is_some_and(|&md| md + 1 <= self.horizon);
        let on_s: Vec<&GrantRec> = self.grants.iter().filter(|g| g.s == s).collect();
        for min_lvl in [need, 1] {
            if min_lvl == 1 && self.level(q, s, false) > 0 {
                return "insufficient-level";
            }
            let c: Vec<&&GrantRec> = on_s.iter().filter(|g| g.lvl >= min_lvl).collect();
            if c.iter().any(|g| within(g.ent) && g.dead.is_none() && !self.live(g)) {
                return "expired-grant";
            }
            if c.iter().any(|g| within(g.ent) && g.dead == Some(Dead::Revoked)) {
                return "revoked-grant";
            }
            if c.iter().any(|g| within(g.ent) && g.dead == Some(Dead::Deleted)) {
                return "grant-on-deleted-secret";
            }
            let all: BTreeSet<(u8, u8)> = self.members.union(&self.ex_members).copied().collect();
            let dx = self.dist(q, &all);
            if c.iter().any(|g| self.live(g) && d.contains_key(&g.ent) && !within(g.ent)) {
                return "group-beyond-horizon";
            }
            if c.iter().any(|g| self.live(g) && !d.contains_key(&g.ent) && dx.contains_key(&g.ent)) {
                return "membership-removed";
            }
            let mut both = all.clone();
            both.extend(self.links.iter().copied());
            let dl = self.dist(q, &both);
            if c.iter().any(|g| self.live(g) && !dx.contains_key(&g.ent) && dl.contains_key(&g.ent)) {
                return "non-membership-edge";
            }
        }
        if self.member_to_secret.contains(&(q, s)) || d.len() > 1 {
            return "membership-only";
        }
        "never-granted"
    }
    /// effect of an operation that the real vault reported as successful
    fn apply(&mut self, op: &Op) {
        match *op {
            Op::Set { s, .. } => self.exists[s as usize] = true,
            Op::Delete { s, .. } => {
                self.exists[s as usize] = false;
                for g in self.grants.iter_mut().filter(|g| g.s == s && g.dead.is_none()) {
                    g.dead = Some(Dead::Deleted);
                }
                self.member_to_secret.retain(|x| x.1 != s);
            }
            Op::Grant { to, s, lvl, .. } => {
                if !(self.corrupt && lvl == 2) {
                    self.grants.push(GrantRec { ent: to, s, lvl, expiry: None, dead: None })
                }
            }
            Op::GrantTtl { to, s, lvl, ttl, .. } => {
                // a zero / 1 ns TTL has elapsed before any later call can be made: the grant is never
                // live in the reference (expiry == time of granting, and live() demands now < expiry)
                let expiry = if ttl >= 2 { self.now + HOUR_MS } else { self.now };
                if !(self.corrupt && lvl == 2) {
                    self.grants.push(GrantRec { ent: to, s, lvl, expiry: Some(expiry), dead: None })
                }
            }
            Op::Delegate { to, s, lvl, ttl, .. } => self.grants.push(GrantRec { ent: to, s, lvl, expiry: ttl.then_some(self.now + HOUR_MS), dead: None }),
            Op::Revoke { from, s, .. } => {
                for g in self.grants.iter_mut().filter(|g| g.s == s && g.ent == from && g.dead.is_none()) {
                    g.dead = Some(Dead::Revoked);
                }
            }
            Op::Advance => self.now += 2 * HOUR_MS,
            Op::MemberAdd { m, g } => {
                self.members.insert((m, g));
            }
            Op::MemberDel { m, g } => {
                self.members.remove(&(m, g));
                self.ex_members.insert((m, g));
            }
            Op::Link { from, to } => {
                self.links.insert((from, to));
            }
            Op::MemberToSecret { m, s } => {
                self.member_to_secret.insert((m, s));
            }
            Op::Rotate { .. } | Op::Get { .. } | Op::GetVersion { .. } | Op::ListExact { .. } | Op::ListAll { .. } | Op::Reopen => {}
        }
    }
    fn key(&self) -> String {
        let mut g: Vec<(u8, u8, u8, u8)> = self.grants.iter().map(|g| (g.ent, g.s, g.lvl, if g.dead == Some(Dead::Revoked) { 1 } else if g.dead == Some(Dead::Deleted) { 2 } else if !self.live(g) { 3 } else if g.expiry.is_some() { 4 } else { 0 })).collect();
        g.sort();
        format!("{:?}|{:?}|{:?}|{:?}|{:?}|{:?}", self.exists, g, self.members, self.ex_members, self.links, self.member_to_secret)
    }
    fn nontrivial(&self) -> bool {
        self.grants.iter().any(|g| !self.live(g)) || !self.ex_members.is_empty() || self.grants.iter().any(|g| self.live(g) && g.ent >= G)
    }
}

/// (secret, level the documented API requires, did the real vault allow it)
fn decisions(op: &Op, out: &Outcome, m: &Model) -> (u8, Vec<(u8, u8, bool)>) {
    let ok = out.st == St::Ok;
    match *op {
        Op::Get { who, s } | Op::GetVersion { who, s } => (who, vec![(s, 1, ok)]),
        Op::ListExact { who, s } => (who, vec![(s, 1, out.listed.iter().any(|k| k == SEC[s as usize]))]),
        Op::ListAll { who } => (who, (0..2u8).map(|s| (s, 1, out.listed.iter().any(|k| k == SEC[s as usize]))).collect()),
        // creating a secret is not an operation the statement speaks about; overwrite is
        Op::Set { who, s } => (who, if m.exists[s as usize] { vec![(s, 2, ok)] } else { vec![] }),
        Op::Rotate { who, s } => (who, vec![(s, 2, ok)]),
        Op::Delete { who, s } => (who, vec![(s, 3, ok)]),
        Op::Grant { who, s, .. } | Op::GrantTtl { who, s, .. } | Op::Revoke { who, s, .. } => (who, vec![(s, 3, ok)]),
        // documented contract of delegate: the parent must itself hold at least the delegated level
        Op::Delegate { who, s, lvl, .. } => (who, vec![(s, lvl, ok)]),
        _ => (R, vec![]),
    }
}

// ------------------------------------------------------------------------------------ worker result
#[derive(Serialize, Deserialize, Default)]
struct WRes {
    counters: BTreeMap<String, u64>,
    violations: Vec<(String, String, Value)>,
    violation_total: u64,
    per_sig: BTreeMap<String, u64>,
    samples: Vec<Value>,
    state_hashes: Vec<u64>,
    nontrivial_hashes: Vec<u64>,
    machinery: Option<String>,
}
impl WRes {
    fn add(&mut self, k: &str, n: u64) {
        *self.counters.entry(k.to_string()).or_insert(0) += n;
    }
    fn violation(&mut self, sig: String, msg: String, replay: Value) {
        self.violation_total += 1;
        let c = self.per_sig.entry(sig.clone()).or_insert(0);
        *c += 1;
        if *c <= 2 {
            self.violations.push((sig, msg, replay));
        }
    }
}
fn h64(s: &str) -> u64 {
    let mut h = std::collections::hash_map::DefaultHasher::new();
    s.hash(&mut h);
    h.finish()
}

// ------------------------------------------------------------------------------------------- part A
struct Ctx {
    alpha: Vec<Op>,
    hvals: Vec<String>,
    max_depth: usize,
    horizon: usize,
    wi: usize,
    wn: usize,
    shallow_counter: u64,
    corrupt: bool,
    part: &'static str,
    res: WRes,
    states: BTreeSet<u64>,
    nontrivial: BTreeSet<u64>,
}

fn hist_json(h: &[Op]) -> Value {
    json!(h.iter().map(|o| json!({"op": o, "text": show(o)})).collect::<Vec<_>>())
}

/// replay `hist` on a fresh vault; returns the world, fingerprint before the last op and its outcome
fn replay(ctx: &Ctx, hist: &[Op], want_fp: bool) -> (World, u64, Outcome) {
    replay_on(World::new(ctx.horizon), ctx, hist, want_fp)
}
fn replay_fresh(ctx: &Ctx, hist: &[Op]) -> World {
    replay_on(World::fresh(ctx.horizon), ctx, hist, false).0
}
fn replay_on(mut w: World, ctx: &Ctx, hist: &[Op], want_fp: bool) -> (World, u64, Outcome) {
    let mut fp = 0;
    let mut last = Outcome::ok();
    for (i, op) in hist.iter().enumerate() {
        if i + 1 == hist.len() && want_fp {
            fp = w.fingerprint();
        }
        last = w.exec(*op, &ctx.hvals[i % ctx.hvals.len()]);
    }
    (w, fp, last)
}

/// compare one real decision with the reference; returns true if it is a violation
fn judge(ctx: &mut Ctx, m: &Model, hist: &[Op], op: &Op, out: &Outcome, is_probe: bool, record: bool) -> bool {
    let (who, decs) = decisions(op, out, m);
    if who == R {
        return false;
    }
    let mut bad = false;
    for (s, need, allowed) in decs {
        let strict = m.level(who, s, false);
        let att = m.level(who, s, true);
        if record {
            ctx.res.add("decisions_compared", 1);
            ctx.res.add(&format!("{}:{}", op_kind(op), if allowed { "allowed" } else { "denied" }), 1);
        }
        if allowed && strict < need {
            bad = true;
            if record {
                let reason = m.reason(who, s, need);
                let sig = format!("c14:allow-without-live-grant:{reason}:{}", op_kind(op));
                let mut full: Vec<Op> = hist.to_vec();
                let msg = format!(
                    "{} succeeded for {} on '{}' although the reference has no live grant of level >= {} ({}); history: [{}]",
                    show(op),
                    ENT[who as usize],
                    SEC[s as usize],
                    lvl_name(need),
                    reason,
                    hist.iter().map(show).collect::<Vec<_>>().join("; ")
                );
                let rj = if is_probe {
                    json!({"part": ctx.part, "horizon": ctx.horizon, "history": hist_json(hist), "probe": {"op": op, "text": show(op)}})
                } else {
                    full.push(*op);
                    json!({"part": ctx.part, "horizon": ctx.horizon, "history": hist_json(&full)})
                };
                ctx.res.violation(sig, msg, rj);
            }
        } else if record {
            if allowed && att < need {
                // allowed by a live grant whose level would be insufficient after distance attenuation:
                // stricter than the statement, so information only
                ctx.res.add("info_allowed_beyond_attenuated_level", 1);
            }
            if !allowed && att >= need && m.exists[s as usize] {
                if std::env::var("C14_DEBUG").is_ok() {
                    eprintln!("over-denial: {} after [{}] : {}", show(op), hist.iter().map(show).collect::<Vec<_>>().join("; "), out.err);
                }
                ctx.res.add("info_denied_although_reference_allows", 1);
            }
        }
    }
    bad
}

fn value_needles(ctx: &Ctx, hist: &[Op]) -> Vec<(usize, Vec<u8>)> {
    let mut v = vec![];
    for (i, op) in hist.iter().enumerate() {
        if is_write_value_op(op) {
            let vi = i % ctx.hvals.len();
            for n in needles_of(&ctx.hvals[vi]) {
                if !v.iter().any(|(_, x)| *x == n) {
                    v.push((vi, n));
                }
            }
        }
    }
    v
}

fn confidentiality_checks(res: &mut WRes, part: &str, w: &World, value_needles: &[Vec<u8>], name_needles: &[Vec<u8>], errors: &[String], replay: &Value, what: &str) {
    for (which, store) in [("vault-store", &w.store), ("graph-store", w.graph.store())] {
        res.add("at_rest_searches", 1);
        let found = search_store(store, which, &[value_needles, name_needles]);
        for loc in &found[0] {
            res.violation(format!("c14:value-readable-at-rest:{loc}"), format!("a secret value is readable in {loc} after {what}"), replay.clone());
        }
        for loc in &found[1] {
            res.violation(format!("c14:name-readable-at-rest:{loc}"), format!("a secret name is readable in {loc} after {what}"), replay.clone());
        }
    }
    // audit records
    let mut audit_text = String::new();
    if let Ok(entries) = w.vault.audit_recent(100_000) {
        res.add("audit_records_searched", entries.len() as u64);
        for e in &entries {
            audit_text.push_str(&format!("{e:?}\n"));
            if let Ok(j) = serde_json::to_string(e) {
                audit_text.push_str(&j);
            }
        }
    }
    for n in value_needles {
        if contains(audit_text.as_bytes(), n) {
            res.violation("c14:value-in-audit-record".into(), format!("a secret value appears in an audit record after {what}"), replay.clone());
        }
        for e in errors {
            if contains(e.as_bytes(), n) {
                res.violation("c14:value-in-error-message".into(), format!("a secret value appears in the error message {:?} after {what}", e.chars().take(200).collect::<String>()), replay.clone());
            }
        }
    }
    let _ = part;
}

fn probes_mutating(q: u8, s: u8) -> Vec<Op> {
    let other = if q == U3 { U1 } else { U3 };
    vec![
        Op::GetVersion { who: q, s },
        Op::Rotate { who: q, s },
        Op::Set { who: q, s },
        Op::Delete { who: q, s },
        Op::Grant { who: q, to: U3, s, lvl: 1 },
        Op::Revoke { who: q, from: U1, s },
        Op::Delegate { who: q, to: other, s, lvl: 1, ttl: false },
    ]
}

fn probe_node(ctx: &mut Ctx, hist: &[Op], m: &Model, mut w: World) {
    // 1. pure: get_permission (information)
    for &q in &REQUESTERS {
        for s in 0..2u8 {
            let real = w.vault.get_permission(ENT[q as usize], SEC[s as usize]).map_or(0, perm_lvl);
            let att = m.level(q, s, true);
            ctx.res.add("get_permission_compared", 1);
            if real > m.level(q, s, false) {
                ctx.res.add("info_get_permission_above_reference", 1);
            } else if real != att {
                if std::env::var("C14_DEBUG").is_ok() {
                    eprintln!("get_permission({}, {}) = {} but attenuated reference {} after [{}]", ENT[q as usize], SEC[s as usize], lvl_name(real), lvl_name(att), hist.iter().map(show).collect::<Vec<_>>().join("; "));
                }
                ctx.res.add("info_get_permission_differs_from_attenuated_reference", 1);
            }
        }
    }
    // 2. operations that would change state if allowed: run on the shared instance while they are
    //    denied (a denied call must leave the stores untouched — verified by fingerprint at the end of the denied run), rebuild after every allowed one. These run BEFORE any get/list so
    //    that lazily applied expiry is observed.
    let mut fp = w.fingerprint();
    let mut errors: Vec<String> = vec![];
    for &q in &REQUESTERS {
        for s in 0..2u8 {
            for p in probes_mutating(q, s) {
                let out = w.exec(p, PROBE_VALUE);
                ctx.res.add("probes", 1);
                if out.st == St::Err {
                    errors.push(out.err.clone());
                }
                if judge(ctx, m, hist, &p, &out, true, false) {
                    // confirm on never-used stores with only this probe
                    let mut w2 = replay_fresh(ctx, hist);
                    let out2 = w2.exec(p, PROBE_VALUE);
                    ctx.res.add("replays", 1);
                    if !judge(ctx, m, hist, &p, &out2, true, true) {
                        // the outcome of this call differs between two instances with the same history
                        // (e.g. DelegationManager::is_ancestor follows the first parent in DashMap order):
                        // not reproducible from the replay file, so not reported as a violation
                        ctx.res.add("info_violation_not_reproduced_on_fresh_instance", 1);
                        if std::env::var("C14_DEBUG").is_ok() {
                            eprintln!("not reproduced: {} after [{}]: shared {:?} fresh {:?} {}", show(&p), hist.iter().map(show).collect::<Vec<_>>().join("; "), out.st, out2.st, out2.err);
                        }
                    }
                } else {
                    judge(ctx, m, hist, &p, &out, true, true);
                }
                if out.st == St::Ok && !matches!(p, Op::GetVersion { .. }) {
                    drop(w);
                    w = replay(ctx, hist, false).0;
                    ctx.res.add("replays", 1);
                    fp = w.fingerprint();
                }
            }
        }
    }
    if w.fingerprint() != fp {
        // some denied call changed a store: information, and the reads below get a clean instance
        ctx.res.add("info_denied_probe_changed_store", 1);
        drop(w);
        w = replay(ctx, hist, false).0;
        ctx.res.add("replays", 1);
    }
    // 3. reads (get cleans up expired grants itself; requester-independent, so sharing is equivalent)
    for &q in &REQUESTERS {
        let mut ps: Vec<Op> = vec![];
        for s in 0..2u8 {
            ps.push(Op::Get { who: q, s });
            ps.push(Op::ListExact { who: q, s });
        }
        ps.push(Op::ListAll { who: q });
        for p in ps {
            let out = w.exec(p, PROBE_VALUE);
            ctx.res.add("probes", 1);
            if out.st == St::Err {
                errors.push(out.err.clone());
            }
            if judge(ctx, m, hist, &p, &out, true, false) {
                let mut w2 = replay_fresh(ctx, hist);
                let out2 = w2.exec(p, PROBE_VALUE);
                ctx.res.add("replays", 1);
                if !judge(ctx, m, hist, &p, &out2, true, true) {
                    ctx.res.add("info_violation_not_reproduced_on_fresh_instance", 1);
                }
            } else {
                judge(ctx, m, hist, &p, &out, true, true);
            }
        }
    }
    // error strings of the denied probes must not contain any value written so far
    let vn: Vec<Vec<u8>> = value_needles(ctx, hist).into_iter().map(|x| x.1).chain(needles_of(PROBE_VALUE)).collect();
    ctx.res.add("error_strings_searched", errors.len() as u64);
    for e in &errors {
        for n in &vn {
            if contains(e.as_bytes(), n) {
                ctx.res.violation("c14:value-in-error-message".into(), format!("a secret value appears in the error message {e:?}"), json!({"part": ctx.part, "horizon": ctx.horizon, "history": hist_json(hist)}));
            }
        }
    }
}

fn dfs(ctx: &mut Ctx, hist: &mut Vec<Op>, model: &Model, owned_subtree: Option<bool>) {
    let depth = hist.len();
    for ai in 0..ctx.alpha.len() {
        let op = ctx.alpha[ai];
        hist.push(op);
        let (w, fp_before, out) = replay(ctx, hist, true);
        if out.st == St::Noop {
            hist.pop();
            continue;
        }
        // ownership: nodes of depth <= 2 are dealt round-robin; deeper nodes belong to their depth-2 ancestor
        let owned = match owned_subtree {
            Some(o) => o,
            None => {
                let c = ctx.shallow_counter;
                ctx.shallow_counter += 1;
                (c % ctx.wn as u64) as usize == ctx.wi
            }
        };
        if owned {
            ctx.res.add("replays", 1);
            ctx.res.add("transitions", 1);
        }
        let prefix = &hist[..depth];
        let step_violation = judge(ctx, model, prefix, &op, &out, false, owned);
        let fp_after = w.fingerprint();
        if out.st == St::Err && fp_before == fp_after {
            // failed and left both stores byte-identical: same state as the shorter history, which is explored
            if owned {
                ctx.res.add("pruned_failed_noop_steps", 1);
                let vn: Vec<Vec<u8>> = value_needles(ctx, hist).into_iter().map(|x| x.1).collect();
                if vn.iter().any(|n| contains(out.err.as_bytes(), n)) {
                    ctx.res.violation("c14:value-in-error-message".into(), format!("a secret value appears in the error message {:?}", out.err), json!({"part": ctx.part, "horizon": ctx.horizon, "history": hist_json(hist)}));
                }
            }
            hist.pop();
            continue;
        }
        let mut m2 = model.clone();
        if out.st == St::Ok {
            m2.apply(&op);
        } else if owned {
            if std::env::var("C14_DEBUG").is_ok() {
                eprintln!("failed step changed store: [{}] : {}", hist.iter().map(show).collect::<Vec<_>>().join("; "), out.err);
            }
            ctx.res.add("info_failed_step_changed_store", 1);
        }
        if owned {
            let k = h64(&m2.key());
            ctx.states.insert(k);
            if m2.nontrivial() {
                ctx.nontrivial.insert(k);
            }
            if step_violation {
                ctx.res.add("pruned_after_violation", 1);
            } else {
                let vn: Vec<Vec<u8>> = value_needles(ctx, hist).into_iter().map(|x| x.1).collect();
                let nn: Vec<Vec<u8>> = SEC.iter().map(|s| s.as_bytes().to_vec()).collect();
                let rj = json!({"part": ctx.part, "horizon": ctx.horizon, "history": hist_json(hist)});
                let errs = if out.st == St::Err { vec![out.err.clone()] } else { vec![] };
                let mut res = std::mem::take(&mut ctx.res);
                confidentiality_checks(&mut res, ctx.part, &w, &vn, &nn, &errs, &rj, &format!("[{}]", hist.iter().map(show).collect::<Vec<_>>().join("; ")));
                ctx.res = res;
                if ctx.res.samples.len() < 2 && hist.len() == ctx.max_depth && m2.nontrivial() && REQUESTERS.iter().any(|&q| m2.level(q, A, false) > 0) {
                    ctx.res.samples.push(json!({"part": ctx.part, "history": hist.iter().map(show).collect::<Vec<_>>(), "reference_levels_on_A": REQUESTERS.iter().map(|&q| format!("{}={}", ENT[q as usize], lvl_name(m2.level(q, A, false)))).collect::<Vec<_>>()}));
                }
                probe_node(ctx, hist, &m2, w);
            }
        }
        if !step_violation && hist.len() < ctx.max_depth {
            let child_owned = if hist.len() >= 2 { Some(owned) } else { None };
            if child_owned != Some(false) {
                dfs(ctx, hist, &m2, child_owned);
            }
        }
        hist.pop();
    }
}

fn run_part_a(part: &'static str, alpha: &str, horizon: usize, max_depth: usize, wi: usize, wn: usize, corrupt: bool) -> WRes {
    let mut ctx = Ctx { alpha: alphabet(alpha), hvals: hist_values(), max_depth, horizon, wi, wn, shallow_counter: 0, corrupt, part, res: WRes::default(), states: BTreeSet::new(), nontrivial: BTreeSet::new() };
    let model = Model { horizon, corrupt: ctx.corrupt, ..Model::default() };
    // the empty history is probed by worker 0
    if wi == 0 {
        let w = World::new(horizon);
        probe_node(&mut ctx, &[], &model, w);
    }
    dfs(&mut ctx, &mut vec![], &model, None);
    ctx.res.state_hashes = ctx.states.iter().copied().collect();
    ctx.res.nontrivial_hashes = ctx.nontrivial.iter().copied().collect();
    ctx.res
}

// ------------------------------------------------------------------------------------------- part B
fn value_battery() -> Vec<(String, String)> {
    let limit = 65_531usize;
    vec![
        ("1 char (2 bytes)".into(), "§".into()),
        ("1 byte".into(), "\u{7f}".into()),
        ("ascii 15".into(), ascii_value("B15-", 15)),
        ("ascii 16".into(), ascii_value("B16-", 16)),
        ("ascii 17".into(), ascii_value("B17-", 17)),
        ("multibyte 16".into(), multibyte_value("m-", 16)),
        ("multibyte 17".into(), multibyte_value("n-", 17)),
        ("ascii 255".into(), ascii_value("B255-", 255)),
        ("ascii 256".into(), ascii_value("B256-", 256)),
        ("multibyte 255".into(), multibyte_value("M255-", 255)),
        ("ascii limit 65531".into(), ascii_value("BL-", limit)),
        ("multibyte limit 65531".into(), multibyte_value("ML-", limit)),
        ("json/quote characters".into(), "va\"lue\\with{json}:'chars'\n,[x]".into()),
    ]
}
fn name_battery() -> Vec<(String, String)> {
    vec![
        ("plain".into(), "service-token-41".into()),
        ("1 char (2 bytes)".into(), "¶".into()),
        ("ascii 15".into(), ascii_value("N15/", 15)),
        ("ascii 16".into(), ascii_value("N16/", 16)),
        ("ascii 17".into(), ascii_value("N17/", 17)),
        ("nested namespaces".into(), "tenant-x/env-y/deep/secret-name-1".into()),
        ("multibyte".into(), "ключ/секрет-鍵-ß".into()),
        ("ascii 255".into(), ascii_value("N255/", 255)),
        ("multibyte 1024".into(), multibyte_value("NM/", 1024)),
    ]
}

fn part_b_case(res: &mut WRes, ni: usize, vi: usize, corrupt: bool) {
    let names = name_battery();
    let values = value_battery();
    let (nlabel, name) = &names[ni];
    let (vlabel, value) = &values[vi];
    let rot = format!("rotated-{}", ascii_value("R-", 24));
    let second = format!("second-{}", multibyte_value("S-", 40));
    let other_name = "other/never-created-77";
    let w = World::fresh(10);
    let v = &w.vault;
    let mut vneedles: Vec<Vec<u8>> = needles_of(value);
    let mut nneedles: Vec<Vec<u8>> = needles_of(name);
    if corrupt {
        // --selftest=needle : pretend that a string known to be stored is a secret name
        nneedles.push(b"vault_secret".to_vec());
    }
    let replay = json!({"part": "B", "name_index": ni, "value_index": vi, "name": nlabel, "value": vlabel});
    let mut steps = 0u64;
    let mut check = |res: &mut WRes, what: &str, err: Option<String>, vneedles: &[Vec<u8>]| {
        steps += 1;
        let errs: Vec<String> = err.into_iter().collect();
        confidentiality_checks(res, "B", &w, vneedles, &nneedles, &errs, &replay, &format!("{what} (name: {nlabel}, value: {vlabel})"));
    };
    let es = |r: Result<(), tensor_vault::VaultError>| r.err().map(|e| format!("{e} || {e:?}"));
    let u1 = "user:u1";
    let u2 = "user:u2";
    let u3 = "user:u3";
    let r = v.set(Vault::ROOT, name, value);
    if r.is_err() {
        res.machinery.get_or_insert(format!("part B: root could not create the secret ({nlabel}/{vlabel}): {r:?}"));
        return;
    }
    check(res, "set", None, &vneedles);
    match v.get(Vault::ROOT, name) {
        Ok(got) if got == *value => res.add("round_trips_ok", 1),
        other => {
            res.machinery.get_or_insert(format!("part B: get after set did not return the value ({nlabel}/{vlabel}): {:?}", other.map(|s| s.len())));
        }
    }
    check(res, "get", None, &vneedles);
    let e = es(v.grant_with_permission(Vault::ROOT, u1, name, Permission::Read));
    check(res, "grant", e, &vneedles);
    let e = es(v.grant_with_ttl(Vault::ROOT, u2, name, Permission::Write, Duration::from_secs(3600)));
    check(res, "grant_with_ttl", e, &vneedles);
    let e = v.delegate(Vault::ROOT, u3, &[name.as_str()], Permission::Read, Some(Duration::from_secs(3600))).err().map(|e| format!("{e} || {e:?}"));
    check(res, "delegate", e, &vneedles);
    let e = es(v.rotate(u2, name, &rot));
    vneedles.extend(needles_of(&rot));
    check(res, "rotate by a Write grantee", e, &vneedles);
    let e = v.get(u1, name).err().map(|e| format!("{e} || {e:?}"));
    check(res, "get by a Read grantee", e, &vneedles);
    let e = v.get("user:nobody", name).err().map(|e| format!("{e} || {e:?}"));
    check(res, "denied get", e, &vneedles);
    let e = es(v.set(u1, name, value));
    check(res, "denied overwrite (value passed in)", e, &vneedles);
    let e = es(v.rotate(u1, name, value));
    check(res, "denied rotate (value passed in)", e, &vneedles);
    let e = es(v.set(u1, other_name, value));
    check(res, "denied create (value passed in)", e, &vneedles);
    let e = es(v.rotate(Vault::ROOT, other_name, value));
    check(res, "rotate of a missing secret (value passed in)", e, &vneedles);
    // one byte over the limit, beginning with the value
    let mut over = value.clone();
    while over.len() <= 65_531 {
        over.push_str("0123456789abcdef");
    }
    let e = es(v.set(Vault::ROOT, name, &over));
    if e.is_none() {
        res.add("info_oversize_value_accepted", 1);
        vneedles.extend(needles_of(&over));
    }
    check(res, "oversize set", e, &vneedles);
    let e = v.list(u1, "*").err().map(|e| format!("{e} || {e:?}"));
    check(res, "list", e, &vneedles);
    let e = v.get_version(Vault::ROOT, name, 99).err().map(|e| format!("{e} || {e:?}"));
    check(res, "get_version of a missing version", e, &vneedles);
    let e = es(v.set(Vault::ROOT, name, &second));
    vneedles.extend(needles_of(&second));
    check(res, "second set (new version)", e, &vneedles);
    let e = v.create_snapshot(Vault::ROOT, "c14-snapshot").err().map(|e| format!("{e} || {e:?}"));
    check(res, "create_snapshot", e, &vneedles);
    nvc::env::clock_advance_ms(2 * HOUR_MS);
    let e = v.get(u2, name).err().map(|e| format!("{e} || {e:?}"));
    check(res, "get after the grant expired", e, &vneedles);
    let e = es(v.delete(Vault::ROOT, name));
    check(res, "delete", e, &vneedles);
    res.add("part_b_steps", steps);
    res.add("part_b_cases", 1);
    if res.samples.len() < 1 && ni == 6 && vi == 9 {
        res.samples.push(json!({"part": "B", "name": nlabel, "value": vlabel, "steps": steps}));
    }
}

/// no value needle may occur in a name / identity / fixed string the harness itself passes around
fn battery_sanity() -> Option<String> {
    let mut values: Vec<String> = value_battery().into_iter().map(|x| x.1).chain(hist_values()).collect();
    values.push(PROBE_VALUE.into());
    values.push(format!("rotated-{}", ascii_value("R-", 24)));
    values.push(format!("second-{}", multibyte_value("S-", 40)));
    let mut texts: Vec<String> = name_battery().into_iter().map(|x| x.1).collect();
    texts.extend(SEC.iter().map(|s| s.to_string()));
    texts.extend(ENT.iter().map(|s| s.to_string()));
    texts.push("other/never-created-77 user:nobody c14-snapshot access denied insufficient permission secret not found".into());
    for v in &values {
        for n in needles_of(v) {
            for t in &texts {
                if contains(t.as_bytes(), &n) {
                    return Some(format!("battery collision: a needle of value {:?} occurs in {:?}", v.chars().take(20).collect::<String>(), t.chars().take(40).collect::<String>()));
                }
            }
            for v2 in &values {
                if v2 != v && needles_of(v2).iter().any(|n2| *n2 == n) {
                    return Some(format!("battery collision between two values ({:?})", v.chars().take(20).collect::<String>()));
                }
            }
        }
    }
    None
}

fn run_part_b(wi: usize, wn: usize, thorough: bool, corrupt: bool) -> WRes {
    let mut res = WRes::default();
    let (nn, nv) = (name_battery().len(), value_battery().len());
    let mut k = 0usize;
    for ni in 0..nn {
        for vi in 0..nv {
            // quick: every value with the first name, every name with the first three values; thorough: full product
            if !thorough && !(ni == 0 || vi < 3) {
                continue;
            }
            if k % wn == wi {
                part_b_case(&mut res, ni, vi, corrupt);
            }
            k += 1;
        }
    }
    res
}

// --------------------------------------------------------------------------------------------- main
fn merge(into: &mut WRes, from: WRes) {
    for (k, v) in from.counters {
        *into.counters.entry(k).or_insert(0) += v;
    }
    into.violation_total += from.violation_total;
    for (k, v) in from.per_sig {
        *into.per_sig.entry(k).or_insert(0) += v;
    }
    into.violations.extend(from.violations);
    into.samples.extend(from.samples);
    into.state_hashes.extend(from.state_hashes);
    into.nontrivial_hashes.extend(from.nontrivial_hashes);
    if into.machinery.is_none() {
        into.machinery = from.machinery;
    }
}

struct Plan {
    parts: Vec<(&'static str, &'static str, usize, usize)>, // (label, alphabet, horizon, depth)
}
fn plan(thorough: bool) -> Plan {
    let d = |k: &str, dflt: usize| std::env::var(k).ok().and_then(|x| x.parse().ok()).unwrap_or(dflt);
    if thorough {
        Plan { parts: vec![("A1: horizon=2, full alphabet", "full", 2, d("C14_DEPTH", 4)), ("A2: horizon=2, core alphabet", "core", 2, d("C14_DEPTH_CORE", 5)), ("A3: default policy (horizon=10), full alphabet", "full", 10, 3)] }
    } else {
        Plan { parts: vec![("A1: horizon=2, full alphabet", "full", 2, d("C14_DEPTH", 3)), ("A2: horizon=2, core alphabet", "core", 2, d("C14_DEPTH_CORE", 4))] }
    }
}

fn worker_main(rep: &Report, wi: usize, wn: usize) {
    nvc::env::require();
    nvc::env::clock_freeze(1_700_000_000);
    let thorough = rep.thorough();
    let selftest = rep.args.flag("selftest");
    let mut total = WRes::default();
    let t_start = real_now();
    let mut per_part: BTreeMap<String, Value> = BTreeMap::new();
    for (label, alpha, horizon, depth) in plan(thorough).parts {
        let r = run_part_a(label, alpha, horizon, depth, wi, wn, selftest.as_deref() == Some("oracle"));
        per_part.insert(label.to_string(), json!({"states": r.state_hashes.len()}));
        // keep state hashes distinct per part by salting
        let mut r = r;
        let salt = h64(label);
        r.state_hashes.iter_mut().for_each(|h| *h ^= salt);
        r.nontrivial_hashes.iter_mut().for_each(|h| *h ^= salt);
        merge(&mut total, r);
    }
    let t_a = real_now();
    let b = run_part_b(wi, wn, thorough, selftest.as_deref() == Some("needle"));
    merge(&mut total, b);
    if std::env::var("C14_DEBUG").is_ok() {
        eprintln!("worker {wi}: part A {:.1}s part B {:.1}s", t_a - t_start, real_now() - t_a);
    }
    nvc::par::emit_result(&total);
}

fn run_replay(rep: &mut Report, path: &str) {
    nvc::env::require();
    nvc::env::clock_freeze(1_700_000_000);
    let body: Value = serde_json::from_str(&std::fs::read_to_string(path).expect("read replay")).expect("json");
    let r = body.get("replay").cloned().unwrap_or(body);
    let mut res = WRes::default();
    if r["part"] == "B" {
        part_b_case(&mut res, r["name_index"].as_u64().unwrap() as usize, r["value_index"].as_u64().unwrap() as usize, false);
    } else {
        let horizon = r["horizon"].as_u64().unwrap_or(2) as usize;
        let hist: Vec<Op> = r["history"].as_array().unwrap().iter().map(|x| serde_json::from_value(x["op"].clone()).unwrap()).collect();
        let probe: Option<Op> = r.get("probe").map(|p| serde_json::from_value(p["op"].clone()).unwrap());
        let mut ctx = Ctx { alpha: alphabet("full"), hvals: hist_values(), max_depth: hist.len(), horizon, wi: 0, wn: 1, shallow_counter: 0, corrupt: false, part: "A(replay)", res: WRes::default(), states: BTreeSet::new(), nontrivial: BTreeSet::new() };
        let mut m = Model { horizon, ..Model::default() };
        let mut w = World::new(horizon);
        for (i, op) in hist.iter().enumerate() {
            let out = w.exec(*op, &ctx.hvals[i % ctx.hvals.len()]);
            eprintln!("  step {i}: {} -> {:?} {}", show(op), out.st, out.err);
            judge(&mut ctx, &m, &hist[..i], op, &out, false, true);
            if out.st == St::Ok {
                m.apply(op);
            }
        }
        if let Some(p) = probe {
            let out = w.exec(p, PROBE_VALUE);
            eprintln!("  probe: {} -> {:?} {} (reference level {} / attenuated {})", show(&p), out.st, out.err, "see message", "");
            judge(&mut ctx, &m, &hist, &p, &out, true, true);
        }
        let vn: Vec<Vec<u8>> = value_needles(&ctx, &hist).into_iter().map(|x| x.1).collect();
        let nn: Vec<Vec<u8>> = SEC.iter().map(|s| s.as_bytes().to_vec()).collect();
        let mut res2 = std::mem::take(&mut ctx.res);
        confidentiality_checks(&mut res2, "A", &w, &vn, &nn, &[], &r, "replayed history");
        res = res2;
    }
    for (sig, msg, rj) in res.violations {
        rep.violation(sig, msg, rj);
    }
    rep.sample(json!({"replayed": path}));
    rep.add("evaluations", res.counters.get("decisions_compared").copied().unwrap_or(0));
}

fn real_now() -> f64 {
    let mut ts = libc::timespec { tv_sec: 0, tv_nsec: 0 };
    unsafe { libc::syscall(libc::SYS_clock_gettime, libc::CLOCK_MONOTONIC, &mut ts) };
    ts.tv_sec as f64 + ts.tv_nsec as f64 * 1e-9
}
fn bench() {
    nvc::env::clock_freeze(1_700_000_000);
    let n = 300;
    let t = real_now();
    for _ in 0..n {
        let _w = World::new(2);
    }
    println!("World::new {:.1} us", (real_now() - t) / n as f64 * 1e6);
    let st = TensorStore::new();
    let t = real_now();
    for _ in 0..n {
        st.clear();
    }
    println!("store.clear {:.1} us", (real_now() - t) / n as f64 * 1e6);
    let t = real_now();
    for _ in 0..n {
        let _g = GraphEngine::with_store(st.clone());
    }
    println!("GraphEngine::with_store {:.1} us", (real_now() - t) / n as f64 * 1e6);
    let g = Arc::new(GraphEngine::with_store(st.clone()));
    let st2 = TensorStore::new();
    let t = real_now();
    for _ in 0..n {
        st2.clear();
        let _v = Vault::new(b"k", g.clone(), st2.clone(), vault_config(2)).unwrap();
    }
    println!("clear+Vault::new {:.1} us", (real_now() - t) / n as f64 * 1e6);
    let t = real_now();
    for _ in 0..n {
        let _s = TensorStore::new();
    }
    println!("TensorStore::new {:.1} us", (real_now() - t) / n as f64 * 1e6);
    let t = real_now();
    for _ in 0..n {
        let _s = GraphEngine::new();
    }
    println!("GraphEngine::new {:.1} us", (real_now() - t) / n as f64 * 1e6);
    let t = real_now();
    for _ in 0..n {
        let _ = tensor_vault::MasterKey::derive(b"k", &vault_config(2));
    }
    println!("MasterKey::derive {:.1} us", (real_now() - t) / n as f64 * 1e6);
    let mut w = World::new(2);
    let hv = hist_values();
    for (i, op) in [Op::Set { who: R, s: A }, Op::Grant { who: R, to: U1, s: A, lvl: 1 }, Op::MemberAdd { m: U2, g: G }].iter().enumerate() {
        let t = real_now();
        w.exec(*op, &hv[i]);
        println!("{} {:.1} us", show(op), (real_now() - t) * 1e6);
    }
    let t = real_now();
    for _ in 0..n {
        w.fingerprint();
    }
    println!("fingerprint {:.1} us", (real_now() - t) / n as f64 * 1e6);
    for q in REQUESTERS {
        for p in probes_mutating(q, A).into_iter().chain([Op::Get { who: q, s: A }, Op::ListExact { who: q, s: A }, Op::ListAll { who: q }]) {
            let f0 = w.fingerprint();
            let t = real_now();
            let o = w.exec(p, PROBE_VALUE);
            let dt = (real_now() - t) * 1e6;
            println!("{} -> {:?} {:.1} us changed={}", show(&p), o.st, dt, w.fingerprint() != f0);
        }
    }
    let t = real_now();
    for _ in 0..n {
        let _ = w.vault.audit_recent(100_000);
    }
    println!("audit_recent {:.1} us", (real_now() - t) / n as f64 * 1e6);
}

fn main() {
    if std::env::args().any(|a| a == "--bench") {
        bench();
        return;
    }
    let mut rep = Report::new("C14", "model_checking");
    if let Some((wi, wn)) = rep.args.worker {
        worker_main(&rep, wi, wn);
        return;
    }
    if let Some(path) = rep.args.replay.clone() {
        // artefacts of a replay go to replays/C14/replay-N.json, never over the originals
        rep.args.tier = "replay".into();
        run_replay(&mut rep, &path);
        nvc::env::clock_unfreeze();
        nvc::env::clock_reset();
        rep.finish();
    }
    let thorough = rep.thorough();
    let selftest = rep.args.flag("selftest");
    let pl = plan(thorough);
    rep.rule(&format!(
        "A: every sequence of <= N operations over an alphabet of up to {} letters (root/u1 acting; grants Read/Write/Admin to u1, groups g,h; TTL grants + clock advance; revoke; delete; delegate; membership add/remove u2->g->h; a non-membership edge; a MEMBER edge straight to the secret), executed on the real Vault; a step that fails and leaves both stores byte-identical is not extended (same state as the shorter sequence); after every step all {} requesters x 2 secrets x {{get_version,rotate,set,delete,grant,revoke,delegate,get,list exact,list *}} are probed and each allow/deny is compared with the reference ACL; non-trivial = reference state with an expired/revoked/deleted grant, a removed membership or a live group grant. parts: {:?}",
        alphabet("full").len(),
        REQUESTERS.len(),
        pl.parts
    ));
    rep.rule("B: name battery x value battery (lengths 1,15,16,17,255,256,65531; ASCII and multi-byte) through a 20-step script; after every step both stores (structural walk + raw snapshot image), all audit records and all error strings are searched");
    rep.assume("alarm direction: only 'real vault allows, reference has no live grant of sufficient un-attenuated level'; denials where the reference would allow, and distance attenuation of levels, are reported as information");
    rep.assume("a denied/failed call that leaves the byte images of vault store and graph store unchanged has not changed the vault (probe sharing, pruning of failed steps); every violation is re-confirmed on a fresh replay");
    rep.assume("delegate follows its documented contract (parent needs the delegated level, not Admin); creating a new secret is root-only by design and not judged");
    rep.assume(&format!("a needle shorter than {MIN_BIN_NEEDLE} bytes is searched only in textual material (keys, field names, strings, pointers, audit records, errors), not in binary fields or the raw image, where it could occur by chance"));

    if let Some(m) = battery_sanity() {
        rep.machinery(m);
        rep.sample(json!({"battery": "collision"}));
        rep.finish();
    }
    let wn = nvc::par::worker_count();
    let results: Vec<WRes> = nvc::par::spawn_workers(wn, &[]);
    let mut total = WRes::default();
    for r in results {
        merge(&mut total, r);
    }
    let states: BTreeSet<u64> = total.state_hashes.iter().copied().collect();
    let nontrivial: BTreeSet<u64> = total.nontrivial_hashes.iter().copied().collect();
    let c = |k: &str| total.counters.get(k).copied().unwrap_or(0);

    if let Some(kind) = selftest {
        // deliberately corrupted oracle: must produce violations; evidence file is not touched
        println!("selftest={kind}: {} violating cases, signatures:", total.violation_total);
        for (sig, n) in &total.per_sig {
            println!("VIOLATION property=C14 selftest signature={sig} cases={n}");
        }
        std::process::exit(if total.violation_total > 0 { 1 } else { 2 });
    }

    // violations: keep the shortest artefacts first
    let mut v = total.violations;
    v.sort_by_key(|(sig, _, r)| (sig.clone(), r["history"].as_array().map_or(0, |a| a.len())));
    for (sig, msg, r) in v {
        rep.violation(sig, msg, r);
    }
    for s in total.samples.iter().take(6) {
        rep.sample(s.clone());
    }
    rep.add("states", states.len() as u64);
    rep.add("transitions", c("transitions"));
    rep.add("traces_validated_against_impl", c("replays"));
    rep.add("evaluations", c("decisions_compared") + c("at_rest_searches") + c("get_permission_compared"));
    rep.add("distinct_nontrivial", nontrivial.len() as u64);
    rep.set("violating_cases_by_signature", json!(total.per_sig));
    rep.part("A", json!({"parts": pl.parts.iter().map(|(l, a, h, d)| json!({"label": l, "alphabet": a, "letters": alphabet(a).len(), "horizon": h, "depth": d})).collect::<Vec<_>>(), "alphabet_full": alphabet("full").iter().map(show).collect::<Vec<_>>(), "alphabet_core": alphabet("core").iter().map(show).collect::<Vec<_>>(), "counters": total.counters.iter().filter(|(k, _)| !k.starts_with("part_b") && *k != "round_trips_ok").collect::<BTreeMap<_, _>>()}));
    rep.part("B", json!({"cases": c("part_b_cases"), "steps": c("part_b_steps"), "round_trips_ok": c("round_trips_ok"), "names": name_battery().iter().map(|x| x.0.clone()).collect::<Vec<_>>(), "values": value_battery().iter().map(|x| x.0.clone()).collect::<Vec<_>>()}));
    if let Some(m) = total.machinery {
        rep.machinery(m);
    }
    // non-vacuity
    for k in ["get", "get_version", "list", "set", "rotate", "delete", "grant", "revoke", "delegate"] {
        if c(&format!("{k}:allowed")) == 0 || c(&format!("{k}:denied")) == 0 {
            rep.machinery(format!("vacuous: operation {k} was never both allowed and denied for a non-root requester"));
        }
    }
    if states.len() < 100 || nontrivial.len() < 30 || c("part_b_cases") < 10 || c("round_trips_ok") != c("part_b_cases") {
        rep.machinery("vacuous exploration: too few distinct reference states / part B cases");
    }
    rep.finish();
}
