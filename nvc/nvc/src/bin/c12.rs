//! C12 — 2PC key locks: one holder at a time, none left behind, deadlocks detected (DESIGN §4, C12).
//! Part D (E4): every wait-for graph on <= 5 transactions (+ rings with single chords on 6-8), built
//!         through the real `add_wait` in two insertion orders: `detect_cycles`, `would_create_cycle`,
//!         `DeadlockDetector::detect` (4 victim policies) against a transitive-closure reference.
//! Part S (E4): every sequence of lock / release / expire / serialize-restore operations on a real
//!         `LockManager` + `WaitForGraph` (replay BFS, dedup on the real observed state) against a
//!         sequential lock table.
//! Part K (E4): every sequence of coordinator operations (prepare, vote delivery, commit, abort,
//!         timeout sweep, orphan sweep) on a real `DistributedTxCoordinator`.
//! Part T (E1): 2-3 real threads under vsched, every schedule with <= bound preemptions:
//!         LockManager level = linearizability against the sequential lock table; coordinator level =
//!         quiescent "finished transactions left nothing behind" + exclusivity + no deadlock.
use nvc::{env, par, Report};
use rayon::prelude::*;
use serde::{Deserialize, Serialize};
use serde_json::{json, Value};
use std::collections::{BTreeMap, BTreeSet, HashSet};
use std::sync::atomic::{AtomicBool, Ordering};
use std::sync::{Arc, Mutex};
use std::time::Duration;
use tensor_chain::{
    ConsensusConfig, ConsensusManager, DeadlockDetector, DeadlockDetectorConfig, DistributedTxConfig, DistributedTxCoordinator, LockManager, PrepareRequest, PrepareVote, SerializableLockState,
    Transaction, TxPhase, VictimSelectionPolicy, WaitForGraph,
};
use tensor_store::SparseVector;
use vsched::{Body, ExploreCfg, RunResult, Verdict};

type Viol = (String, String, Value);

/// `--selftest`: the reference oracles are deliberately corrupted; every part must then alarm.
static SELFTEST: AtomicBool = AtomicBool::new(false);
fn selftest() -> bool {
    SELFTEST.load(Ordering::Relaxed)
}

/// per-thread virtual time of envshim (the sequential parts replay in parallel on rayon threads)
mod tclock {
    use std::ffi::{c_void, CString};
    fn sym(name: &str) -> *mut c_void {
        let c = CString::new(name).unwrap();
        let p = unsafe { libc::dlsym(libc::RTLD_DEFAULT, c.as_ptr()) };
        if p.is_null() {
            eprintln!("MACHINERY envshim symbol {name} missing");
            std::process::exit(2);
        }
        p
    }
    pub fn reset() {
        let f: extern "C" fn() = unsafe { std::mem::transmute(sym("verifenv_clock_thread_reset")) };
        f()
    }
    pub fn advance(ms: i64) {
        let f: extern "C" fn(i64) = unsafe { std::mem::transmute(sym("verifenv_clock_thread_advance_ms")) };
        f(ms)
    }
}
const BASE_S: i64 = 1_700_000_000;
const BASE_MS: u64 = 1_700_000_000_000;

// ------------------------------------------------------------------------------------------------
// shared: reference digraph on small index sets, observation of a real WaitForGraph
// ------------------------------------------------------------------------------------------------
#[derive(Clone, Debug)]
struct RefG {
    n: usize,
    adj: [u16; 16],
    reach: [u16; 16],
}
impl RefG {
    fn new(n: usize, edges: &[(usize, usize)]) -> RefG {
        let mut adj = [0u16; 16];
        for &(a, b) in edges {
            adj[a] |= 1 << b;
        }
        // reach[i] = nodes reachable from i by a path of length >= 1
        let mut reach = adj;
        loop {
            let mut changed = false;
            for i in 0..n {
                let mut r = reach[i];
                for j in 0..n {
                    if reach[i] >> j & 1 == 1 {
                        r |= reach[j];
                    }
                }
                if r != reach[i] {
                    reach[i] = r;
                    changed = true;
                }
            }
            if !changed {
                break;
            }
        }
        RefG { n, adj, reach }
    }
    fn cyclic(&self) -> bool {
        // selftest corruption: cycles through node 0 are "forgotten"
        let from = usize::from(selftest());
        (from..self.n).any(|i| self.reach[i] >> i & 1 == 1 && !(selftest() && self.reach[i] & 1 == 1 && self.reach[0] >> i & 1 == 1))
    }
    fn edge(&self, a: usize, b: usize) -> bool {
        self.adj[a] >> b & 1 == 1
    }
    /// is `cyc` (indices) a directed cycle of this graph?
    fn is_cycle(&self, cyc: &[usize]) -> bool {
        if cyc.len() < 2 || cyc.iter().collect::<BTreeSet<_>>().len() != cyc.len() || cyc.iter().any(|&c| c >= self.n) {
            return false;
        }
        (0..cyc.len()).all(|k| self.edge(cyc[k], cyc[(k + 1) % cyc.len()]))
    }
}

/// What the real graph records, seen through its public API, for the given transactions.
fn observed_edges(g: &WaitForGraph, txs: &[u64]) -> (BTreeSet<(u64, u64)>, BTreeSet<(u64, u64)>) {
    let mut fwd = BTreeSet::new();
    let mut rev = BTreeSet::new();
    for &t in txs {
        for h in g.waiting_for(t) {
            fwd.insert((t, h));
        }
        for w in g.waiting_on(t) {
            rev.insert((w, t));
        }
    }
    (fwd, rev)
}

/// mirror of edges / reverse_edges, and detect_cycles() <=> the recorded edges contain a cycle
fn check_graph_obs(g: &WaitForGraph, txs: &[u64]) -> Result<BTreeSet<(u64, u64)>, (String, String)> {
    let (fwd, rev) = observed_edges(g, txs);
    if fwd != rev {
        return Err(("c12:graph:edges-and-reverse-edges-differ".into(), format!("waiting_for says {fwd:?}, waiting_on says {rev:?}")));
    }
    let idx = |t: u64| txs.iter().position(|x| *x == t);
    let mut es = vec![];
    for (a, b) in &fwd {
        match (idx(*a), idx(*b)) {
            (Some(a), Some(b)) => es.push((a, b)),
            _ => return Err(("c12:graph:edge-to-unknown-transaction".into(), format!("edge {a}->{b} names a transaction that never existed"))),
        }
    }
    let rg = RefG::new(txs.len(), &es);
    let cycles = g.detect_cycles();
    if cycles.is_empty() == rg.cyclic() {
        return Err(("c12:detector:detect_cycles-disagrees-with-recorded-edges".into(), format!("recorded edges {fwd:?} cyclic={} but detect_cycles() = {cycles:?}", rg.cyclic())));
    }
    for c in &cycles {
        let ci: Option<Vec<usize>> = c.iter().map(|t| idx(*t)).collect();
        if !ci.is_some_and(|ci| rg.is_cycle(&ci)) {
            return Err(("c12:detector:reported-cycle-not-a-cycle".into(), format!("detect_cycles() reports {c:?}, which is not a directed cycle of {fwd:?}")));
        }
    }
    Ok(fwd)
}

// ------------------------------------------------------------------------------------------------
// Part D — the detector on every small wait-for graph
// ------------------------------------------------------------------------------------------------
const POLICIES: [VictimSelectionPolicy; 4] = [VictimSelectionPolicy::Youngest, VictimSelectionPolicy::Oldest, VictimSelectionPolicy::LowestPriority, VictimSelectionPolicy::MostLocks];

#[derive(Default)]
struct DOut {
    cases: u64,
    cyclic: u64,
    acyclic: u64,
    cycles_reported: u64,
    evals: u64,
    add_waits: u64,
    distinct_victims: BTreeSet<(u8, u64)>,
    viol: Vec<Viol>,
    viol_total: u64,
}
impl DOut {
    fn merge(mut self, o: DOut) -> DOut {
        self.cases += o.cases;
        self.cyclic += o.cyclic;
        self.acyclic += o.acyclic;
        self.cycles_reported += o.cycles_reported;
        self.evals += o.evals;
        self.add_waits += o.add_waits;
        self.distinct_victims.extend(o.distinct_victims);
        self.viol_total += o.viol_total;
        for v in o.viol {
            if self.viol.iter().filter(|x| x.0 == v.0).count() < 3 {
                self.viol.push(v);
            }
        }
        self
    }
    fn bad(&mut self, sig: &str, msg: String, n: usize, edges: &[(usize, usize)]) {
        self.viol_total += 1;
        if self.viol.iter().filter(|x| x.0 == sig).count() < 3 {
            self.viol.push((sig.to_string(), msg, json!({"part": "D", "n": n, "edges_in_insertion_order": edges, "tx_id_of_index": "index+1"})));
        }
    }
}
fn did(i: usize) -> u64 {
    i as u64 + 1
}
fn fill(g: &WaitForGraph, edges: &[(usize, usize)]) {
    for &(w, h) in edges {
        tclock::advance(1);
        g.add_wait(did(w), did(h), Some(((w * 5 + 3) % 7) as u32));
    }
}
/// one graph in one insertion order
fn check_detector_case(n: usize, edges: &[(usize, usize)], out: &mut DOut) {
    tclock::reset();
    let rg = RefG::new(n, edges);
    let cyclic = rg.cyclic();
    out.cases += 1;
    out.add_waits += edges.len() as u64 * 5;
    if cyclic {
        out.cyclic += 1;
    } else {
        out.acyclic += 1;
    }
    let to_idx = |c: &[u64]| -> Vec<usize> { c.iter().map(|t| (*t as usize).wrapping_sub(1)).collect() };
    let g = WaitForGraph::new();
    fill(&g, edges);
    // the recorded relation is the given one
    for a in 0..n {
        for b in 0..n {
            let f = g.waiting_for(did(a)).contains(&did(b));
            let r = g.waiting_on(did(b)).contains(&did(a));
            if f != rg.edge(a, b) || r != rg.edge(a, b) {
                out.bad("c12:graph:recorded-edges-differ-from-add_wait-calls", format!("edge {}->{}: added={} waiting_for={f} waiting_on={r}", did(a), did(b), rg.edge(a, b)), n, edges);
            }
        }
    }
    let cycles = g.detect_cycles();
    out.evals += 1;
    out.cycles_reported += cycles.len() as u64;
    if cycles.is_empty() == cyclic {
        out.bad(if cyclic { "c12:detector:detect_cycles-misses-cycle" } else { "c12:detector:detect_cycles-reports-cycle-in-acyclic-graph" }, format!("reference cyclic={cyclic}, detect_cycles() = {cycles:?}"), n, edges);
    }
    for c in &cycles {
        if !rg.is_cycle(&to_idx(c)) {
            out.bad("c12:detector:reported-cycle-not-a-cycle", format!("detect_cycles() reports {c:?}"), n, edges);
        }
    }
    for w in 0..n {
        for h in 0..n {
            if w == h {
                continue;
            }
            out.evals += 1;
            // adding w->h closes a cycle iff w is reachable from h (or h == w)
            let want = rg.reach[h] >> w & 1 == 1;
            let want = if selftest() && w == 0 { !want } else { want };
            let got = g.would_create_cycle(did(w), did(h));
            if got != want {
                out.bad("c12:detector:would_create_cycle-disagrees-with-reachability", format!("would_create_cycle({}, {}) = {got}, reference {want}", did(w), did(h)), n, edges);
            }
        }
    }
    for (pi, p) in POLICIES.iter().enumerate() {
        let mut det = DeadlockDetector::new(DeadlockDetectorConfig::default().with_policy(*p));
        if *p == VictimSelectionPolicy::MostLocks {
            det.set_lock_count_fn(|tx| ((tx * 3) % 5) as usize);
        }
        fill(det.graph(), edges);
        let infos = det.detect();
        out.evals += 1;
        if infos.is_empty() == cyclic {
            out.bad(if cyclic { "c12:detector:detect-misses-deadlock" } else { "c12:detector:detect-reports-deadlock-in-acyclic-graph" }, format!("policy {p:?}: reference cyclic={cyclic}, detect() returned {} deadlocks", infos.len()), n, edges);
        }
        for i in &infos {
            if !rg.is_cycle(&to_idx(&i.cycle)) {
                out.bad("c12:detector:reported-cycle-not-a-cycle", format!("policy {p:?}: detect() reports cycle {:?}", i.cycle), n, edges);
            }
            if !i.cycle.contains(&i.victim_tx_id) {
                out.bad("c12:detector:victim-outside-its-cycle", format!("policy {p:?}: victim {} not in cycle {:?}", i.victim_tx_id, i.cycle), n, edges);
            }
            if i.cycle.len() > 1 {
                out.distinct_victims.insert((pi as u8, i.victim_tx_id));
            }
        }
    }
}
fn pairs(n: usize) -> Vec<(usize, usize)> {
    let mut v = vec![];
    for a in 0..n {
        for b in 0..n {
            if a != b {
                v.push((a, b));
            }
        }
    }
    v
}
fn both_orders(n: usize, edges: &[(usize, usize)], out: &mut DOut) {
    check_detector_case(n, edges, out);
    let rev: Vec<_> = edges.iter().rev().copied().collect();
    check_detector_case(n, &rev, out);
}
/// every digraph without self-loops on exactly the index set 0..n (isolated nodes simply do not appear)
fn part_d_exhaustive(n: usize) -> DOut {
    let ps = pairs(n);
    let total: u64 = 1 << ps.len();
    (0..total)
        .into_par_iter()
        .fold(DOut::default, |mut out, mask| {
            let edges: Vec<(usize, usize)> = ps.iter().enumerate().filter(|(i, _)| mask >> i & 1 == 1).map(|(_, e)| *e).collect();
            both_orders(n, &edges, &mut out);
            out
        })
        .reduce(DOut::default, DOut::merge)
}
/// 6-8 transactions: ring / open path / two disjoint rings, each alone and with every single chord
fn part_d_large() -> DOut {
    let mut cases: Vec<(usize, Vec<(usize, usize)>)> = vec![];
    for n in 6..=8usize {
        let ring: Vec<(usize, usize)> = (0..n).map(|i| (i, (i + 1) % n)).collect();
        let path: Vec<(usize, usize)> = ring[..n - 1].to_vec();
        let half = n / 2;
        let mut two: Vec<(usize, usize)> = (0..half).map(|i| (i, (i + 1) % half)).collect();
        two.extend((half..n).map(|i| (i, if i + 1 == n { half } else { i + 1 })));
        for base in [ring, path, two] {
            cases.push((n, base.clone()));
            for c in pairs(n) {
                if !base.contains(&c) {
                    let mut e = base.clone();
                    e.push(c);
                    cases.push((n, e));
                }
            }
        }
    }
    cases
        .par_iter()
        .fold(DOut::default, |mut out, (n, e)| {
            both_orders(*n, e, &mut out);
            out
        })
        .reduce(DOut::default, DOut::merge)
}
