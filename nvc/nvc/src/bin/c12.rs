//! C12 — 2PC key locks: one holder at a time, none left behind, deadlocks detected (DESIGN §4, C12).
//! Part D (E4): every wait-for graph on <= 5 transactions (+ rings with single chords on 6-8), built
//!         through the real `add_wait` in two insertion orders: `detect_cycles`, `would_create_cycle`,
//!         `DeadlockDetector::detect` (4 victim policies) against a transitive-closure reference.
//! Part G (E4): every sequence of wait-for-graph mutations (`add_wait`, `remove_wait`,
//!         `remove_transaction`, `clear`, `cleanup_stale_edges`, clock) on the graph of a real
//!         `DeadlockDetector` (replay BFS, dedup on the observed state) against an edge set.
//! Part S (E4): every sequence of lock / release / expire / serialize-restore / wait-graph operations
//!         on a real `LockManager` + `WaitForGraph` (replay BFS, dedup on the real observed state)
//!         against a sequential lock table.
//! Part K (E4): every sequence of coordinator operations (prepare, vote delivery, commit, abort,
//!         timeout sweep, orphan sweep) on a real `DistributedTxCoordinator`.
//! Part W (E4/fault enumeration): the sequences of part K on a coordinator with a real, size-capped
//!         `TxWal`; every WAL append of every operation fails in turn (cap aligned record by record).
//! Part T (E1): 2-3 real threads under vsched, every schedule with <= bound preemptions:
//!         LockManager level = linearizability against the sequential lock table; coordinator level =
//!         quiescent "finished transactions left nothing behind" + exclusivity + no deadlock.
use nvc::{env, par, Report};
use rayon::prelude::*;
use serde::{Deserialize, Serialize};
use serde_json::{json, Value};
use std::collections::{BTreeMap, BTreeSet, HashSet};
use std::sync::atomic::{AtomicBool, Ordering};
use std::sync::{Arc, Mutex};
use std::time::Duration;
use tensor_chain::{
    ConsensusConfig, ConsensusManager, DeadlockDetector, DeadlockDetectorConfig, DistributedTxConfig, DistributedTxCoordinator, LockManager, PrepareRequest, PrepareVote, SerializableLockState,
    Transaction, TxPhase, TxWal, TxWalEntry, VictimSelectionPolicy, WaitForGraph,
};
use tensor_chain::raft_wal::WalConfig;
use tensor_store::SparseVector;
use vsched::{Body, ExploreCfg, RunResult, Verdict};

type Viol = (String, String, Value);

/// `--selftest`: the reference oracles are deliberately corrupted; every part must then alarm.
static SELFTEST: AtomicBool = AtomicBool::new(false);
fn selftest() -> bool {
    SELFTEST.load(Ordering::Relaxed)
}

/// per-thread virtual time of envshim (the sequential parts replay in parallel on rayon threads)
mod tclock {
    use std::ffi::{c_void, CString};
    fn sym(name: &str) -> *mut c_void {
        let c = CString::new(name).unwrap();
        let p = unsafe { libc::dlsym(libc::RTLD_DEFAULT, c.as_ptr()) };
        if p.is_null() {
            eprintln!("MACHINERY envshim symbol {name} missing");
            std::process::exit(2);
        }
        p
    }
    pub fn reset() {
        let f: extern "C" fn() = unsafe { std::mem::transmute(sym("verifenv_clock_thread_reset")) };
        f()
    }
    pub fn advance(ms: i64) {
        let f: extern "C" fn(i64) = unsafe { std::mem::transmute(sym("verifenv_clock_thread_advance_ms")) };
        f(ms)
    }
}
const BASE_S: i64 = 1_700_000_000;
const BASE_MS: u64 = 1_700_000_000_000;

// ------------------------------------------------------------------------------------------------
// shared: reference digraph on small index sets, observation of a real WaitForGraph
// ------------------------------------------------------------------------------------------------
#[derive(Clone, Debug)]
struct RefG {
    n: usize,
    adj: [u16; 16],
    reach: [u16; 16],
}
impl RefG {
    fn new(n: usize, edges: &[(usize, usize)]) -> RefG {
        let mut adj = [0u16; 16];
        for &(a, b) in edges {
            adj[a] |= 1 << b;
        }
        // reach[i] = nodes reachable from i by a path of length >= 1
        let mut reach = adj;
        loop {
            let mut changed = false;
            for i in 0..n {
                let mut r = reach[i];
                for j in 0..n {
                    if reach[i] >> j & 1 == 1 {
                        r |= reach[j];
                    }
                }
                if r != reach[i] {
                    reach[i] = r;
                    changed = true;
                }
            }
            if !changed {
                break;
            }
        }
        RefG { n, adj, reach }
    }
    fn cyclic(&self) -> bool {
        // selftest corruption: cycles through node 0 are "forgotten"
        let from = usize::from(selftest());
        (from..self.n).any(|i| self.reach[i] >> i & 1 == 1 && !(selftest() && self.reach[i] & 1 == 1 && self.reach[0] >> i & 1 == 1))
    }
    fn edge(&self, a: usize, b: usize) -> bool {
        self.adj[a] >> b & 1 == 1
    }
    /// is `cyc` (indices) a directed cycle of this graph?
    fn is_cycle(&self, cyc: &[usize]) -> bool {
        if cyc.len() < 2 || cyc.iter().collect::<BTreeSet<_>>().len() != cyc.len() || cyc.iter().any(|&c| c >= self.n) {
            return false;
        }
        (0..cyc.len()).all(|k| self.edge(cyc[k], cyc[(k + 1) % cyc.len()]))
    }
}

/// What the real graph records, seen through its public API, for the given transactions.
fn observed_edges(g: &WaitForGraph, txs: &[u64]) -> (BTreeSet<(u64, u64)>, BTreeSet<(u64, u64)>) {
    let mut fwd = BTreeSet::new();
    let mut rev = BTreeSet::new();
    for &t in txs {
        for h in g.waiting_for(t) {
            fwd.insert((t, h));
        }
        for w in g.waiting_on(t) {
            rev.insert((w, t));
        }
    }
    (fwd, rev)
}

/// mirror of edges / reverse_edges, and detect_cycles() <=> the recorded edges contain a cycle
fn check_graph_obs(g: &WaitForGraph, txs: &[u64]) -> Result<BTreeSet<(u64, u64)>, (String, String)> {
    check_graph_obs_except(g, txs, &[])
}
/// `exempt`: transactions whose edges are not compared between the two indexes (a prepare that
/// overlaps the finish of its own transaction is outside the statement)
fn check_graph_obs_except(g: &WaitForGraph, txs: &[u64], exempt: &[u64]) -> Result<BTreeSet<(u64, u64)>, (String, String)> {
    let (fwd, rev) = observed_edges(g, txs);
    let strip = |s: &BTreeSet<(u64, u64)>| -> BTreeSet<(u64, u64)> { s.iter().filter(|(a, b)| !exempt.contains(a) && !exempt.contains(b)).copied().collect() };
    if strip(&fwd) != strip(&rev) {
        return Err(("c12:graph:edges-and-reverse-edges-differ".into(), format!("waiting_for says {fwd:?}, waiting_on says {rev:?}")));
    }
    let idx = |t: u64| txs.iter().position(|x| *x == t);
    let mut es = vec![];
    for (a, b) in &fwd {
        match (idx(*a), idx(*b)) {
            (Some(a), Some(b)) => es.push((a, b)),
            _ => return Err(("c12:graph:edge-to-unknown-transaction".into(), format!("edge {a}->{b} names a transaction that never existed"))),
        }
    }
    let rg = RefG::new(txs.len(), &es);
    let cycles = g.detect_cycles();
    if cycles.is_empty() == rg.cyclic() {
        return Err(("c12:detector:detect_cycles-disagrees-with-recorded-edges".into(), format!("recorded edges {fwd:?} cyclic={} but detect_cycles() = {cycles:?}", rg.cyclic())));
    }
    for c in &cycles {
        let ci: Option<Vec<usize>> = c.iter().map(|t| idx(*t)).collect();
        if !ci.is_some_and(|ci| rg.is_cycle(&ci)) {
            return Err(("c12:detector:reported-cycle-not-a-cycle".into(), format!("detect_cycles() reports {c:?}, which is not a directed cycle of {fwd:?}")));
        }
    }
    Ok(fwd)
}

// ------------------------------------------------------------------------------------------------
// Part D — the detector on every small wait-for graph
// ------------------------------------------------------------------------------------------------
const POLICIES: [VictimSelectionPolicy; 4] = [VictimSelectionPolicy::Youngest, VictimSelectionPolicy::Oldest, VictimSelectionPolicy::LowestPriority, VictimSelectionPolicy::MostLocks];

#[derive(Default)]
struct DOut {
    cases: u64,
    cyclic: u64,
    acyclic: u64,
    evals: u64,
    add_waits: u64,
    distinct_victims: BTreeSet<(u8, u64)>,
    viol: Vec<Viol>,
    viol_total: u64,
}
impl DOut {
    fn merge(mut self, o: DOut) -> DOut {
        self.cases += o.cases;
        self.cyclic += o.cyclic;
        self.acyclic += o.acyclic;
        self.evals += o.evals;
        self.add_waits += o.add_waits;
        self.distinct_victims.extend(o.distinct_victims);
        self.viol_total += o.viol_total;
        for v in o.viol {
            if self.viol.iter().filter(|x| x.0 == v.0).count() < 3 {
                self.viol.push(v);
            }
        }
        self
    }
    fn bad(&mut self, sig: &str, msg: String, n: usize, edges: &[(usize, usize)]) {
        self.viol_total += 1;
        if self.viol.iter().filter(|x| x.0 == sig).count() < 3 {
            self.viol.push((sig.to_string(), msg, json!({"part": "D", "n": n, "edges_in_insertion_order": edges, "tx_id_of_index": "index+1"})));
        }
    }
}
fn did(i: usize) -> u64 {
    i as u64 + 1
}
fn fill(g: &WaitForGraph, edges: &[(usize, usize)]) {
    for &(w, h) in edges {
        tclock::advance(1);
        g.add_wait(did(w), did(h), Some(((w * 5 + 3) % 7) as u32));
    }
}
/// one graph in one insertion order
fn check_detector_case(n: usize, edges: &[(usize, usize)], out: &mut DOut) {
    tclock::reset();
    let rg = RefG::new(n, edges);
    let cyclic = rg.cyclic();
    out.cases += 1;
    out.add_waits += edges.len() as u64 * 5;
    if cyclic {
        out.cyclic += 1;
    } else {
        out.acyclic += 1;
    }
    let to_idx = |c: &[u64]| -> Vec<usize> { c.iter().map(|t| (*t as usize).wrapping_sub(1)).collect() };
    let g = WaitForGraph::new();
    fill(&g, edges);
    // the recorded relation is the given one
    for a in 0..n {
        for b in 0..n {
            let f = g.waiting_for(did(a)).contains(&did(b));
            let r = g.waiting_on(did(b)).contains(&did(a));
            if f != rg.edge(a, b) || r != rg.edge(a, b) {
                out.bad("c12:graph:recorded-edges-differ-from-add_wait-calls", format!("edge {}->{}: added={} waiting_for={f} waiting_on={r}", did(a), did(b), rg.edge(a, b)), n, edges);
            }
        }
    }
    let cycles = g.detect_cycles();
    out.evals += 1;
    if cycles.is_empty() == cyclic {
        out.bad(if cyclic { "c12:detector:detect_cycles-misses-cycle" } else { "c12:detector:detect_cycles-reports-cycle-in-acyclic-graph" }, format!("reference cyclic={cyclic}, detect_cycles() = {cycles:?}"), n, edges);
    }
    for c in &cycles {
        if !rg.is_cycle(&to_idx(c)) {
            out.bad("c12:detector:reported-cycle-not-a-cycle", format!("detect_cycles() reports {c:?}"), n, edges);
        }
    }
    for w in 0..n {
        for h in 0..n {
            if w == h {
                continue;
            }
            out.evals += 1;
            // adding w->h closes a cycle iff w is reachable from h (or h == w)
            let want = rg.reach[h] >> w & 1 == 1;
            let want = if selftest() && w == 0 { !want } else { want };
            let got = g.would_create_cycle(did(w), did(h));
            if got != want {
                out.bad("c12:detector:would_create_cycle-disagrees-with-reachability", format!("would_create_cycle({}, {}) = {got}, reference {want}", did(w), did(h)), n, edges);
            }
        }
    }
    for (pi, p) in POLICIES.iter().enumerate() {
        let mut det = DeadlockDetector::new(DeadlockDetectorConfig::default().with_policy(*p));
        if *p == VictimSelectionPolicy::MostLocks {
            det.set_lock_count_fn(|tx| ((tx * 3) % 5) as usize);
        }
        fill(det.graph(), edges);
        let infos = det.detect();
        out.evals += 1;
        if infos.is_empty() == cyclic {
            out.bad(if cyclic { "c12:detector:detect-misses-deadlock" } else { "c12:detector:detect-reports-deadlock-in-acyclic-graph" }, format!("policy {p:?}: reference cyclic={cyclic}, detect() returned {} deadlocks", infos.len()), n, edges);
        }
        for i in &infos {
            if !rg.is_cycle(&to_idx(&i.cycle)) {
                out.bad("c12:detector:reported-cycle-not-a-cycle", format!("policy {p:?}: detect() reports cycle {:?}", i.cycle), n, edges);
            }
            if !i.cycle.contains(&i.victim_tx_id) {
                out.bad("c12:detector:victim-outside-its-cycle", format!("policy {p:?}: victim {} not in cycle {:?}", i.victim_tx_id, i.cycle), n, edges);
            }
            if i.cycle.len() > 1 {
                out.distinct_victims.insert((pi as u8, i.victim_tx_id));
            }
        }
    }
}
fn pairs(n: usize) -> Vec<(usize, usize)> {
    let mut v = vec![];
    for a in 0..n {
        for b in 0..n {
            if a != b {
                v.push((a, b));
            }
        }
    }
    v
}
fn both_orders(n: usize, edges: &[(usize, usize)], out: &mut DOut) {
    check_detector_case(n, edges, out);
    let rev: Vec<_> = edges.iter().rev().copied().collect();
    check_detector_case(n, &rev, out);
}
/// every digraph without self-loops on exactly the index set 0..n (isolated nodes simply do not appear)
fn part_d_exhaustive(n: usize, max_edges: u32) -> DOut {
    let ps = pairs(n);
    let total: u64 = 1 << ps.len();
    (0..total)
        .into_par_iter()
        .filter(|mask| mask.count_ones() <= max_edges)
        .fold(DOut::default, |mut out, mask| {
            let edges: Vec<(usize, usize)> = ps.iter().enumerate().filter(|(i, _)| mask >> i & 1 == 1).map(|(_, e)| *e).collect();
            both_orders(n, &edges, &mut out);
            out
        })
        .reduce(DOut::default, DOut::merge)
}
/// 6-8 transactions: ring / open path / two disjoint rings, each alone and with every single chord
fn part_d_large() -> DOut {
    let mut cases: Vec<(usize, Vec<(usize, usize)>)> = vec![];
    for n in 6..=8usize {
        let ring: Vec<(usize, usize)> = (0..n).map(|i| (i, (i + 1) % n)).collect();
        let path: Vec<(usize, usize)> = ring[..n - 1].to_vec();
        let half = n / 2;
        let mut two: Vec<(usize, usize)> = (0..half).map(|i| (i, (i + 1) % half)).collect();
        two.extend((half..n).map(|i| (i, if i + 1 == n { half } else { i + 1 })));
        for base in [ring, path, two] {
            cases.push((n, base.clone()));
            for c in pairs(n) {
                if !base.contains(&c) {
                    let mut e = base.clone();
                    e.push(c);
                    cases.push((n, e));
                }
            }
        }
    }
    cases
        .par_iter()
        .fold(DOut::default, |mut out, (n, e)| {
            both_orders(*n, e, &mut out);
            out
        })
        .reduce(DOut::default, DOut::merge)
}

// ------------------------------------------------------------------------------------------------
// Part G — every sequence of wait-for-graph mutations, against the set of recorded edges
// ------------------------------------------------------------------------------------------------
/// the real graph records exactly `want`: forward index, reverse index and edge_count
fn compare_edges(g: &WaitForGraph, txs: &[u64], want: &BTreeSet<(u64, u64)>, after: &str) -> Result<(), (String, String)> {
    let (fwd, rev) = observed_edges(g, txs);
    if fwd != *want {
        return Err((format!("c12:graph:after-{after}:waiting_for-differs-from-recorded-edges"), format!("the calls so far record {want:?}; waiting_for says {fwd:?}")));
    }
    if rev != *want {
        return Err((format!("c12:graph:after-{after}:waiting_on-differs-from-recorded-edges"), format!("the calls so far record {want:?}; waiting_on says {rev:?} (remove_transaction of a holder finds its waiters through this index)")));
    }
    if g.edge_count() != want.len() {
        return Err((format!("c12:graph:after-{after}:edge_count-differs-from-recorded-edges"), format!("the calls so far record {} edges {want:?}; edge_count() = {}", want.len(), g.edge_count())));
    }
    Ok(())
}
const G_TTL_MS: u64 = 1000;
#[derive(Clone, Debug, PartialEq, Eq, Hash, Serialize, Deserialize)]
enum GOp {
    /// add_wait(waiter, holder, Some(priority)) one millisecond later; waiter == holder must be ignored
    Add(u8, u8),
    /// remove_wait(waiter, holder)
    RemoveWait(u8, u8),
    /// remove_transaction(tx)
    RemoveTx(u8),
    Clear,
    /// clock + 600 ms
    Advance,
    /// cleanup_stale_edges(1000)
    CleanupStale,
}
fn g_alphabet(n: usize) -> Vec<GOp> {
    let mut v = vec![];
    for (w, h) in pairs(n) {
        v.push(GOp::Add(w as u8, h as u8));
    }
    for (w, h) in pairs(n) {
        v.push(GOp::RemoveWait(w as u8, h as u8));
    }
    for t in 0..n {
        v.push(GOp::RemoveTx(t as u8));
    }
    v.extend([GOp::Clear, GOp::Advance, GOp::CleanupStale]);
    for t in 0..n {
        v.push(GOp::Add(t as u8, t as u8));
    }
    v
}
struct GState {
    /// one detector per victim policy, all driven with the same calls
    dets: Vec<DeadlockDetector>,
    n: usize,
    max_edges: usize,
    /// reference: the recorded wait-for relation
    e: BTreeSet<(u64, u64)>,
    now: u64,
}
fn g_fresh(n: usize, max_edges: usize) -> GState {
    tclock::reset();
    let dets = POLICIES
        .iter()
        .map(|p| {
            let mut det = DeadlockDetector::new(DeadlockDetectorConfig::default().with_policy(*p).with_max_edges_per_tx(max_edges));
            if *p == VictimSelectionPolicy::MostLocks {
                det.set_lock_count_fn(|tx| ((tx * 3) % 5) as usize);
            }
            det
        })
        .collect();
    GState { dets, n, max_edges, e: BTreeSet::new(), now: 0 }
}
fn g_stale(g: &WaitForGraph, txs: &[u64], now: u64) -> Vec<u64> {
    txs.iter().copied().filter(|t| g.get_wait_start(*t).is_some_and(|s| (BASE_MS + now).saturating_sub(s) > G_TTL_MS)).collect()
}
fn g_apply(st: &mut GState, op: &GOp) -> Result<(), (String, String)> {
    let txs: Vec<u64> = (0..st.n).map(did).collect();
    let name = match op {
        GOp::Add(w, h) => {
            tclock::advance(1);
            st.now += 1;
            let (w, h) = (did(*w as usize), did(*h as usize));
            for d in &st.dets {
                d.graph().add_wait(w, h, Some(((w * 5 + 3) % 7) as u32));
            }
            // documented: a self-wait is invalid; beyond max_edges_per_tx the new edge is dropped
            if w != h && st.e.iter().filter(|e| e.0 == w).count() < st.max_edges {
                st.e.insert((w, h));
            }
            if w == h {
                "add_wait(self)"
            } else {
                "add_wait"
            }
        }
        GOp::RemoveWait(w, h) => {
            let (w, h) = (did(*w as usize), did(*h as usize));
            for d in &st.dets {
                d.graph().remove_wait(w, h);
            }
            st.e.remove(&(w, h));
            "remove_wait"
        }
        GOp::RemoveTx(t) => {
            let t = did(*t as usize);
            for d in &st.dets {
                d.graph().remove_transaction(t);
            }
            st.e.retain(|e| e.0 != t && e.1 != t);
            "remove_transaction"
        }
        GOp::Clear => {
            for d in &st.dets {
                d.graph().clear();
            }
            st.e.clear();
            "clear"
        }
        GOp::Advance => {
            tclock::advance(STEP_MS);
            st.now += STEP_MS as u64;
            "clock"
        }
        GOp::CleanupStale => {
            // stale = wait start (as the graph itself reports it) older than the TTL; never on the boundary
            let stale = g_stale(st.dets[0].graph(), &txs, st.now);
            for d in &st.dets {
                d.graph().cleanup_stale_edges(G_TTL_MS);
            }
            st.e.retain(|e| !stale.contains(&e.0) && !stale.contains(&e.1));
            "cleanup_stale_edges"
        }
    };
    for d in &st.dets {
        compare_edges(d.graph(), &txs, &st.e, name)?;
    }
    let idx = |t: u64| (t - 1) as usize;
    let es: Vec<(usize, usize)> = st.e.iter().map(|(a, b)| (idx(*a), idx(*b))).collect();
    let rg = RefG::new(st.n, &es);
    let cyclic = rg.cyclic();
    let to_idx = |c: &[u64]| -> Vec<usize> { c.iter().map(|t| (*t as usize).wrapping_sub(1)).collect() };
    let g = st.dets[0].graph();
    let cycles = g.detect_cycles();
    if cycles.is_empty() == cyclic {
        return Err((if cyclic { "c12:detector:detect_cycles-misses-cycle" } else { "c12:detector:detect_cycles-reports-cycle-in-acyclic-graph" }.into(), format!("recorded edges {:?}: reference cyclic={cyclic}, detect_cycles() = {cycles:?}", st.e)));
    }
    for c in &cycles {
        if !rg.is_cycle(&to_idx(c)) {
            return Err(("c12:detector:reported-cycle-not-a-cycle".into(), format!("recorded edges {:?}: detect_cycles() reports {c:?}", st.e)));
        }
    }
    for (w, h) in pairs(st.n) {
        let want = rg.reach[h] >> w & 1 == 1;
        let want = if selftest() && w == 0 { !want } else { want };
        let got = g.would_create_cycle(did(w), did(h));
        if got != want {
            return Err(("c12:detector:would_create_cycle-disagrees-with-reachability".into(), format!("recorded edges {:?}: would_create_cycle({}, {}) = {got}, reference {want}", st.e, did(w), did(h))));
        }
    }
    for (p, det) in POLICIES.iter().zip(&st.dets) {
        let infos = det.detect();
        if infos.is_empty() == cyclic {
            return Err((if cyclic { "c12:detector:detect-misses-deadlock" } else { "c12:detector:detect-reports-deadlock-in-acyclic-graph" }.into(), format!("policy {p:?}, recorded edges {:?}: reference cyclic={cyclic}, detect() returned {} deadlocks", st.e, infos.len())));
        }
        for i in &infos {
            if !rg.is_cycle(&to_idx(&i.cycle)) {
                return Err(("c12:detector:reported-cycle-not-a-cycle".into(), format!("policy {p:?}, recorded edges {:?}: detect() reports cycle {:?}", st.e, i.cycle)));
            }
            let direct = det.select_victim(&i.cycle);
            if !i.cycle.contains(&i.victim_tx_id) || !i.cycle.contains(&direct) {
                return Err(("c12:detector:victim-outside-its-cycle".into(), format!("policy {p:?}: victim {} (select_victim: {direct}) not in cycle {:?}", i.victim_tx_id, i.cycle)));
            }
        }
    }
    Ok(())
}
/// everything the public API shows of the graph, times as age in clock steps and as an order
fn g_canon(st: &GState) -> String {
    let g = st.dets[0].graph();
    let txs: Vec<u64> = (0..st.n).map(did).collect();
    let (f, r) = observed_edges(g, &txs);
    let starts: Vec<Option<u64>> = txs.iter().map(|t| g.get_wait_start(*t)).collect();
    let age: Vec<Option<u64>> = starts.iter().map(|s| s.map(|s| ((BASE_MS + st.now).saturating_sub(s) / STEP_MS as u64).min(2))).collect();
    let rank: Vec<usize> = starts.iter().map(|s| starts.iter().filter(|o| o.is_some() && **o < *s).count()).collect();
    let prio: Vec<Option<u32>> = txs.iter().map(|t| g.get_priority(*t)).collect();
    format!("{f:?}|{r:?}|{age:?}|{rank:?}|{prio:?}|{}|{}|{}", g.is_empty(), g.transaction_count(), g.edge_count())
}
#[derive(Default)]
struct GOut {
    states: u64,
    cyclic_states: u64,
    transitions: u64,
    by_call: BTreeMap<String, u64>,
    edges_dropped_by_calls: u64,
    per_level: Vec<u64>,
    violations: Vec<Viol>,
    viol_total: u64,
    deepest: Vec<GOp>,
}
fn g_replay(n: usize, max_edges: usize, hist: &[GOp]) -> (GState, Result<(), (String, String)>) {
    let mut st = g_fresh(n, max_edges);
    for op in hist {
        if let Err(e) = g_apply(&mut st, op) {
            return (st, Err(e));
        }
    }
    (st, Ok(()))
}
fn g_op_name(op: &GOp) -> &'static str {
    match op {
        GOp::Add(w, h) if w == h => "add_wait(self)",
        GOp::Add(..) => "add_wait",
        GOp::RemoveWait(..) => "remove_wait",
        GOp::RemoveTx(_) => "remove_transaction",
        GOp::Clear => "clear",
        GOp::Advance => "clock",
        GOp::CleanupStale => "cleanup_stale_edges",
    }
}
fn part_g(n: usize, max_edges: usize, depth: usize) -> GOut {
    let alpha = g_alphabet(n);
    let mut seen: HashSet<String> = HashSet::new();
    seen.insert(g_canon(&g_fresh(n, max_edges)));
    let mut frontier: Vec<Vec<GOp>> = vec![vec![]];
    let mut out = GOut { states: 1, ..Default::default() };
    for _ in 0..depth {
        // (history, canonical state, verdict, edges before, edges after, cyclic)
        type R = (Vec<GOp>, String, Option<(String, String)>, usize, usize, bool);
        let results: Vec<R> = frontier
            .par_iter()
            .flat_map_iter(|hist| {
                let mut v: Vec<R> = vec![];
                for op in &alpha {
                    let (mut st, r) = g_replay(n, max_edges, hist);
                    if let Err((sig, msg)) = r {
                        // a history that passed when it was first run fails when it is replayed: the verdict
                        // depends on something outside the history (map iteration order); it is a verdict all the same
                        v.push((hist.clone(), String::new(), Some((sig, format!("{msg} (only when the history is replayed; it passed when first run)"))), 0, 0, false));
                        break;
                    }
                    let before = st.e.len();
                    let r = g_apply(&mut st, op);
                    let mut h2 = hist.clone();
                    h2.push(op.clone());
                    match r {
                        Ok(()) => {
                            let cyc = !st.dets[0].graph().detect_cycles().is_empty();
                            v.push((h2, g_canon(&st), None, before, st.e.len(), cyc));
                        }
                        Err(e) => v.push((h2, String::new(), Some(e), 0, 0, false)),
                    }
                }
                v
            })
            .collect();
        let mut next = vec![];
        for (hist, key, verdict, before, after, cyc) in results {
            out.transitions += 1;
            *out.by_call.entry(g_op_name(hist.last().expect("non-empty")).to_string()).or_default() += 1;
            if let Some((sig, msg)) = verdict {
                out.viol_total += 1;
                if out.violations.iter().filter(|x| x.0 == sig).count() < 3 {
                    out.violations.push((sig, format!("after {hist:?}: {msg}"), json!({"part": "G", "n": n, "max_edges_per_tx": max_edges, "ops": hist, "tx_id_of_index": "index+1"})));
                }
                continue;
            }
            out.edges_dropped_by_calls += before.saturating_sub(after) as u64;
            if seen.insert(key) {
                out.states += 1;
                out.cyclic_states += u64::from(cyc);
                out.deepest = hist.clone();
                next.push(hist);
            }
        }
        out.per_level.push(next.len() as u64);
        frontier = next;
    }
    out
}

// ------------------------------------------------------------------------------------------------
// shared: the sequential lock table (reference for parts S and T)
// ------------------------------------------------------------------------------------------------
const TIMEOUT_MS: u64 = 1000;
const STEP_MS: i64 = 600; // 1 step: still held; 2 steps: expired (never on the boundary)
const KEYS: [&str; 2] = ["a", "b"];
fn keyset(ks: u8) -> Vec<String> {
    let v: &[&str] = match ks {
        0 => &["a"],
        1 => &["b"],
        2 => &["a", "b"],
        _ => &["b", "a"],
    };
    v.iter().map(|s| (*s).to_string()).collect()
}

/// key -> (owner, handle, acquired at [ms, relative]); entries whose age exceeds the timeout do not
/// block anybody. Expired entries that the implementation may or may not still store are never
/// compared.
#[derive(Clone, Debug, Default)]
struct RefTable {
    locks: BTreeMap<String, (u64, u64, u64)>,
    now: u64,
}
impl RefTable {
    fn live(&self, e: &(u64, u64, u64)) -> bool {
        self.now.saturating_sub(e.2) <= TIMEOUT_MS
    }
    fn holder(&self, k: &str) -> Option<(u64, u64)> {
        self.locks.get(k).filter(|e| self.live(e)).map(|e| (e.0, e.1))
    }
    /// (key, holder) for every requested key held by another unexpired transaction, in request order
    fn blockers(&self, tx: u64, keys: &[String]) -> Vec<(String, u64)> {
        keys.iter()
            .filter_map(|k| {
                if selftest() && k == "b" {
                    return None; // corrupted reference: nobody ever holds "b"
                }
                self.holder(k).filter(|h| h.0 != tx).map(|h| (k.clone(), h.0))
            })
            .collect()
    }
    fn grant(&mut self, tx: u64, keys: &[String], handle: u64) {
        for k in keys {
            self.locks.insert(k.clone(), (tx, handle, self.now));
        }
    }
    fn release_tx(&mut self, tx: u64) {
        self.locks.retain(|_, e| e.0 != tx);
    }
    fn release_handle(&mut self, h: u64) -> Option<u64> {
        let tx = self.locks.values().find(|e| e.1 == h).map(|e| e.0);
        self.locks.retain(|_, e| e.1 != h);
        tx
    }
    fn cleanup(&mut self) -> BTreeSet<u64> {
        let now = self.now;
        let dead: BTreeSet<u64> = self.locks.values().filter(|e| now.saturating_sub(e.2) > TIMEOUT_MS).map(|e| e.0).collect();
        self.locks.retain(|_, e| now.saturating_sub(e.2) <= TIMEOUT_MS);
        dead
    }
    fn live_map(&self) -> BTreeMap<String, (u64, u64)> {
        self.locks.iter().filter(|(_, e)| self.live(e)).map(|(k, e)| (k.clone(), (e.0, e.1))).collect()
    }
}

/// Compare the real lock table with the reference (only what the reference defines).
/// Returns the number of stale reverse-index entries seen (information, not a verdict).
fn check_lm_obs(lm: &LockManager, rf: &RefTable, txs: &[u64]) -> Result<u64, (String, String)> {
    let snap = lm.to_serializable();
    let want = rf.live_map();
    let mut live = 0usize;
    for k in KEYS {
        let holder = lm.lock_holder(k);
        let locked = lm.is_locked(k);
        if locked != holder.is_some() {
            return Err(("c12:table:is_locked-disagrees-with-lock_holder".into(), format!("key {k}: is_locked={locked} lock_holder={holder:?}")));
        }
        let w = want.get(k);
        if holder != w.map(|x| x.0) {
            return Err(("c12:table:holder-differs-from-reference".into(), format!("key {k}: lock_holder={holder:?}, sequential lock table says {:?}", w.map(|x| x.0))));
        }
        if let (Some(w), Some(e)) = (w, snap.locks().get(k)) {
            live += 1;
            if e.lock_handle != w.1 || e.tx_id != w.0 {
                return Err(("c12:table:entry-differs-from-reference".into(), format!("key {k}: stored (tx {}, handle {}), reference (tx {}, handle {})", e.tx_id, e.lock_handle, w.0, w.1)));
            }
        }
    }
    if lm.active_lock_count() < live {
        return Err(("c12:table:active_lock_count-below-held-keys".into(), format!("active_lock_count={} but {live} keys are held", lm.active_lock_count())));
    }
    let mut stale = 0;
    for &t in txs {
        let idx: BTreeSet<String> = lm.keys_for_transaction(t).into_iter().collect();
        if lm.lock_count_for_transaction(t) != lm.keys_for_transaction(t).len() {
            return Err(("c12:table:lock_count_for_transaction-disagrees-with-keys_for_transaction".into(), format!("tx {t}: lock_count_for_transaction = {}, keys_for_transaction = {:?}", lm.lock_count_for_transaction(t), lm.keys_for_transaction(t))));
        }
        for (k, (owner, _)) in &want {
            if *owner == t && !idx.contains(k) {
                return Err(("c12:table:tx-index-misses-held-key".into(), format!("tx {t} holds {k} but keys_for_transaction({t}) = {idx:?} (release({t}) would leave it behind)")));
            }
        }
        stale += idx.iter().filter(|k| snap.locks().get(*k).is_none_or(|e| e.tx_id != t)).count() as u64;
    }
    Ok(stale)
}
fn absent_from_graph(g: &WaitForGraph, tx: u64, txs: &[u64]) -> Result<(), (String, String)> {
    if !g.waiting_for(tx).is_empty() {
        return Err(("c12:graph:finished-tx-still-waiter".into(), format!("tx {tx} is done but still waits for {:?}", g.waiting_for(tx))));
    }
    let mut waiters: BTreeSet<u64> = g.waiting_on(tx).into_iter().collect();
    waiters.extend(txs.iter().filter(|x| g.waiting_for(**x).contains(&tx)));
    if !waiters.is_empty() {
        return Err(("c12:graph:finished-tx-still-holder".into(), format!("tx {tx} is done but {waiters:?} still wait for it")));
    }
    Ok(())
}

// ------------------------------------------------------------------------------------------------
// Part S — every lock / release / expire / serialize-restore sequence
// ------------------------------------------------------------------------------------------------
#[derive(Clone, Debug, PartialEq, Eq, Hash, Serialize, Deserialize)]
enum SOp {
    /// try_lock(tx, key set)
    Lock(u8, u8),
    /// try_lock_with_wait_tracking(tx, key set)
    LockWT(u8, u8),
    Release(u8),
    /// release_by_handle(latest (0) / previous (1) handle granted to tx)
    RelH(u8, u8),
    /// release_by_handle_with_wait_cleanup(..)
    RelHWC(u8, u8),
    Cleanup,
    CleanupWC,
    /// clock + 600 ms (lock timeout 1000 ms)
    Advance,
    /// to_serializable -> bitcode -> from_serializable
    SerRestore,
    /// WaitForGraph::add_wait(waiter, holder, None) on the graph shared with the lock manager
    AddWait(u8, u8),
    /// WaitForGraph::remove_wait(waiter, holder)
    RemoveWait(u8, u8),
    /// WaitForGraph::remove_transaction(tx)
    RemoveTx(u8),
    /// WaitForGraph::clear()
    GClear,
    /// WaitForGraph::cleanup_stale_edges(1000)
    GCleanupStale,
}
const STX: [u64; 3] = [1, 2, 3];
/// `graph_calls`: with the direct WaitForGraph calls on the shared graph
fn s_alphabet(graph_calls: bool) -> Vec<SOp> {
    let mut v = vec![];
    for t in 0..3u8 {
        for k in 0..3u8 {
            v.push(SOp::LockWT(t, k));
        }
    }
    for t in 0..3u8 {
        for k in 0..3u8 {
            v.push(SOp::Lock(t, k));
        }
    }
    for t in 0..3u8 {
        v.push(SOp::Release(t));
    }
    for t in 0..3u8 {
        for s in 0..2u8 {
            v.push(SOp::RelHWC(t, s));
            v.push(SOp::RelH(t, s));
        }
    }
    v.extend([SOp::Advance, SOp::CleanupWC, SOp::Cleanup, SOp::SerRestore]);
    if !graph_calls {
        return v;
    }
    for (w, h) in pairs(3) {
        v.push(SOp::RemoveWait(w as u8, h as u8));
    }
    for t in 0..3u8 {
        v.push(SOp::RemoveTx(t));
    }
    for (w, h) in pairs(3) {
        v.push(SOp::AddWait(w as u8, h as u8));
    }
    v.extend([SOp::GCleanupStale, SOp::GClear]);
    v
}
struct SeqState {
    lm: LockManager,
    g: WaitForGraph,
    rf: RefTable,
    handles: [Vec<u64>; 3],
    stale: u64,
    grants: u64,
    refusals: u64,
    expiries: u64,
}
fn s_fresh() -> SeqState {
    tclock::reset();
    SeqState { lm: LockManager::with_default_timeout(Duration::from_millis(TIMEOUT_MS)), g: WaitForGraph::new(), rf: RefTable::default(), handles: Default::default(), stale: 0, grants: 0, refusals: 0, expiries: 0 }
}
fn lm_observation(lm: &LockManager, now: u64) -> String {
    let snap = lm.to_serializable();
    let mut entries: Vec<String> = snap.locks().iter().map(|(k, e)| format!("{k}:{}:{}:{}:{}", e.tx_id, e.lock_handle, (BASE_MS + now).saturating_sub(e.acquired_at_ms), e.timeout_ms)).collect();
    entries.sort();
    let idx: Vec<(u64, Vec<String>)> = STX.iter().map(|t| (*t, lm.keys_for_transaction(*t))).collect();
    format!("{entries:?}|{idx:?}|{}|{:?}", lm.active_lock_count(), lm.default_timeout)
}
/// Ok(false) = operation not enabled in this state
fn s_apply(st: &mut SeqState, op: &SOp) -> Result<bool, (String, String)> {
    let mut finished: Vec<u64> = vec![];
    let mut released_tx: Option<u64> = None;
    let mut released_handle: Option<u64> = None;
    let mut cleaned = false;
    // the pure graph calls: the recorded relation afterwards = set algebra on the one before
    let mut graph_call: Option<(&str, BTreeSet<(u64, u64)>)> = None;
    let edges_before = observed_edges(&st.g, &STX).0;
    match op {
        SOp::AddWait(w, h) => {
            let (w, h) = (STX[*w as usize], STX[*h as usize]);
            st.g.add_wait(w, h, None);
            let mut e = edges_before;
            e.insert((w, h));
            graph_call = Some(("add_wait", e));
        }
        SOp::RemoveWait(w, h) => {
            let (w, h) = (STX[*w as usize], STX[*h as usize]);
            st.g.remove_wait(w, h);
            let mut e = edges_before;
            e.remove(&(w, h));
            graph_call = Some(("remove_wait", e));
        }
        SOp::RemoveTx(t) => {
            let tx = STX[*t as usize];
            st.g.remove_transaction(tx);
            graph_call = Some(("remove_transaction", edges_before.into_iter().filter(|e| e.0 != tx && e.1 != tx).collect()));
            finished.push(tx);
        }
        SOp::GClear => {
            st.g.clear();
            graph_call = Some(("clear", BTreeSet::new()));
        }
        SOp::GCleanupStale => {
            let stale = g_stale(&st.g, &STX, st.rf.now);
            st.g.cleanup_stale_edges(G_TTL_MS);
            graph_call = Some(("cleanup_stale_edges", edges_before.into_iter().filter(|e| !stale.contains(&e.0) && !stale.contains(&e.1)).collect()));
            finished.extend(stale);
        }
        SOp::Lock(t, k) | SOp::LockWT(t, k) => {
            let tx = STX[*t as usize];
            let keys = keyset(*k);
            let bl = st.rf.blockers(tx, &keys);
            let wt = matches!(op, SOp::LockWT(..));
            // (the first transaction passes a priority, the others none)
            let res: Result<u64, (u64, Option<Vec<String>>)> = if wt { st.lm.try_lock_with_wait_tracking(tx, &keys, &st.g, if *t == 0 { Some(1) } else { None }).map_err(|w| (w.blocking_tx_id, Some(w.conflicting_keys))) } else { st.lm.try_lock(tx, &keys).map_err(|h| (h, None)) };
            match res {
                Ok(h) => {
                    if !bl.is_empty() {
                        return Err(("c12:table:granted-while-held".into(), format!("tx {tx} was granted {keys:?} although {bl:?} are held by others")));
                    }
                    st.rf.grant(tx, &keys, h);
                    st.handles[*t as usize].push(h);
                    st.grants += 1;
                    if wt && !st.g.waiting_for(tx).is_empty() {
                        return Err(("c12:graph:granted-tx-still-waiter".into(), format!("tx {tx} got its locks but still waits for {:?}", st.g.waiting_for(tx))));
                    }
                }
                Err((blocker, ck)) => {
                    st.refusals += 1;
                    if bl.is_empty() {
                        return Err(("c12:table:refused-without-holder".into(), format!("tx {tx} was refused {keys:?} (conflict with {blocker}) although no requested key is held by another unexpired transaction")));
                    }
                    if !bl.iter().any(|b| b.1 == blocker) {
                        return Err(("c12:table:conflict-names-wrong-holder".into(), format!("refusal names tx {blocker}; holders of the requested keys are {bl:?}")));
                    }
                    if let Some(ck) = ck {
                        if ck != bl.iter().map(|b| b.0.clone()).collect::<Vec<_>>() {
                            return Err(("c12:table:conflict-names-wrong-keys".into(), format!("conflicting_keys = {ck:?}, held by others: {bl:?}")));
                        }
                    }
                }
            }
        }
        SOp::Release(t) => {
            let tx = STX[*t as usize];
            st.lm.release(tx);
            st.rf.release_tx(tx);
            released_tx = Some(tx);
        }
        SOp::RelH(t, s) | SOp::RelHWC(t, s) => {
            let hs = &st.handles[*t as usize];
            if hs.len() <= *s as usize {
                return Ok(false);
            }
            let h = hs[hs.len() - 1 - *s as usize];
            let found = st.rf.release_handle(h);
            if matches!(op, SOp::RelHWC(..)) {
                st.lm.release_by_handle_with_wait_cleanup(h, &st.g);
                finished.extend(found);
            } else {
                st.lm.release_by_handle(h);
            }
            released_handle = Some(h);
        }
        SOp::Cleanup => {
            st.lm.cleanup_expired();
            st.expiries += st.rf.cleanup().len() as u64;
            cleaned = true;
        }
        SOp::CleanupWC => {
            st.lm.cleanup_expired_with_wait_cleanup(&st.g);
            let dead = st.rf.cleanup();
            st.expiries += dead.len() as u64;
            finished.extend(dead);
            cleaned = true;
        }
        SOp::Advance => {
            tclock::advance(STEP_MS);
            st.rf.now += STEP_MS as u64;
        }
        SOp::SerRestore => {
            let before = lm_observation(&st.lm, st.rf.now);
            let bytes = bitcode::serialize(&st.lm.to_serializable()).map_err(|e| ("c12:table:serialize-fails".to_string(), e.to_string()))?;
            let back: SerializableLockState = bitcode::deserialize(&bytes).map_err(|e| ("c12:table:deserialize-fails".to_string(), e.to_string()))?;
            st.lm = LockManager::from_serializable(back);
            let after = lm_observation(&st.lm, st.rf.now);
            if before != after {
                return Err(("c12:table:serialize-restore-changes-state".into(), format!("before {before} after {after}")));
            }
        }
    }
    st.stale += check_lm_obs(&st.lm, &st.rf, &STX)?;
    let snap = st.lm.to_serializable();
    if let Some(tx) = released_tx {
        if let Some((k, _)) = snap.locks().iter().find(|(_, e)| e.tx_id == tx) {
            return Err(("c12:table:lock-left-behind-by-release".into(), format!("after release({tx}) key {k} is still owned by it")));
        }
        if !st.lm.keys_for_transaction(tx).is_empty() {
            return Err(("c12:table:lock-left-behind-by-release".into(), format!("after release({tx}) keys_for_transaction = {:?}", st.lm.keys_for_transaction(tx))));
        }
    }
    if let Some(h) = released_handle {
        if let Some((k, _)) = snap.locks().iter().find(|(_, e)| e.lock_handle == h) {
            return Err(("c12:table:lock-left-behind-by-release_by_handle".into(), format!("after release_by_handle({h}) key {k} still carries that handle")));
        }
    }
    if cleaned && snap.locks().len() != st.rf.live_map().len() {
        return Err(("c12:table:expired-lock-left-behind-by-cleanup".into(), format!("after cleanup {} entries are stored, {} keys are held", snap.locks().len(), st.rf.live_map().len())));
    }
    if let Some((name, want)) = graph_call {
        compare_edges(&st.g, &STX, &want, name)?;
    }
    check_graph_obs(&st.g, &STX)?;
    for tx in finished {
        absent_from_graph(&st.g, tx, &STX)?;
    }
    Ok(true)
}
/// the real state up to renaming of handles and shifting of time
fn s_canon(st: &SeqState) -> String {
    let snap = st.lm.to_serializable();
    let slot = |h: u64| -> String {
        let mut s = String::new();
        for (t, hs) in st.handles.iter().enumerate() {
            for sl in 0..2 {
                if hs.len() > sl && hs[hs.len() - 1 - sl] == h {
                    s.push_str(&format!("{t}.{sl} "));
                }
            }
        }
        s
    };
    let mut entries: Vec<String> = snap.locks().iter().map(|(k, e)| format!("{k}:{}:{}:{}", e.tx_id, (BASE_MS + st.rf.now).saturating_sub(e.acquired_at_ms).min(2 * STEP_MS as u64), slot(e.lock_handle))).collect();
    entries.sort();
    let idx: Vec<Vec<String>> = STX.iter().map(|t| st.lm.keys_for_transaction(*t)).collect();
    let (f, r) = observed_edges(&st.g, &STX);
    let ws: Vec<Option<u64>> = STX.iter().map(|t| st.g.get_wait_start(*t).map(|s| ((BASE_MS + st.rf.now).saturating_sub(s) / STEP_MS as u64).min(2))).collect();
    let have: Vec<usize> = st.handles.iter().map(|h| h.len().min(2)).collect();
    format!("{entries:?}|{idx:?}|{f:?}|{r:?}|{ws:?}|{have:?}")
}
#[derive(Default)]
struct SeqOut {
    states: u64,
    transitions: u64,
    stale_index_observations: u64,
    grants: u64,
    refusals: u64,
    expiries: u64,
    per_level: Vec<u64>,
    violations: Vec<Viol>,
    viol_total: u64,
    deepest: Vec<SOp>,
}
fn s_replay(hist: &[SOp]) -> (SeqState, Result<bool, (String, String)>) {
    let mut st = s_fresh();
    for op in hist {
        match s_apply(&mut st, op) {
            Ok(true) => {}
            other => return (st, other),
        }
    }
    (st, Ok(true))
}
fn part_s(depth: usize, graph_calls: bool) -> SeqOut {
    let alpha = s_alphabet(graph_calls);
    let mut seen: HashSet<String> = HashSet::new();
    seen.insert(s_canon(&s_fresh()));
    let mut frontier: Vec<Vec<SOp>> = vec![vec![]];
    let mut out = SeqOut { states: 1, ..Default::default() };
    for _ in 0..depth {
        type R = (Vec<SOp>, String, Option<(String, String)>, [u64; 4]);
        // counters: stale index seen in the new state; grants / refusals / expiries caused by the last operation
        let results: Vec<R> = frontier
            .par_iter()
            .flat_map_iter(|hist| {
                let mut v: Vec<R> = vec![];
                for op in &alpha {
                    let (mut st, r) = s_replay(hist);
                    if let Err((sig, msg)) = r {
                        v.push((hist.clone(), String::new(), Some((sig, format!("{msg} (only when the history is replayed; it passed when first run)"))), [0; 4]));
                        break;
                    }
                    assert!(matches!(r, Ok(true)), "frontier history must replay");
                    let before = [st.grants, st.refusals, st.expiries];
                    st.stale = 0;
                    let r = s_apply(&mut st, op);
                    let mut h2 = hist.clone();
                    h2.push(op.clone());
                    match r {
                        Ok(false) => {}
                        Ok(true) => v.push((h2, s_canon(&st), None, [st.stale, st.grants - before[0], st.refusals - before[1], st.expiries - before[2]])),
                        Err(e) => v.push((h2, String::new(), Some(e), [0; 4])),
                    }
                }
                v
            })
            .collect();
        let mut next = vec![];
        for (hist, key, verdict, c) in results {
            out.transitions += 1;
            if let Some((sig, msg)) = verdict {
                out.viol_total += 1;
                if out.violations.iter().filter(|x| x.0 == sig).count() < 3 {
                    out.violations.push((sig, format!("after {hist:?}: {msg}"), json!({"part": "S", "ops": hist})));
                }
                continue;
            }
            out.grants += c[1];
            out.refusals += c[2];
            out.expiries += c[3];
            if seen.insert(key) {
                out.states += 1;
                out.stale_index_observations += u64::from(c[0] > 0);
                out.deepest = hist.clone();
                next.push(hist);
            }
        }
        out.per_level.push(next.len() as u64);
        frontier = next;
    }
    out
}

// ------------------------------------------------------------------------------------------------
// shared: coordinator helpers
// ------------------------------------------------------------------------------------------------
fn new_coordinator() -> DistributedTxCoordinator {
    DistributedTxCoordinator::new(ConsensusManager::new(ConsensusConfig::default()), DistributedTxConfig::default())
}
/// prepare request of transaction `label` for `shard`; every (tx, shard) has its own orthogonal
/// delta so that the semantic (embedding) conflict path never interferes with key locking
fn prepare_request(tx_id: u64, label: u8, shard: u8, ks: u8) -> PrepareRequest {
    let mut dense = vec![0.0f32; 8];
    dense[(label as usize * 2 + shard as usize) % 8] = 1.0;
    PrepareRequest { tx_id, coordinator: "n1".into(), operations: keyset(ks).into_iter().map(|key| Transaction::Put { key, data: vec![1] }).collect(), delta_embedding: SparseVector::from_dense(&dense), timeout_ms: 5000 }
}
#[derive(Clone, Debug, PartialEq, Serialize, Deserialize)]
enum VoteKind {
    Yes(u64),
    Conflict(u64),
    No,
}
fn vote_kind(v: &PrepareVote) -> VoteKind {
    match v {
        PrepareVote::Yes { lock_handle, .. } => VoteKind::Yes(*lock_handle),
        PrepareVote::Conflict { conflicting_tx, .. } => VoteKind::Conflict(*conflicting_tx),
        _ => VoteKind::No,
    }
}
const TX_TIMEOUT_STEP_MS: i64 = 6000; // DistributedTxConfig::default().prepare_timeout_ms = 5000; lock timeout 30 s

// ------------------------------------------------------------------------------------------------
// Part K — every sequence of coordinator operations
// ------------------------------------------------------------------------------------------------
#[derive(Clone, Debug, PartialEq, Eq, Hash, Serialize, Deserialize)]
enum KOp {
    /// handle_prepare(tx, shard, key set); the vote is now "in flight"
    Prep(u8, u8, u8),
    /// deliver the in-flight vote: record_vote
    Vote(u8, u8),
    Commit(u8),
    Abort(u8),
    /// clock + 6 s, cleanup_timeouts()
    Timeout,
    /// release_orphaned_locks(now + 1)
    Orphan,
    /// force_resolve(tx, commit?) — the partition-merge entry point that finishes a transaction
    Force(u8, bool),
    /// complete_commit(tx) — part W only, enabled while the transaction is Committing
    CompleteCommit(u8),
    /// complete_abort(tx) — part W only, enabled while the transaction is Aborting
    CompleteAbort(u8),
}
/// transaction 0 spans shards 0 and 1, transaction 1 only shard 0
const KPARTS: [&[usize]; 2] = [&[0, 1], &[0]];
fn k_alphabet() -> Vec<KOp> {
    let mut v = vec![];
    for (t, parts) in KPARTS.iter().enumerate() {
        for s in *parts {
            for k in 0..3u8 {
                v.push(KOp::Prep(t as u8, *s as u8, k));
            }
        }
    }
    for (t, parts) in KPARTS.iter().enumerate() {
        for s in *parts {
            v.push(KOp::Vote(t as u8, *s as u8));
        }
    }
    for t in 0..2u8 {
        v.push(KOp::Abort(t));
        v.push(KOp::Commit(t));
    }
    v.extend([KOp::Timeout, KOp::Orphan, KOp::Force(0, true), KOp::Force(0, false)]);
    v
}
struct KState {
    co: DistributedTxCoordinator,
    ids: [u64; 2],
    flight: BTreeMap<(u8, u8), PrepareVote>,
    prepared: BTreeSet<(u8, u8)>,
    /// handle -> (tx label, vote recorded by the coordinator?)
    grants: BTreeMap<u64, (u8, bool)>,
    finished: [bool; 2],
    /// reference: key -> label of the unfinished transaction that was granted it
    held: BTreeMap<String, u8>,
    now: u64,
    yes: u64,
    conflicts: u64,
    spurious_refusals: u64,
    finishes: u64,
    /// part W: the coordinator writes a real TxWal (size-capped, no rotation)
    wal: bool,
    /// part W: finishing calls that returned an error (the transaction may stay pending, with its locks)
    failed_finishes: u64,
    /// part W: the last finishing call of each transaction that returned an error
    last_failed: [Option<&'static str>; 2],
}
fn k_fresh() -> KState {
    k_fresh_with(None)
}
/// `wal`: Some((file, size cap in bytes)) = coordinator built `.with_wal(..)`; appends beyond the cap fail
fn k_fresh_with(wal: Option<(&std::path::Path, u64)>) -> KState {
    tclock::reset();
    let mut co = new_coordinator();
    if let Some((path, cap)) = wal {
        let _ = std::fs::remove_file(path);
        let w = TxWal::open_with_config(path, WalConfig { max_size_bytes: cap, auto_rotate: false, pre_check_space: false, ..WalConfig::default() }).expect("open TxWal");
        co = co.with_wal(w);
    }
    let a = co.begin(&"n1".to_string(), KPARTS[0]).expect("begin").tx_id;
    let b = co.begin(&"n1".to_string(), KPARTS[1]).expect("begin").tx_id;
    KState { co, ids: [a, b], flight: BTreeMap::new(), prepared: BTreeSet::new(), grants: BTreeMap::new(), finished: [false; 2], held: BTreeMap::new(), now: 0, yes: 0, conflicts: 0, spurious_refusals: 0, finishes: 0, wal: wal.is_some(), failed_finishes: 0, last_failed: [None; 2] }
}
fn k_finish(st: &mut KState, t: u8) {
    st.finished[t as usize] = true;
    st.finishes += 1;
    st.held.retain(|_, l| *l != t);
}
fn k_op_name(op: &KOp) -> &'static str {
    match op {
        KOp::Prep(..) => "handle_prepare",
        KOp::Vote(..) => "record_vote",
        KOp::Commit(_) => "commit",
        KOp::Abort(_) => "abort",
        KOp::Force(_, true) => "force_resolve(commit)",
        KOp::Force(_, false) => "force_resolve(abort)",
        KOp::Timeout => "cleanup_timeouts",
        KOp::Orphan => "release_orphaned_locks",
        KOp::CompleteCommit(_) => "complete_commit",
        KOp::CompleteAbort(_) => "complete_abort",
    }
}
fn k_apply(st: &mut KState, op: &KOp) -> Result<bool, (String, String)> {
    let label = |st: &KState, id: u64| st.ids.iter().position(|x| *x == id).map_or("?".to_string(), |i| ["A", "B"][i].to_string());
    let mut failed = false;
    match op {
        KOp::Prep(t, s, k) => {
            // (a prepare for a transaction the coordinator does not know is outside the statement)
            if st.finished[*t as usize] || st.prepared.contains(&(*t, *s)) || (st.wal && st.co.get(st.ids[*t as usize]).is_none()) {
                return Ok(false);
            }
            st.prepared.insert((*t, *s));
            let keys = keyset(*k);
            let vote = st.co.handle_prepare(&prepare_request(st.ids[*t as usize], *t, *s, *k));
            let others: Vec<(String, u8)> = keys.iter().filter_map(|key| if selftest() && key == "b" { Some((key.clone(), 9)) } else { st.held.get(key).filter(|l| **l != *t).map(|l| (key.clone(), *l)) }).collect();
            match vote_kind(&vote) {
                VoteKind::Yes(h) => {
                    st.yes += 1;
                    if !others.is_empty() {
                        return Err(("c12:coord:granted-while-held".into(), format!("prepare of {} on {keys:?} voted Yes although {others:?} (key, owner) are held by unfinished transactions", ["A", "B"][*t as usize])));
                    }
                    for key in &keys {
                        st.held.insert(key.clone(), *t);
                    }
                    st.grants.insert(h, (*t, false));
                }
                VoteKind::Conflict(c) => {
                    st.conflicts += 1;
                    if others.is_empty() {
                        st.spurious_refusals += 1;
                    } else if !others.iter().any(|o| st.ids.get(o.1 as usize) == Some(&c)) {
                        return Err(("c12:coord:conflict-names-wrong-holder".into(), format!("Conflict vote names {} but the requested keys are held by {others:?}", label(st, c))));
                    }
                }
                VoteKind::No => {}
            }
            st.flight.insert((*t, *s), vote);
        }
        KOp::Vote(t, s) => {
            let Some(vote) = st.flight.remove(&(*t, *s)) else { return Ok(false) };
            let kind = vote_kind(&vote);
            if st.co.record_vote(st.ids[*t as usize], *s as usize, vote).is_ok() {
                if let VoteKind::Yes(h) = kind {
                    if let Some(g) = st.grants.get_mut(&h) {
                        g.1 = true;
                    }
                }
            }
        }
        KOp::Commit(t) | KOp::Abort(t) | KOp::Force(t, _) | KOp::CompleteCommit(t) | KOp::CompleteAbort(t) => {
            if st.finished[*t as usize] {
                return Ok(false);
            }
            let id = st.ids[*t as usize];
            let phase = st.co.get(id).map(|x| x.phase);
            let res = match op {
                KOp::Commit(_) => st.co.commit(id),
                KOp::Abort(_) => st.co.abort(id, "client abort"),
                KOp::Force(_, commit) => st.co.force_resolve(id, *commit),
                KOp::CompleteCommit(_) if st.wal && phase == Some(TxPhase::Committing) => st.co.complete_commit(id),
                KOp::CompleteAbort(_) if st.wal && phase == Some(TxPhase::Aborting) => st.co.complete_abort(id),
                _ => return Ok(false),
            };
            if res.is_ok() {
                k_finish(st, *t);
            } else {
                // Part W: an attempt that fails on the WAL may leave the transaction pending with its
                // locks (it can be retried) or may have released them: the reference follows the real
                // table for this transaction's keys. What it must not do is checked in k_check: forget
                // the transaction while something is still recorded under its id.
                failed = true;
                st.failed_finishes += 1;
                st.last_failed[*t as usize] = Some(k_op_name(op));
                if st.wal {
                    let (lm, tl) = (st.co.lock_manager(), *t);
                    st.held.retain(|k, l| *l != tl || lm.lock_holder(k) == Some(id));
                }
            }
        }
        KOp::Timeout => {
            if st.now + TX_TIMEOUT_STEP_MS as u64 > 30_000 {
                return Ok(false); // part K stays within the 30 s lock timeout (expiry is part S's job)
            }
            tclock::advance(TX_TIMEOUT_STEP_MS);
            st.now += TX_TIMEOUT_STEP_MS as u64;
            let timed_out = st.co.cleanup_timeouts();
            for t in 0..2u8 {
                if timed_out.contains(&st.ids[t as usize]) && !st.finished[t as usize] {
                    k_finish(st, t);
                }
            }
        }
        KOp::Orphan => {
            st.co.release_orphaned_locks(BASE_MS + st.now + 1);
        }
    }
    k_check(st, &format!("{}{}", if failed { "failed-" } else { "" }, k_op_name(op)))?;
    Ok(true)
}
/// what must hold after every coordinator call (`after` names the call for the signatures)
fn k_check(st: &KState, after: &str) -> Result<(), (String, String)> {
    let label = |st: &KState, id: u64| st.ids.iter().position(|x| *x == id).map_or("?".to_string(), |i| ["A", "B"][i].to_string());
    let snap = st.co.lock_manager().to_serializable();
    for t in 0..2u8 {
        if !st.finished[t as usize] {
            continue;
        }
        let id = st.ids[t as usize];
        if let Some((k, e)) = snap.locks().iter().find(|(_, e)| e.tx_id == id) {
            let recorded = st.grants.get(&e.lock_handle).is_some_and(|g| g.1);
            return Err((format!("c12:coord:finished-tx-keeps-lock:{}", if recorded { "vote-recorded" } else { "vote-not-recorded" }), format!("transaction {} is finished (committed / aborted / timed out) but still owns key {k} (handle {}, expires only after 30 s)", ["A", "B"][t as usize], e.lock_handle)));
        }
    }
    for k in KEYS {
        let real = st.co.lock_manager().lock_holder(k);
        let want = st.held.get(k).map(|l| st.ids[*l as usize]);
        if real != want {
            return Err(("c12:coord:lock-table-differs-from-reference".into(), format!("key {k}: lock_holder = {}, reference owner = {}", real.map_or("none".into(), |x| label(st, x)), want.map_or("none".into(), |x| label(st, x)))));
        }
    }
    check_graph_obs(st.co.wait_graph(), &st.ids).map_err(|(s, m)| (s.replace("c12:graph", "c12:coord:graph"), m))?;
    for t in 0..2u8 {
        if st.finished[t as usize] {
            absent_from_graph(st.co.wait_graph(), st.ids[t as usize], &st.ids).map_err(|(s, m)| (s.replace("c12:graph:", "c12:coord:wait-graph:"), st.ids.iter().enumerate().fold(m, |m, (i, id)| m.replace(&id.to_string(), ["A", "B"][i]))))?;
        }
    }
    // Whatever the call returned: nothing may be recorded under the id of a transaction the coordinator
    // no longer knows (nobody could ever release it). All runs stay below the 30 s lock timeout.
    let known = |id: u64| st.co.get(id).is_some();
    if let Some((k, e)) = snap.locks().iter().find(|(_, e)| !known(e.tx_id)) {
        return Err((format!("c12:coord:forgotten-transaction-still-recorded:after-{after}"), format!("after {after}: key {k} is locked by transaction {} (handle {}), which coordinator.get() no longer knows; keys_for_transaction = {:?}", label(st, e.tx_id), e.lock_handle, st.co.lock_manager().keys_for_transaction(e.tx_id))));
    }
    let (fwd, rev) = observed_edges(st.co.wait_graph(), &st.ids);
    if let Some((a, b)) = fwd.iter().chain(rev.iter()).find(|(a, b)| !known(*a) || !known(*b)) {
        return Err((format!("c12:coord:forgotten-transaction-still-recorded:after-{after}"), format!("after {after}: the wait-for graph records {} -> {}, and coordinator.get() no longer knows {}", label(st, *a), label(st, *b), if known(*a) { label(st, *b) } else { label(st, *a) })));
    }
    Ok(())
}
#[derive(Default)]
struct KOut {
    sequences: u64,
    steps: u64,
    yes: u64,
    conflicts: u64,
    spurious_refusals: u64,
    finishes: u64,
    distinct_end_states: BTreeSet<String>,
    violations: Vec<Viol>,
    viol_total: u64,
    by_signature: BTreeMap<String, u64>,
    sample: Vec<KOp>,
}
impl KOut {
    fn merge(mut self, o: KOut) -> KOut {
        self.sequences += o.sequences;
        self.steps += o.steps;
        self.yes += o.yes;
        self.conflicts += o.conflicts;
        self.spurious_refusals += o.spurious_refusals;
        self.finishes += o.finishes;
        self.distinct_end_states.extend(o.distinct_end_states);
        self.viol_total += o.viol_total;
        for (k, v) in o.by_signature {
            *self.by_signature.entry(k).or_default() += v;
        }
        for v in o.violations {
            // keep the shortest reproductions
            self.violations.push(v);
        }
        self.violations.sort_by_key(|v| (v.0.clone(), v.2["ops"].as_array().map_or(0, Vec::len)));
        let mut kept: Vec<Viol> = vec![];
        for v in std::mem::take(&mut self.violations) {
            if kept.iter().filter(|x| x.0 == v.0).count() < 3 {
                kept.push(v);
            }
        }
        self.violations = kept;
        if !o.sample.is_empty() && (self.sample.is_empty() || o.sample.len() < self.sample.len()) {
            self.sample = o.sample;
        }
        self
    }
}
fn k_end_state(st: &KState) -> String {
    let phase = |t: usize| st.co.get(st.ids[t]).map(|x| format!("{:?}/{}", x.phase, x.votes.len()));
    let (f, _) = observed_edges(st.co.wait_graph(), &st.ids);
    let lab = |id: u64| st.ids.iter().position(|x| *x == id);
    format!("{:?}|{:?}|{:?}|{:?}|{:?}|{:?}", st.held, st.finished, phase(0), phase(1), f.iter().map(|(a, b)| (lab(*a), lab(*b))).collect::<Vec<_>>(), st.flight.keys().collect::<Vec<_>>())
}
/// depth-first over all sequences (no dedup: a sequence is a replay from a fresh coordinator);
/// a violating sequence is reported once and not extended
fn k_dfs(hist: &mut Vec<KOp>, depth: usize, alpha: &[KOp], out: &mut KOut) {
    if hist.len() == depth {
        return;
    }
    for op in alpha {
        let mut st = k_fresh();
        let mut ok = true;
        for h in hist.iter() {
            ok &= matches!(k_apply(&mut st, h), Ok(true));
        }
        assert!(ok, "prefix must replay");
        let before = [st.yes, st.conflicts, st.spurious_refusals, st.finishes];
        match k_apply(&mut st, op) {
            Ok(false) => {}
            Ok(true) => {
                hist.push(op.clone());
                out.sequences += 1;
                out.steps += hist.len() as u64;
                // what the last operation of this sequence did
                out.yes += st.yes - before[0];
                out.conflicts += st.conflicts - before[1];
                out.spurious_refusals += st.spurious_refusals - before[2];
                out.finishes += st.finishes - before[3];
                out.distinct_end_states.insert(k_end_state(&st));
                if st.finishes > 0 && st.conflicts > 0 && (out.sample.is_empty() || hist.len() < out.sample.len()) {
                    out.sample = hist.clone();
                }
                k_dfs(hist, depth, alpha, out);
                hist.pop();
            }
            Err((sig, msg)) => {
                hist.push(op.clone());
                out.sequences += 1;
                out.steps += hist.len() as u64;
                out.viol_total += 1;
                *out.by_signature.entry(sig.clone()).or_default() += 1;
                out.violations.push((sig, format!("after {hist:?}: {msg}"), json!({"part": "K", "ops": hist.clone(), "transactions": "0 = A (shards 0,1), 1 = B (shard 0); key sets 0={a} 1={b} 2={a,b}"})));
                *out = std::mem::take(out).merge(KOut::default());
                hist.pop();
            }
        }
    }
}
fn part_k(depth: usize) -> KOut {
    let alpha = k_alphabet();
    // partition by the first two operations
    let mut prefixes: Vec<Vec<KOp>> = vec![];
    for a in &alpha {
        for b in &alpha {
            prefixes.push(vec![a.clone(), b.clone()]);
        }
    }
    let mut top = KOut::default();
    // sequences of length 1 and 2 themselves
    k_dfs(&mut vec![], 2.min(depth), &alpha, &mut top);
    if depth <= 2 {
        return top;
    }
    let rest = prefixes
        .par_iter()
        .fold(KOut::default, |mut out, p| {
            let mut st = k_fresh();
            if p.iter().all(|h| matches!(k_apply(&mut st, h), Ok(true))) {
                k_dfs(&mut p.clone(), depth, &alpha, &mut out);
            }
            out
        })
        .reduce(KOut::default, KOut::merge);
    top.merge(rest)
}

// ------------------------------------------------------------------------------------------------
// Part W — the coordinator with a real TxWal; every WAL append of every operation fails in turn
// ------------------------------------------------------------------------------------------------
const W_NO_CAP: u64 = 1 << 40;
fn w_alphabet() -> Vec<KOp> {
    let mut v = k_alphabet();
    for t in 0..2u8 {
        v.push(KOp::CompleteCommit(t));
        v.push(KOp::CompleteAbort(t));
    }
    v
}
fn w_dir() -> std::path::PathBuf {
    let scratch = std::env::var("VERIF_SCRATCH").unwrap_or_else(|_| "/dev/shm".into());
    std::path::PathBuf::from(scratch).join(format!("c12-wal-{}", std::process::id()))
}
/// the WAL file of the calling thread
fn w_path() -> std::path::PathBuf {
    thread_local! {
        static P: std::path::PathBuf = {
            let d = w_dir();
            std::fs::create_dir_all(&d).expect("scratch dir for the WAL files");
            d.join(format!("{}.wal", rayon::current_thread_index().map_or("main".to_string(), |i| i.to_string())))
        };
    }
    P.with(Clone::clone)
}
/// Lock handles are written into the WAL and bitcode packs integers by magnitude: keep every handle of
/// this process in one width class (2^16 .. 2^32) so that a record has the same size in every run.
fn w_prepare() {
    let lm = LockManager::new();
    while tensor_chain::distributed_tx::lock_handle_current() < 70_000 {
        let _ = lm.try_lock(1, &[]);
    }
}
fn w_file_len(path: &std::path::Path) -> u64 {
    std::fs::metadata(path).map_or(0, |m| m.len())
}
/// (end offset, kind) of every complete `[len][crc][payload]` record of the file
fn w_records(path: &std::path::Path) -> Vec<(u64, String)> {
    let bytes = std::fs::read(path).unwrap_or_default();
    let (mut pos, mut v) = (0usize, vec![]);
    while pos + 8 <= bytes.len() {
        let len = u32::from_le_bytes([bytes[pos], bytes[pos + 1], bytes[pos + 2], bytes[pos + 3]]) as usize;
        if pos + 8 + len > bytes.len() {
            break;
        }
        let name = match bitcode::deserialize::<TxWalEntry>(&bytes[pos + 8..pos + 8 + len]) {
            Ok(TxWalEntry::PhaseChange { to, .. }) => format!("PhaseChange->{to:?}"),
            Ok(TxWalEntry::TxComplete { outcome, .. }) => format!("TxComplete({outcome:?})"),
            Ok(TxWalEntry::PrepareVote { vote, .. }) => format!("PrepareVote({})", format!("{vote:?}").split([' ', '{']).next().unwrap_or("")),
            Ok(other) => format!("{other:?}").split([' ', '{']).next().unwrap_or("").to_string(),
            Err(_) => "?".into(),
        };
        pos += 8 + len;
        v.push((pos as u64, name));
    }
    v
}
struct WRun {
    st: KState,
    verdict: Result<bool, (String, String)>,
    /// WAL file size after the two begins and after every completed operation
    sizes: Vec<u64>,
}
fn w_run(hist: &[KOp], cap: u64) -> WRun {
    let path = w_path();
    let mut st = k_fresh_with(Some((&path, cap)));
    let mut sizes = vec![w_file_len(&path)];
    for op in hist {
        match k_apply(&mut st, op) {
            Ok(true) => sizes.push(w_file_len(&path)),
            other => return WRun { st, verdict: other, sizes },
        }
    }
    WRun { st, verdict: Ok(true), sizes }
}
/// The operator makes room in the WAL and finishes whatever is still pending (the failed call again;
/// complete_commit for a transaction left Committing): that must work and leave nothing behind.
/// Returns the retried calls.
fn w_epilogue(st: &mut KState) -> Result<Vec<String>, (String, String)> {
    let mut calls = vec![];
    for t in 0..2u8 {
        if st.finished[t as usize] {
            continue;
        }
        // (before every retried call: the cap may be too small for the records of two calls)
        st.co.truncate_wal().expect("truncate_wal on the scratch file system");
        let id = st.ids[t as usize];
        // unknown and not finished by a successful call: k_check has shown that nothing is recorded under its id
        let Some(tx) = st.co.get(id) else { continue };
        let failed = st.last_failed[t as usize];
        let (call, res) = match (tx.phase, failed) {
            (TxPhase::Committing, _) => ("complete_commit", st.co.complete_commit(id)),
            (TxPhase::Prepared, Some("commit")) => ("commit", st.co.commit(id)),
            _ => ("abort", st.co.abort(id, "retry after the WAL has room again")),
        };
        if let Err(e) = res {
            return Err((format!("c12:coord:wal-fault:retry-fails:{call}-after-failed-{}", failed.unwrap_or("nothing")), format!("transaction {} is still pending in phase {:?} (last failed finishing call: {failed:?}); after truncate_wal() {call} returns {e:?}: its locks and wait edges cannot be released", ["A", "B"][t as usize], tx.phase)));
        }
        calls.push(format!("{call}-after-failed-{}", failed.unwrap_or("nothing")));
        k_finish(st, t);
        k_check(st, &format!("retry-{call}"))?;
    }
    Ok(calls)
}
#[derive(Clone, Debug, Serialize, Deserialize)]
struct WFault {
    ops: Vec<KOp>,
    wal_cap_bytes: u64,
    /// "<call>#<n-th record of the call>:<record kind>:<all later appends fail | only this size and larger>"
    first_fault: String,
}
#[derive(Default)]
struct WOut {
    fault_free_sequences: u64,
    faulty_runs: u64,
    steps: u64,
    first_fault_at: BTreeMap<String, u64>,
    failed_finishing_calls: u64,
    retried_calls: BTreeMap<String, u64>,
    forgotten_unfinished: u64,
    misaligned: u64,
    distinct_end_states: BTreeSet<String>,
    violations: Vec<Viol>,
    viol_total: u64,
    by_signature: BTreeMap<String, u64>,
    sample: Option<Value>,
}
impl WOut {
    fn merge(mut self, o: WOut) -> WOut {
        self.fault_free_sequences += o.fault_free_sequences;
        self.faulty_runs += o.faulty_runs;
        self.steps += o.steps;
        self.failed_finishing_calls += o.failed_finishing_calls;
        self.forgotten_unfinished += o.forgotten_unfinished;
        self.misaligned += o.misaligned;
        self.viol_total += o.viol_total;
        for (k, v) in o.first_fault_at {
            *self.first_fault_at.entry(k).or_default() += v;
        }
        for (k, v) in o.retried_calls {
            *self.retried_calls.entry(k).or_default() += v;
        }
        for (k, v) in o.by_signature {
            *self.by_signature.entry(k).or_default() += v;
        }
        self.distinct_end_states.extend(o.distinct_end_states);
        self.violations.extend(o.violations);
        self.violations.sort_by_key(|v| (v.0.clone(), v.2["ops"].as_array().map_or(0, Vec::len), v.2["wal_cap_bytes"].as_u64()));
        let mut kept: Vec<Viol> = vec![];
        for v in std::mem::take(&mut self.violations) {
            if kept.iter().filter(|x| x.0 == v.0).count() < 3 {
                kept.push(v);
            }
        }
        self.violations = kept;
        if let Some(x) = o.sample {
            self.offer_sample(x);
        }
        self
    }
    /// keeps the shortest (then lexicographically first) sample: independent of the work partition
    fn offer_sample(&mut self, x: Value) {
        let key = |v: &Value| (v["ops"].as_array().map_or(0, Vec::len), v.to_string());
        if self.sample.as_ref().is_none_or(|cur| key(&x) < key(cur)) {
            self.sample = Some(x);
        }
    }
    fn bad(&mut self, sig: String, msg: String, hist: &[KOp], cap: u64, fault: &str) {
        self.viol_total += 1;
        *self.by_signature.entry(sig.clone()).or_default() += 1;
        let how = if cap == W_NO_CAP { "no WAL fault".to_string() } else { format!("WAL capped at {cap} bytes, first failing append {fault}") };
        self.violations.push((sig, format!("after {hist:?} ({how}): {msg}"), json!({"part": "W", "ops": hist, "wal_cap_bytes": cap, "first_fault": fault, "transactions": "0 = A (shards 0,1), 1 = B (shard 0); key sets 0={a} 1={b} 2={a,b}"})));
        *self = std::mem::take(self).merge(WOut::default());
    }
    /// bookkeeping + retry epilogue of one completed run; false = violation (do not extend)
    fn completed(&mut self, mut run: WRun, hist: &[KOp], cap: u64, fault: &str) -> bool {
        self.steps += hist.len() as u64;
        self.distinct_end_states.insert(format!("{}|{:?}", k_end_state(&run.st), run.st.last_failed));
        self.forgotten_unfinished += (0..2).filter(|t| !run.st.finished[*t] && run.st.co.get(run.st.ids[*t]).is_none()).count() as u64;
        match w_epilogue(&mut run.st) {
            Ok(calls) => {
                for c in calls {
                    *self.retried_calls.entry(c).or_default() += 1;
                }
                true
            }
            Err((sig, msg)) => {
                self.bad(sig, msg, hist, cap, fault);
                false
            }
        }
    }
}
/// the fault-free tree: every sequence on a coordinator with an uncapped WAL; collects the fault plans
fn w_dfs_free(hist: &mut Vec<KOp>, depth: usize, alpha: &[KOp], out: &mut WOut, plans: &mut Vec<WFault>) {
    if hist.len() == depth {
        return;
    }
    for op in alpha {
        hist.push(op.clone());
        let run = w_run(hist, W_NO_CAP);
        match run.verdict.clone() {
            Ok(false) => {}
            Err((sig, msg)) => {
                out.fault_free_sequences += 1;
                out.bad(sig, msg, hist, W_NO_CAP, "");
            }
            Ok(true) => {
                out.fault_free_sequences += 1;
                // the records this last call appended: each of them fails in turn
                let records = w_records(&w_path());
                let from = run.sizes[run.sizes.len() - 2];
                let mut prev = from;
                for (j, (end, kind)) in records.iter().filter(|r| r.0 > from).enumerate() {
                    for (cap, how) in [(prev, "all later appends fail"), (end - 1, "only appends of this size and larger fail")] {
                        plans.push(WFault { ops: hist.clone(), wal_cap_bytes: cap, first_fault: format!("{}#{}:{kind}:{how}", k_op_name(op), j + 1) });
                    }
                    prev = *end;
                }
                if out.completed(run, hist, W_NO_CAP, "") {
                    w_dfs_free(hist, depth, alpha, out, plans);
                }
            }
        }
        hist.pop();
    }
}
/// one faulty run and, below it, every continuation under the same cap
fn w_dfs_faulty(hist: &mut Vec<KOp>, plan: &WFault, depth: usize, alpha: &[KOp], out: &mut WOut, root_sizes: Option<&[u64]>) {
    let run = w_run(hist, plan.wal_cap_bytes);
    if let Some(free) = root_sizes {
        // the prefix ran as in the fault-free run and the last call wrote less than there
        let n = hist.len();
        let aligned = matches!(run.verdict, Ok(true) | Err(_)) && run.sizes.len() >= n && run.sizes[..n] == free[..n] && run.sizes.get(n).is_none_or(|s| *s < free[n]);
        if !aligned {
            out.misaligned += 1;
        }
    }
    match run.verdict.clone() {
        Ok(false) => {}
        Err((sig, msg)) => {
            out.faulty_runs += 1;
            out.bad(sig, msg, hist, plan.wal_cap_bytes, &plan.first_fault);
        }
        Ok(true) => {
            out.faulty_runs += 1;
            if root_sizes.is_some() {
                // the call succeeded in the fault-free run (it wrote records); here it returned an error
                out.failed_finishing_calls += u64::from(matches!(hist.last(), Some(KOp::Commit(t) | KOp::Abort(t)) if !run.st.finished[*t as usize]));
            }
            if root_sizes.is_some() && matches!(hist.last(), Some(KOp::Commit(t) | KOp::Abort(t)) if !run.st.finished[*t as usize]) && hist.len() >= 2 {
                out.offer_sample(json!({"part": "W", "ops": hist.clone(), "wal_cap_bytes": plan.wal_cap_bytes, "first_fault": plan.first_fault}));
            }
            if out.completed(run, hist, plan.wal_cap_bytes, &plan.first_fault) && hist.len() < depth {
                for op in alpha {
                    hist.push(op.clone());
                    w_dfs_faulty(hist, plan, depth, alpha, out, None);
                    hist.pop();
                }
            }
        }
    }
}
fn part_w(depth: usize) -> WOut {
    w_prepare();
    let alpha = w_alphabet();
    // phase 1: the fault-free tree, partitioned by the first operation
    let (free, plans): (WOut, Vec<WFault>) = alpha
        .par_iter()
        .map(|first| {
            let (mut out, mut plans) = (WOut::default(), vec![]);
            // w_dfs_free extends a prefix that is known to be enabled; run the first operation through it
            w_dfs_free(&mut vec![], 1, std::slice::from_ref(first), &mut out, &mut plans);
            if out.fault_free_sequences == 1 && out.viol_total == 0 {
                let mut sub = WOut::default();
                w_dfs_free(&mut vec![first.clone()], depth, &alpha, &mut sub, &mut plans);
                out = out.merge(sub);
            }
            (out, plans)
        })
        .reduce(|| (WOut::default(), vec![]), |a, b| (a.0.merge(b.0), [a.1, b.1].concat()));
    // phase 2: every fault plan with all its continuations
    let faulty = plans
        .par_iter()
        .fold(WOut::default, |mut out, plan| {
            let free_sizes = w_run(&plan.ops, W_NO_CAP).sizes;
            *out.first_fault_at.entry(plan.first_fault.rsplit_once(':').map_or(plan.first_fault.clone(), |x| x.0.to_string())).or_default() += 1;
            w_dfs_faulty(&mut plan.ops.clone(), plan, depth, &alpha, &mut out, Some(&free_sizes));
            out
        })
        .reduce(WOut::default, WOut::merge);
    let _ = std::fs::remove_dir_all(w_dir());
    free.merge(faulty)
}

// ------------------------------------------------------------------------------------------------
// Part T — real threads under the scheduler
// ------------------------------------------------------------------------------------------------
#[derive(Clone, Debug, PartialEq, Serialize, Deserialize)]
enum TOp {
    // ---- LockManager + WaitForGraph level (tx = 1..3)
    Lock { tx: u8, ks: u8 },
    LockWT { tx: u8, ks: u8 },
    Release { tx: u8 },
    /// release_by_handle_with_wait_cleanup(idx-th handle granted to tx)
    RelH { tx: u8, idx: u8 },
    CleanupWC,
    Advance(i64),
    /// lock_holder(KEYS[k])
    Holder(u8),
    // ---- coordinator level (tx = label 0..)
    /// handle_prepare; the vote is parked ("in flight")
    HandlePrepare { tx: u8, shard: u8, ks: u8 },
    /// record_vote(parked vote)
    Vote { tx: u8, shard: u8 },
    /// commit if the transaction is Prepared, otherwise abort (skipped if it is gone)
    Finish { tx: u8 },
    Abort { tx: u8 },
    /// cleanup_timeouts()
    Timeouts,
    /// release_orphaned_locks(now + 1)
    Orphans,
}
#[derive(Clone, Debug, PartialEq, Serialize, Deserialize)]
enum TRes {
    Granted(u64),
    Refused { blocker: u64, keys: Option<Vec<String>> },
    Released(u64),
    Unit,
    Skipped,
    Count(usize),
    HolderIs(Option<u64>),
    Voted(VoteKind),
    Recorded(Result<String, String>),
    Finished { how: String, ok: bool },
    TimedOut(Vec<u8>),
}
#[derive(Clone, Debug, Serialize, Deserialize)]
struct Ev {
    thread: usize,
    op: TOp,
    call: i64,
    ret: i64,
    res: TRes,
}
#[derive(Clone, Debug, Serialize, Deserialize)]
struct Program {
    name: String,
    /// "lm" or "co"
    level: String,
    /// co: participants of each transaction
    txs: Vec<Vec<usize>>,
    /// executed one after the other before the threads start
    pre: Vec<TOp>,
    /// co: clock advance after `pre`
    pre_advance: i64,
    threads: Vec<Vec<TOp>>,
    /// preemption bound of this program = min(tier bound, max_bound)
    max_bound: usize,
}

// ---------------------------------------------------------------- LockManager level
struct LmCtx {
    lm: LockManager,
    g: WaitForGraph,
    handles: Mutex<BTreeMap<u8, Vec<u64>>>,
    hist: Mutex<Vec<Ev>>,
}
fn lm_exec(c: &LmCtx, op: &TOp) -> TRes {
    match op {
        TOp::Lock { tx, ks } | TOp::LockWT { tx, ks } => {
            let keys = keyset(*ks);
            let r = if matches!(op, TOp::LockWT { .. }) { c.lm.try_lock_with_wait_tracking(u64::from(*tx), &keys, &c.g, None).map_err(|w| (w.blocking_tx_id, Some(w.conflicting_keys))) } else { c.lm.try_lock(u64::from(*tx), &keys).map_err(|h| (h, None)) };
            match r {
                Ok(h) => {
                    c.handles.lock().unwrap().entry(*tx).or_default().push(h);
                    TRes::Granted(h)
                }
                Err((blocker, keys)) => TRes::Refused { blocker, keys },
            }
        }
        TOp::Release { tx } => {
            c.lm.release(u64::from(*tx));
            TRes::Unit
        }
        TOp::RelH { tx, idx } => {
            let h = c.handles.lock().unwrap().get(tx).and_then(|v| v.get(*idx as usize).copied());
            match h {
                Some(h) => {
                    c.lm.release_by_handle_with_wait_cleanup(h, &c.g);
                    TRes::Released(h)
                }
                None => TRes::Skipped,
            }
        }
        TOp::CleanupWC => TRes::Count(c.lm.cleanup_expired_with_wait_cleanup(&c.g)),
        TOp::Advance(ms) => {
            env::clock_advance_ms(*ms);
            TRes::Unit
        }
        TOp::Holder(k) => TRes::HolderIs(c.lm.lock_holder(KEYS[*k as usize])),
        _ => unreachable!("coordinator operation in a LockManager program"),
    }
}
/// one step of the sequential lock table; None = this result is impossible here
fn lin_step(rf: &RefTable, ev: &Ev) -> Option<RefTable> {
    let mut r = rf.clone();
    match (&ev.op, &ev.res) {
        (TOp::Lock { tx, ks } | TOp::LockWT { tx, ks }, res) => {
            let keys = keyset(*ks);
            let bl = r.blockers(u64::from(*tx), &keys);
            match res {
                TRes::Granted(h) if bl.is_empty() => r.grant(u64::from(*tx), &keys, *h),
                TRes::Refused { blocker, keys: ck } if !bl.is_empty() && bl.iter().any(|b| b.1 == *blocker) && ck.as_ref().is_none_or(|ck| *ck == bl.iter().map(|b| b.0.clone()).collect::<Vec<_>>()) => {}
                _ => return None,
            }
        }
        (TOp::Release { tx }, _) => r.release_tx(u64::from(*tx)),
        (TOp::RelH { .. }, TRes::Released(h)) => {
            r.release_handle(*h);
        }
        (TOp::RelH { .. }, _) => {}
        (TOp::CleanupWC, _) => {
            r.cleanup();
        }
        (TOp::Advance(ms), _) => r.now += *ms as u64,
        (TOp::Holder(k), TRes::HolderIs(h)) => {
            if r.holder(KEYS[*k as usize]).map(|x| x.0) != *h {
                return None;
            }
        }
        _ => return None,
    }
    Some(r)
}
fn linearizable(init: &RefTable, evs: &[Ev]) -> bool {
    fn rec(m: &RefTable, evs: &[Ev], done: &mut Vec<bool>, left: usize) -> bool {
        if left == 0 {
            return true;
        }
        for i in 0..evs.len() {
            if done[i] || (0..evs.len()).any(|j| !done[j] && j != i && evs[j].ret < evs[i].call) {
                continue;
            }
            if let Some(m2) = lin_step(m, &evs[i]) {
                done[i] = true;
                if rec(&m2, evs, done, left - 1) {
                    return true;
                }
                done[i] = false;
            }
        }
        false
    }
    rec(init, evs, &mut vec![false; evs.len()], evs.len())
}
fn norm_res(r: &TRes) -> String {
    match r {
        TRes::Granted(_) => "granted".into(),
        TRes::Released(_) => "released".into(),
        TRes::Voted(VoteKind::Yes(_)) => "yes".into(),
        TRes::Voted(VoteKind::Conflict(_)) => "conflict".into(),
        other => format!("{other:?}"),
    }
}
type Exec = (Vec<Body>, Box<dyn FnOnce(&RunResult) -> Verdict>);

/// State is built on a fresh, identically seeded OS thread so that every execution of a program
/// sees the same HashMap seeds (std caches its hash keys per thread) — required for replay.
fn on_fresh_thread<T: Send + 'static>(f: impl FnOnce() -> T + Send + 'static) -> T {
    std::thread::spawn(move || {
        env::set_thread_seed(1000);
        f()
    })
    .join()
    .expect("setup thread")
}
fn mk_lm(p: &Program) -> Exec {
    env::clock_reset();
    let pre = p.pre.clone();
    let (ctx, init, pre_bad) = on_fresh_thread(move || {
        let ctx = Arc::new(LmCtx { lm: LockManager::with_default_timeout(Duration::from_millis(TIMEOUT_MS)), g: WaitForGraph::new(), handles: Mutex::new(BTreeMap::new()), hist: Mutex::new(vec![]) });
        let mut init = RefTable::default();
        let mut pre_bad = None;
        for op in &pre {
            let res = lm_exec(&ctx, op);
            let ev = Ev { thread: 99, op: op.clone(), call: 0, ret: 0, res };
            match lin_step(&init, &ev) {
                Some(r) => init = r,
                None => pre_bad = Some(format!("{ev:?}")),
            }
        }
        (ctx, init, pre_bad)
    });
    let mut bodies: Vec<Body> = vec![];
    for (t, ops) in p.threads.iter().enumerate() {
        let (ctx, ops) = (ctx.clone(), ops.clone());
        bodies.push(Box::new(move || {
            for op in &ops {
                let call = vsched::stamp() as i64;
                let res = lm_exec(&ctx, op);
                let ret = vsched::stamp() as i64;
                ctx.hist.lock().unwrap().push(Ev { thread: t, op: op.clone(), call, ret, res });
            }
        }));
    }
    let prog = p.clone();
    let check = Box::new(move |_r: &RunResult| {
        let evs = ctx.hist.lock().unwrap().clone();
        let txs: Vec<u64> = vec![1, 2, 3];
        let holders: Vec<Option<u64>> = KEYS.iter().map(|k| ctx.lm.lock_holder(k)).collect();
        let (fwd, _) = observed_edges(&ctx.g, &txs);
        let outcome = format!("{:?}|{holders:?}|{fwd:?}", evs.iter().map(|e| (e.thread, norm_res(&e.res))).collect::<Vec<_>>());
        let show = || evs.iter().map(|e| format!("T{} {:?} [{}..{}] -> {:?}", e.thread, e.op, e.call, e.ret, e.res)).collect::<Vec<_>>();
        if let Some(b) = &pre_bad {
            return Verdict { outcome, violation: Some(format!("c12:conc:pre-state-impossible|{b}")) };
        }
        if !linearizable(&init, &evs) {
            return Verdict { outcome, violation: Some(format!("c12:conc:lock-table-history-not-linearizable|no sequential order of these calls on a lock table explains their results: {:?}", show())) };
        }
        // the state at quiescence must be the one some linearization ends in
        let mut evs2 = evs.clone();
        let mut stamp = evs.iter().map(|e| e.ret).max().unwrap_or(0) + 1;
        for (i, h) in holders.iter().enumerate() {
            evs2.push(Ev { thread: 98, op: TOp::Holder(i as u8), call: stamp, ret: stamp + 1, res: TRes::HolderIs(*h) });
            stamp += 2;
        }
        if !linearizable(&init, &evs2) {
            return Verdict { outcome, violation: Some(format!("c12:conc:final-lock-table-not-explained|holders at quiescence {holders:?} after {:?}", show())) };
        }
        if let Err((s, m)) = check_graph_obs(&ctx.g, &txs) {
            return Verdict { outcome, violation: Some(format!("{}|{m}; history {:?}", s.replace("c12:", "c12:conc:"), show())) };
        }
        // a transaction whose every granted handle was released with wait cleanup, as its last
        // operations, is finished (only in programs without expiry: then the release found the lock)
        let expiry = prog.threads.iter().flatten().chain(prog.pre.iter()).any(|o| matches!(o, TOp::Advance(_)));
        if !expiry {
            for tx in 1..=3u8 {
                let granted = ctx.handles.lock().unwrap().get(&tx).map_or(0, Vec::len);
                let mine: Vec<&Ev> = evs.iter().filter(|e| matches!(&e.op, TOp::Lock { tx: t, .. } | TOp::LockWT { tx: t, .. } | TOp::Release { tx: t } | TOp::RelH { tx: t, .. } if *t == tx)).collect();
                let released = mine.iter().filter(|e| matches!(e.res, TRes::Released(_))).count();
                let last_release = mine.iter().filter(|e| matches!(e.res, TRes::Released(_))).map(|e| e.call).min();
                let locks_after = mine.iter().any(|e| matches!(e.op, TOp::Lock { .. } | TOp::LockWT { .. }) && last_release.is_some_and(|c| e.ret > c));
                if granted > 0 && released == granted && !locks_after {
                    if let Err((s, m)) = absent_from_graph(&ctx.g, u64::from(tx), &txs) {
                        return Verdict { outcome, violation: Some(format!("{}|{m}; history {:?}", s.replace("c12:", "c12:conc:"), show())) };
                    }
                }
            }
        }
        Verdict { outcome, violation: None }
    });
    (bodies, check)
}

// ---------------------------------------------------------------- coordinator level
struct CoCtx {
    co: DistributedTxCoordinator,
    ids: Vec<u64>,
    flight: Mutex<BTreeMap<(u8, u8), PrepareVote>>,
    hist: Mutex<Vec<Ev>>,
}
fn lab(i: usize) -> String {
    ((b'A' + i as u8) as char).to_string()
}
fn co_exec(c: &CoCtx, op: &TOp) -> TRes {
    match op {
        TOp::HandlePrepare { tx, shard, ks } => {
            let vote = c.co.handle_prepare(&prepare_request(c.ids[*tx as usize], *tx, *shard, *ks));
            let kind = vote_kind(&vote);
            c.flight.lock().unwrap().insert((*tx, *shard), vote);
            TRes::Voted(kind)
        }
        TOp::Vote { tx, shard } => {
            let vote = c.flight.lock().unwrap().remove(&(*tx, *shard));
            match vote {
                Some(v) => TRes::Recorded(c.co.record_vote(c.ids[*tx as usize], *shard as usize, v).map(|p| format!("{p:?}")).map_err(|e| format!("{e:?}").split(['(', '{', ' ']).next().unwrap_or("").to_string())),
                None => TRes::Skipped,
            }
        }
        TOp::Finish { tx } => {
            let id = c.ids[*tx as usize];
            match c.co.get(id).map(|t| t.phase) {
                Some(TxPhase::Prepared) => TRes::Finished { how: "commit".into(), ok: c.co.commit(id).is_ok() },
                Some(_) => TRes::Finished { how: "abort".into(), ok: c.co.abort(id, "not prepared").is_ok() },
                None => TRes::Skipped,
            }
        }
        TOp::Abort { tx } => TRes::Finished { how: "abort".into(), ok: c.co.abort(c.ids[*tx as usize], "client abort").is_ok() },
        TOp::Timeouts => {
            let t = c.co.cleanup_timeouts();
            let mut l: Vec<u8> = (0..c.ids.len() as u8).filter(|i| t.contains(&c.ids[*i as usize])).collect();
            l.sort_unstable();
            TRes::TimedOut(l)
        }
        TOp::Orphans => {
            #[allow(clippy::cast_possible_truncation)]
            let now = std::time::SystemTime::now().duration_since(std::time::UNIX_EPOCH).unwrap().as_millis() as u64;
            TRes::Count(c.co.release_orphaned_locks(now + 1))
        }
        TOp::Holder(k) => TRes::HolderIs(c.co.lock_manager().lock_holder(KEYS[*k as usize]).map(|id| c.ids.iter().position(|x| *x == id).map_or(99, |i| i as u64))),
        _ => unreachable!("LockManager operation in a coordinator program"),
    }
}
/// quiescent verdict of one coordinator execution
fn check_co(c: &CoCtx, evs: &[Ev]) -> (String, Option<String>) {
    let n = c.ids.len();
    let snap = c.co.lock_manager().to_serializable();
    let g = c.co.wait_graph();
    let label_of = |id: u64| c.ids.iter().position(|x| *x == id).map_or_else(|| format!("?{id}"), lab);
    let (fwd, _) = observed_edges(g, &c.ids);
    let mut table: Vec<(String, String)> = snap.locks().iter().map(|(k, e)| (k.clone(), label_of(e.tx_id))).collect();
    table.sort();
    let outcome = format!("{:?}|{table:?}|{:?}", evs.iter().filter(|e| e.thread != 99).map(|e| (e.thread, norm_res(&e.res))).collect::<Vec<_>>(), fwd.iter().map(|(a, b)| (label_of(*a), label_of(*b))).collect::<Vec<_>>());
    let show = || evs.iter().map(|e| format!("T{} {:?} [{}..{}] -> {}", e.thread, e.op, e.call, e.ret, norm_res(&e.res))).collect::<Vec<_>>();
    // when was each transaction finished (call stamp of the first operation that finished it)?
    let mut finish_call: Vec<Option<i64>> = vec![None; n];
    for e in evs {
        let done: Vec<u8> = match (&e.op, &e.res) {
            (TOp::Finish { tx } | TOp::Abort { tx }, TRes::Finished { ok: true, .. }) => vec![*tx],
            (_, TRes::TimedOut(l)) => l.clone(),
            _ => vec![],
        };
        for t in done {
            let f = &mut finish_call[t as usize];
            *f = Some(f.map_or(e.call, |x| x.min(e.call)));
        }
    }
    // grants: (tx, shard, handle, keys, call, ret)
    let grants: Vec<(u8, u8, u64, Vec<String>, i64, i64)> = evs.iter().filter_map(|e| match (&e.op, &e.res) { (TOp::HandlePrepare { tx, shard, ks }, TRes::Voted(VoteKind::Yes(h))) => Some((*tx, *shard, *h, keyset(*ks), e.call, e.ret)), _ => None }).collect();
    for (tx, shard, h, keys, _, ret) in &grants {
        let Some(fc) = finish_call[*tx as usize] else { continue };
        if *ret < fc {
            if let Some((k, _)) = snap.locks().iter().find(|(_, e)| e.lock_handle == *h) {
                let recorded = evs.iter().any(|e| matches!((&e.op, &e.res), (TOp::Vote { tx: t, shard: s }, TRes::Recorded(Ok(_))) if t == tx && s == shard) && e.call < fc);
                return (outcome, Some(format!("c12:coord:finished-tx-keeps-lock:{}|transaction {} was granted {keys:?} (handle {h}) before it was finished, and still owns {k} at quiescence (until the 30 s lock timeout); history {:?}", if recorded { "vote-recorded" } else { "vote-not-recorded" }, lab(*tx as usize), show())));
            }
        }
    }
    // exclusivity: two transactions were granted a common key. One of the two holds must have ended
    // before the other grant happened, i.e. an operation able to release it (finish of that
    // transaction, a timeout / orphan sweep, its own refused prepare) must have started before the
    // other grant returned and ended after the own grant began. (No expiry: runs stay below 30 s.)
    let released_before = |g1: &(u8, u8, u64, Vec<String>, i64, i64), g2: &(u8, u8, u64, Vec<String>, i64, i64)| {
        evs.iter().any(|e| e.call < g2.5 && e.ret > g1.4 && match (&e.op, &e.res) {
            (TOp::Finish { tx } | TOp::Abort { tx }, _) => *tx == g1.0,
            (TOp::Timeouts | TOp::Orphans, _) => true,
            (TOp::HandlePrepare { tx, .. }, TRes::Voted(VoteKind::Conflict(_))) => *tx == g1.0,
            _ => false,
        })
    };
    for (i, g1) in grants.iter().enumerate() {
        for g2 in &grants[i + 1..] {
            if g1.0 == g2.0 {
                continue;
            }
            // selftest corruption: every two key sets are taken to collide
            if !selftest() && !g1.3.iter().any(|k| g2.3.contains(k)) {
                continue;
            }
            if !released_before(g1, g2) && !released_before(g2, g1) {
                return (outcome, Some(format!("c12:coord:granted-while-held|{} was granted {:?} and {} was granted {:?} with no release in between; history {:?}", lab(g1.0 as usize), g1.3, lab(g2.0 as usize), g2.3, show())));
            }
        }
    }
    // transactions with a prepare that did not return before their finish began
    let late: Vec<u64> = (0..n).filter(|t| finish_call[*t].is_some_and(|fc| evs.iter().any(|e| matches!(&e.op, TOp::HandlePrepare { tx, .. } if *tx as usize == *t) && e.ret >= fc))).map(|t| c.ids[t]).collect();
    if let Err((s, m)) = check_graph_obs_except(g, &c.ids, &late) {
        let m = c.ids.iter().enumerate().fold(m, |m, (i, id)| m.replace(&id.to_string(), &lab(i)));
        return (outcome, Some(format!("{}|{m}; history {:?}", s.replace("c12:", "c12:coord:"), show())));
    }
    for t in 0..n {
        let Some(fc) = finish_call[t] else { continue };
        let all_prepares_before = evs.iter().all(|e| !matches!(&e.op, TOp::HandlePrepare { tx, .. } if *tx as usize == t) || e.ret < fc);
        if all_prepares_before {
            if let Err((s, m)) = absent_from_graph(g, c.ids[t], &c.ids) {
                let m = c.ids.iter().enumerate().fold(m, |m, (i, id)| m.replace(&id.to_string(), &lab(i)));
                return (outcome, Some(format!("{}|{m}; history {:?}", s.replace("c12:graph:", "c12:coord:wait-graph:"), show())));
            }
        }
    }
    (outcome, None)
}
fn mk_co(p: &Program) -> Exec {
    env::clock_reset();
    let (txs, pre) = (p.txs.clone(), p.pre.clone());
    let ctx = on_fresh_thread(move || {
        let co = new_coordinator();
        // generate_tx_id keeps a process-wide same-millisecond counter: give every id its own millisecond
        let _ = tensor_chain::generate_tx_id();
        let ids: Vec<u64> = txs
            .iter()
            .map(|parts| {
                env::clock_advance_ms(1);
                co.begin(&"n1".to_string(), parts).expect("begin").tx_id
            })
            .collect();
        let ctx = Arc::new(CoCtx { co, ids, flight: Mutex::new(BTreeMap::new()), hist: Mutex::new(vec![]) });
        for (i, op) in pre.iter().enumerate() {
            let res = co_exec(&ctx, op);
            let base = -1000 + 2 * i as i64;
            ctx.hist.lock().unwrap().push(Ev { thread: 99, op: op.clone(), call: base, ret: base + 1, res });
        }
        ctx
    });
    env::clock_advance_ms(p.pre_advance);
    let mut bodies: Vec<Body> = vec![];
    for (t, ops) in p.threads.iter().enumerate() {
        let (ctx, ops) = (ctx.clone(), ops.clone());
        bodies.push(Box::new(move || {
            for op in &ops {
                let call = vsched::stamp() as i64;
                let res = co_exec(&ctx, op);
                let ret = vsched::stamp() as i64;
                ctx.hist.lock().unwrap().push(Ev { thread: t, op: op.clone(), call, ret, res });
            }
        }));
    }
    let check = Box::new(move |_r: &RunResult| {
        let evs = ctx.hist.lock().unwrap().clone();
        let (outcome, violation) = check_co(&ctx, &evs);
        Verdict { outcome, violation }
    });
    (bodies, check)
}
fn mk_exec(p: &Program) -> Exec {
    if p.level == "lm" {
        mk_lm(p)
    } else {
        mk_co(p)
    }
}

fn programs(thorough: bool) -> Vec<Program> {
    let lm = |name: &str, pre: Vec<TOp>, threads: Vec<Vec<TOp>>| Program { name: name.into(), level: "lm".into(), txs: vec![], pre, pre_advance: 0, threads, max_bound: 9 };
    let co = |name: &str, txs: Vec<Vec<usize>>, pre: Vec<TOp>, pre_advance: i64, threads: Vec<Vec<TOp>>| Program { name: name.into(), level: "co".into(), txs, pre, pre_advance, threads, max_bound: 9 };
    let lock = |tx, ks| TOp::Lock { tx, ks };
    let lwt = |tx, ks| TOp::LockWT { tx, ks };
    let relh = |tx, idx| TOp::RelH { tx, idx };
    let hp = |tx, shard, ks| TOp::HandlePrepare { tx, shard, ks };
    let vote = |tx, shard| TOp::Vote { tx, shard };
    let fin = |tx| TOp::Finish { tx };
    let mut v = vec![
        lm("lm: {a,b} || {b,a}, each released by handle", vec![], vec![vec![lwt(1, 2), relh(1, 0)], vec![lwt(2, 3), relh(2, 0)]]),
        lm("lm: a then b || b then a (wait-for cycle)", vec![], vec![vec![lwt(1, 0), lwt(1, 1)], vec![lwt(2, 1), lwt(2, 0)]]),
        lm("lm: try_lock+release || try_lock+lock_holder", vec![], vec![vec![lock(1, 0), TOp::Release { tx: 1 }], vec![lock(2, 0), TOp::Holder(0)]]),
        lm("lm: waiter retries || holder releases", vec![lock(1, 0)], vec![vec![lwt(2, 0), lwt(2, 0)], vec![relh(1, 0)]]),
        lm("lm: expiry sweep || contender", vec![lock(1, 0)], vec![vec![TOp::Advance(1200), TOp::CleanupWC], vec![lwt(2, 0), TOp::Holder(0)]]),
        lm("lm: holder with two handles releases || waiter on both keys", vec![lwt(1, 0), lwt(1, 1)], vec![vec![relh(1, 0), relh(1, 1)], vec![lwt(2, 2), lwt(2, 1)]]),
        lm("lm: 3 threads, two holders release || one waiter", vec![lock(1, 0), lock(2, 1)], vec![vec![lwt(3, 2)], vec![relh(1, 0)], vec![relh(2, 0)]]),
        lm("lm: 3 threads contend for one key", vec![], vec![vec![lock(1, 0)], vec![lwt(2, 0)], vec![lock(3, 0), TOp::Holder(0)]]),
        co("co: two single-shard transactions on one key", vec![vec![0], vec![0]], vec![], 0, vec![vec![hp(0, 0, 0), vote(0, 0), fin(0)], vec![hp(1, 0, 0), vote(1, 0), fin(1)]]),
        co("co: winner stays prepared, loser aborts", vec![vec![0], vec![0]], vec![], 0, vec![vec![hp(0, 0, 0), vote(0, 0)], vec![hp(1, 0, 0), vote(1, 0), fin(1)]]),
        co("co: timeout sweep || prepare whose vote is in flight", vec![vec![0], vec![0]], vec![], TX_TIMEOUT_STEP_MS, vec![vec![hp(1, 0, 0), vote(1, 0), fin(1)], vec![TOp::Timeouts]]),
        co("co: abort || delivery of the second shard's vote", vec![vec![0, 1]], vec![hp(0, 0, 0), vote(0, 0), hp(0, 1, 1)], 0, vec![vec![vote(0, 1)], vec![TOp::Abort { tx: 0 }]]),
        co("co: commit || orphan sweep", vec![vec![0]], vec![hp(0, 0, 0), vote(0, 0)], 0, vec![vec![fin(0)], vec![TOp::Orphans, TOp::Holder(0)]]),
        co("co: timeout sweep || orphan sweep", vec![vec![0]], vec![hp(0, 0, 0), vote(0, 0)], TX_TIMEOUT_STEP_MS, vec![vec![TOp::Timeouts], vec![TOp::Orphans, TOp::Holder(0)]]),
        co("co: prepare || orphan sweep", vec![vec![0], vec![0]], vec![hp(1, 0, 1), vote(1, 0)], 0, vec![vec![hp(0, 0, 0), vote(0, 0)], vec![TOp::Orphans, TOp::Holder(0)]]),
        co("co: cross-shard opposite order", vec![vec![0, 1], vec![0, 1]], vec![], 0, vec![vec![hp(0, 0, 0), hp(0, 1, 1), vote(0, 0), vote(0, 1), fin(0)], vec![hp(1, 0, 1), hp(1, 1, 0), vote(1, 0), vote(1, 1), fin(1)]]),
    ];
    if thorough {
        v.push(lm("lm: expiry takeover || owner refreshes", vec![lock(1, 0)], vec![vec![TOp::Advance(1200), lwt(2, 0)], vec![lwt(1, 0), TOp::Holder(0)]]));
        v.push(lm("lm: 3 threads, wait-for ring a,b,a", vec![], vec![vec![lwt(1, 0), lwt(1, 1)], vec![lwt(2, 1), lwt(2, 0)], vec![lwt(3, 2)]]));
        let mut big = co("co: 3 single-shard transactions on one key", vec![vec![0], vec![0], vec![0]], vec![], 0, vec![vec![hp(0, 0, 0), vote(0, 0), fin(0)], vec![hp(1, 0, 0), vote(1, 0), fin(1)], vec![hp(2, 0, 0), vote(2, 0), fin(2)]]);
        big.max_bound = 2; // 172 698 schedules at bound 3: too slow on a shared machine
        v.push(big);
        v.push(co("co: two transactions || timeout sweep (3 threads)", vec![vec![0], vec![0]], vec![], TX_TIMEOUT_STEP_MS, vec![vec![hp(0, 0, 0), vote(0, 0)], vec![hp(1, 0, 0), vote(1, 0)], vec![TOp::Timeouts]]));
    }
    v
}

#[derive(Default, Serialize, Deserialize)]
struct WStats {
    programs: u64,
    executions: u64,
    sched_points: u64,
    max_points: usize,
    by_preemptions: BTreeMap<usize, u64>,
    distinct_outcomes: u64,
    single_outcome_programs: Vec<String>,
    per_program: Vec<Value>,
    violations: Vec<nvc::report::ViolationRec>,
    violation_total: u64,
    sample: Option<Value>,
    machinery: Option<String>,
}
fn op_kinds(p: &Program) -> String {
    let kinds: BTreeSet<&str> = p.threads.iter().flatten().map(|o| match o {
        TOp::Lock { .. } => "try_lock",
        TOp::LockWT { .. } => "try_lock_with_wait_tracking",
        TOp::Release { .. } => "release",
        TOp::RelH { .. } => "release_by_handle",
        TOp::CleanupWC => "cleanup_expired",
        TOp::Advance(_) | TOp::Holder(_) => "",
        TOp::HandlePrepare { .. } => "handle_prepare",
        TOp::Vote { .. } => "record_vote",
        TOp::Finish { .. } => "commit/abort",
        TOp::Abort { .. } => "abort",
        TOp::Timeouts => "cleanup_timeouts",
        TOp::Orphans => "release_orphaned_locks",
    }).filter(|s| !s.is_empty()).collect();
    kinds.into_iter().collect::<Vec<_>>().join("+")
}
fn explore_program(p: &Program, bound: usize, st: &mut WStats) {
    let bound = bound.min(p.max_bound);
    let stats = vsched::explore(&ExploreCfg { bound, part: (0, 1), max_execs: 4_000_000 }, || mk_exec(p));
    st.programs += 1;
    st.executions += stats.executions;
    st.sched_points += stats.sched_points;
    st.max_points = st.max_points.max(stats.max_points);
    for (k, v) in &stats.by_preemptions {
        *st.by_preemptions.entry(*k).or_default() += v;
    }
    st.distinct_outcomes += stats.outcomes.len() as u64;
    if stats.outcomes.len() < 2 {
        st.single_outcome_programs.push(p.name.clone());
    }
    st.per_program.push(json!({"program": p.name, "preemption_bound": bound, "schedules": stats.executions, "distinct_outcomes": stats.outcomes.len(), "max_scheduling_points": stats.max_points, "violating_schedules": stats.violation_count, "deadlocked_schedules": stats.deadlocks}));
    if let Some(m) = stats.machinery {
        st.machinery.get_or_insert(format!("{}: {m}", p.name));
    }
    if stats.capped {
        st.machinery.get_or_insert(format!("{}: execution cap hit", p.name));
    }
    st.violation_total += stats.violation_count;
    for v in stats.violations {
        let (sig, msg) = v.message.split_once('|').map_or(("c12:conc:thread-failure".to_string(), v.message.clone()), |(a, b)| (a.to_string(), b.to_string()));
        let sig = if v.message.starts_with("deadlock") {
            format!("c12:conc:deadlock:{}", op_kinds(p))
        } else if v.message.starts_with("panic") {
            format!("c12:conc:panic:{}", op_kinds(p))
        } else {
            sig
        };
        if st.violations.iter().filter(|x| x.signature == sig).count() < 3 {
            st.violations.push(nvc::report::ViolationRec { signature: sig, message: format!("{}: {msg} (schedule {:?}, {} preemptions)", p.name, v.threads, v.preemptions), replay: json!({"part": "T", "program": p, "bound": bound, "choices": v.choices, "thread_schedule": v.threads}) });
        }
    }
    if st.sample.is_none() {
        st.sample = Some(json!({"part": "T", "program": p, "executions": stats.executions, "distinct_outcomes": stats.outcomes.len(), "first_schedule": stats.sample_schedule}));
    }
}
fn worker(i: usize, n: usize, thorough: bool) {
    vsched::quiet_panics();
    vsched::set_thread_init(|t| env::set_thread_seed(t as u64 + 1));
    let bound = if thorough { 3 } else { 2 };
    let mut st = WStats::default();
    for (idx, p) in programs(thorough).iter().enumerate() {
        if idx % n != i {
            continue;
        }
        explore_program(p, bound, &mut st);
    }
    par::emit_result(&st);
}

// ------------------------------------------------------------------------------------------------
// replay of one stored case
// ------------------------------------------------------------------------------------------------
fn replay(rep: &mut Report, path: &str) {
    let body: Value = serde_json::from_str(&std::fs::read_to_string(path).expect("replay file")).expect("replay json");
    let r = body.get("replay").cloned().unwrap_or(body);
    match r["part"].as_str().unwrap_or("") {
        "D" => {
            let n = r["n"].as_u64().unwrap() as usize;
            let edges: Vec<(usize, usize)> = serde_json::from_value(r["edges_in_insertion_order"].clone()).unwrap();
            let mut out = DOut::default();
            check_detector_case(n, &edges, &mut out);
            for (s, m, j) in out.viol {
                rep.violation(s, m, j);
            }
        }
        "S" => {
            let ops: Vec<SOp> = serde_json::from_value(r["ops"].clone()).unwrap();
            if let (_, Err((s, m))) = s_replay(&ops) {
                rep.violation(s, m, r.clone());
            }
        }
        "G" => {
            let ops: Vec<GOp> = serde_json::from_value(r["ops"].clone()).unwrap();
            if let (_, Err((s, m))) = g_replay(r["n"].as_u64().unwrap() as usize, r["max_edges_per_tx"].as_u64().unwrap() as usize, &ops) {
                rep.violation(s, m, r.clone());
            }
        }
        "W" => {
            w_prepare();
            let ops: Vec<KOp> = serde_json::from_value(r["ops"].clone()).unwrap();
            let mut run = w_run(&ops, r["wal_cap_bytes"].as_u64().unwrap());
            let verdict = match run.verdict.clone() {
                Err(e) => Err(e),
                Ok(_) => w_epilogue(&mut run.st).map(|_| ()),
            };
            if let Err((s, m)) = verdict {
                rep.violation(s, m, r.clone());
            }
            let _ = std::fs::remove_dir_all(w_dir());
        }
        "K" => {
            let ops: Vec<KOp> = serde_json::from_value(r["ops"].clone()).unwrap();
            let mut st = k_fresh();
            for op in &ops {
                if let Err((s, m)) = k_apply(&mut st, op) {
                    rep.violation(s, m, r.clone());
                    break;
                }
            }
        }
        "T" => {
            vsched::quiet_panics();
            vsched::set_thread_init(|t| env::set_thread_seed(t as u64 + 1));
            let p: Program = serde_json::from_value(r["program"].clone()).unwrap();
            let choices: Vec<usize> = serde_json::from_value(r["choices"].clone()).unwrap();
            let (bodies, check) = mk_exec(&p);
            let run = vsched::run(&choices, bodies);
            if run.deadlock {
                rep.violation(format!("c12:conc:deadlock:{}", op_kinds(&p)), format!("deadlock under schedule {:?}", run.thread_schedule()), r.clone());
            } else if let Some((t, m)) = run.panics.first() {
                rep.violation(format!("c12:conc:panic:{}", op_kinds(&p)), format!("thread {t}: {m}"), r.clone());
            } else if let Some(v) = check(&run).violation {
                let (s, m) = v.split_once('|').map_or(("c12:conc".to_string(), v.clone()), |(a, b)| (a.to_string(), b.to_string()));
                rep.violation(s, m, r.clone());
            }
        }
        other => rep.machinery(format!("unknown replay part {other:?}")),
    }
    rep.sample(json!({"replayed": path}));
}

fn main() {
    env::require();
    env::clock_freeze(BASE_S);
    let args = nvc::Args::parse();
    if args.rest.iter().any(|a| a == "--selftest") {
        SELFTEST.store(true, Ordering::Relaxed);
    }
    if let Some((i, n)) = args.worker {
        worker(i, n, args.thorough());
        return;
    }
    let mut rep = Report::new("C12", "model_checking");
    if let Some(path) = rep.args.replay.clone() {
        replay(&mut rep, &path);
        rep.finish();
    }
    let thorough = rep.thorough();
    let bound = if thorough { 3 } else { 2 };
    let (s_depth, k_depth, w_depth) = if thorough { (6, 6, 5) } else { (5, 5, 4) };
    // G: (transactions, max_edges_per_tx, depth)
    let g_cfgs: Vec<(usize, usize, usize)> = if thorough { vec![(3, 50, 12), (3, 1, 12), (4, 50, 5), (4, 2, 5)] } else { vec![(3, 50, 6), (3, 1, 6), (4, 50, 4), (4, 2, 4)] };
    let max5 = if thorough { 20 } else { 6 };
    rep.rule(&format!(
        "D: every digraph without self-loops on 2..4 transactions and every one on 5 transactions with <= {max5} edges (20 = all 2^20), each built through add_wait in canonical and reversed insertion order (+ rings / paths / two rings with every single chord on 6-8 transactions, not exhaustive): detect_cycles non-empty <=> transitive closure has a cycle, every reported cycle is a directed cycle, would_create_cycle <=> reachability for every ordered pair, DeadlockDetector::detect non-empty <=> cyclic and victim in its cycle for 4 policies. \
         G: BFS over every sequence of WaitForGraph mutations {{add_wait (every ordered pair, + self-waits), remove_wait (every ordered pair), remove_transaction, clear, clock+600ms, cleanup_stale_edges(1000ms)}} on the graphs of 4 real DeadlockDetectors (one per victim policy), for (transactions, max_edges_per_tx, depth) in {g_cfgs:?}, dedup on everything the public API shows (edges, reverse edges, wait-start age/order, priorities, counts); after every step waiting_for = waiting_on = edge_count = the edge set recorded by the calls (self-wait ignored, edge beyond max_edges_per_tx dropped, remove_wait removes one edge, remove_transaction/cleanup_stale_edges every edge of the transaction, clear all), detect_cycles/would_create_cycle/detect/select_victim against the transitive closure of that set. \
         S: BFS over every sequence of <= {s_depth} operations of {{try_lock, try_lock_with_wait_tracking (3 txs x key sets a, b, ab), release, release_by_handle[_with_wait_cleanup] (latest/previous handle), cleanup_expired[_with_wait_cleanup], clock+600ms (timeout 1000ms), to_serializable->bitcode->from_serializable, and on the shared graph add_wait / remove_wait (every ordered pair), remove_transaction, clear, cleanup_stale_edges(1000ms)}} replayed on a fresh real LockManager+WaitForGraph (thorough: additionally the lock-manager calls alone one level deeper), dedup on the real state modulo handle renaming/time shift; after every step the sequential lock table, and after a graph call the recorded edges = set algebra on the edges before it. \
         K: every sequence of <= {k_depth} coordinator operations {{handle_prepare, record_vote of the in-flight vote, commit, abort, force_resolve(commit|abort), clock+6s & cleanup_timeouts, release_orphaned_locks}} on 2 transactions (A: shards 0,1; B: shard 0) and keys a,b. \
         W: the same on a coordinator built .with_wal(TxWal size-capped, auto_rotate off) plus complete_commit/complete_abort: every sequence of <= {w_depth} operations without fault, and for every record the last operation of such a sequence appends (found by parsing the WAL file) the cap set so that exactly this append is the first to fail, once with every later append failing too (cap = bytes before the record) and once with only appends of this size and larger failing (cap = record end - 1), followed by every continuation up to the depth under the same cap. After every call, whatever it returned: every lock and every wait-for edge belongs to a transaction coordinator.get() still knows (a failed commit/abort may leave the transaction pending with its locks), a successful finish leaves nothing of the transaction; at the end of every run truncate_wal() and the failed call again (complete_commit if left Committing, otherwise abort) must succeed and leave nothing. \
         T: for each program (2-3 threads on one LockManager+WaitForGraph or one DistributedTxCoordinator) every schedule with <= {bound} preemptions (scheduling point = every parking_lot lock acquisition); LockManager level: brute-force linearizability against the sequential lock table + quiescent state; coordinator level: a finished transaction owns no key it was granted before finishing and is neither waiter nor holder in the wait-for graph, no grant while provably held, edges/reverse_edges mirror, detect_cycles <=> recorded edges, no deadlock. non-trivial = cyclic graphs (D, G) + distinct sequential states (S) + distinct end states (K, W) + schedules with >= 1 preemption (T)"
    ));
    rep.assume("interleavings at lock-acquisition granularity (all locks on the driven paths are parking_lot via sync_compat: LockManager.locks/tx_locks, WaitForGraph.*, coordinator pending/pending_aborts/abort_states; no std::sync, tokio::sync or Condvar); the LOCK_COUNTER and stats atomics are not scheduling points; weak memory orderings are not modelled");
    rep.assume("a prepare that starts after (or overlaps) the operation finishing its transaction is outside the statement: only locks granted by a prepare that returned before the finishing call began must be gone");
    rep.assume("expiry is never tested on the boundary (age == timeout); coordinator parts stay below the 30 s lock timeout");
    rep.assume("G/S: which transactions cleanup_stale_edges must drop is taken from the graph's own get_wait_start before the call (the statement does not define wait-start bookkeeping); states are merged when the public API cannot tell them apart (empty per-transaction sets left in the private maps are only visible through is_empty/transaction_count)");
    rep.assume("W: the only WAL fault is the size cap (WalError::SizeLimitExceeded before anything is written; no torn record, no fsync failure, files on tmpfs); the two begin records always fit; record sizes are the same in every run (checked: a fault plan that does not hit its append is a machinery failure)");

    // ---- T runs in worker processes that mostly wait for each other's scheduling tokens: start them
    // now and collect the results after the sequential parts
    let n_progs = programs(thorough).len();
    let t_workers = std::thread::spawn(move || par::spawn_workers::<WStats>(par::worker_count().min(n_progs), &[]));
    // ---- D
    let t0 = env::real_now_s();
    let lap = |what: &str| eprintln!("[c12] {what} done at {:.1}s", env::real_now_s() - t0);
    let mut d = DOut::default();
    let max_edges_5 = if thorough { 20 } else { 6 };
    for n in 2..=5usize {
        d = d.merge(part_d_exhaustive(n, if n == 5 { max_edges_5 } else { 20 }));
    }
    let small_cases = d.cases;
    d = d.merge(part_d_large());
    for (s, m, j) in &d.viol {
        rep.violation(s.clone(), m.clone(), j.clone());
    }
    rep.part("D", json!({"graphs_x_orders_up_to_5_txs": small_cases, "max_edges_on_5_txs": max_edges_5, "graphs_x_orders_6_to_8_txs_not_exhaustive": d.cases - small_cases, "cyclic": d.cyclic, "acyclic": d.acyclic, "oracle_comparisons": d.evals, "add_wait_calls": d.add_waits, "distinct_(policy,victim)_pairs": d.distinct_victims.len(), "violating_comparisons": d.viol_total}));
    rep.sample(json!({"part": "D", "n": 3, "edges_in_insertion_order": [[0, 1], [1, 2], [2, 0]], "note": "3-ring: detect_cycles = one cycle of length 3, victim inside for all policies"}));
    if d.cyclic == 0 || d.acyclic == 0 || d.distinct_victims.len() < 8 {
        rep.machinery("vacuous: detector part saw no cyclic / no acyclic graphs or too few victims");
    }
    lap("D");
    // ---- G
    let mut g_states = 0u64;
    let mut g_transitions = 0u64;
    let mut g_cyclic = 0u64;
    let mut g_viol_total = 0u64;
    let mut g_viol: Vec<Viol> = vec![];
    let mut g_parts = vec![];
    for (n, max_edges, depth) in &g_cfgs {
        let g = part_g(*n, *max_edges, *depth);
        for (sig, m, j) in &g.violations {
            rep.violation(sig.clone(), m.clone(), j.clone());
        }
        g_parts.push(json!({"transactions": n, "max_edges_per_tx": max_edges, "depth": depth, "alphabet": g_alphabet(*n).len(), "distinct_states": g.states, "cyclic_states": g.cyclic_states, "new_states_per_level": g.per_level, "transitions": g.transitions, "transitions_by_call": g.by_call, "edges_removed_by_transitions": g.edges_dropped_by_calls, "violating_transitions": g.viol_total}));
        if g.states < 100 || g.cyclic_states == 0 || g.edges_dropped_by_calls == 0 || g.by_call.get("remove_wait").is_none_or(|c| *c == 0) {
            rep.machinery(format!("vacuous: wait-graph sequence part (n={n}, max_edges={max_edges})"));
        }
        if g_states == 0 {
            rep.sample(json!({"part": "G", "n": n, "max_edges_per_tx": max_edges, "deepest_new_state_history": g.deepest}));
        }
        g_states += g.states;
        g_transitions += g.transitions;
        g_cyclic += g.cyclic_states;
        g_viol_total += g.viol_total;
        g_viol.extend(g.violations);
    }
    rep.part("G", json!({"configurations": g_parts, "distinct_states": g_states, "transitions": g_transitions, "violating_transitions": g_viol_total}));
    lap("G");
    // ---- S
    let mut s = part_s(s_depth, true);
    lap("S");
    for (sig, m, j) in &s.violations {
        rep.violation(sig.clone(), m.clone(), j.clone());
    }
    if thorough {
        // one level deeper on the lock-manager calls alone
        let s2 = part_s(s_depth + 1, false);
        lap("S (lock-manager calls only)");
        for (sig, m, j) in &s2.violations {
            rep.violation(sig.clone(), m.clone(), j.clone());
        }
        rep.part("S_lock_manager_calls_only", json!({"depth": s_depth + 1, "alphabet": s_alphabet(false).len(), "distinct_states": s2.states, "new_states_per_level": s2.per_level, "transitions": s2.transitions, "transitions_granting": s2.grants, "transitions_refusing": s2.refusals, "transactions_expired_by_cleanup_transitions": s2.expiries, "violating_transitions": s2.viol_total}));
        s.states += s2.states;
        s.transitions += s2.transitions;
        s.viol_total += s2.viol_total;
        s.violations.extend(s2.violations);
    }
    rep.part("S", json!({"depth": s_depth, "alphabet": s_alphabet(true).len(), "distinct_states": s.states, "new_states_per_level": s.per_level, "transitions": s.transitions, "transitions_granting": s.grants, "transitions_refusing": s.refusals, "transactions_expired_by_cleanup_transitions": s.expiries, "states_with_stale_reverse_index_entries(info)": s.stale_index_observations, "violating_transitions": s.viol_total}));
    rep.sample(json!({"part": "S", "deepest_new_state_history": s.deepest}));
    if s.states < 200 || s.refusals == 0 || s.expiries == 0 {
        rep.machinery("vacuous: sequential lock-table part reached too few states / no refusal / no expiry");
    }
    // ---- K
    let k = part_k(k_depth);
    lap("K");
    for (sig, m, j) in &k.violations {
        rep.violation(sig.clone(), m.clone(), j.clone());
    }
    rep.part("K", json!({"depth": k_depth, "alphabet": k_alphabet().len(), "sequences": k.sequences, "steps_replayed": k.steps, "distinct_end_states": k.distinct_end_states.len(), "sequences_ending_in_a_yes_vote": k.yes, "sequences_ending_in_a_conflict_vote": k.conflicts, "conflict_votes_without_reference_holder(info)": k.spurious_refusals, "sequences_ending_in_a_finish": k.finishes, "violating_sequences_(not_extended)": k.viol_total, "violating_sequences_by_signature": k.by_signature}));
    rep.sample(json!({"part": "K", "ops": k.sample}));
    if k.sequences < 1000 || k.conflicts == 0 || k.finishes == 0 {
        rep.machinery("vacuous: coordinator sequence part");
    }
    // ---- W
    let w = part_w(w_depth);
    lap("W");
    for (sig, m, j) in &w.violations {
        rep.violation(sig.clone(), m.clone(), j.clone());
    }
    rep.part("W", json!({"depth": w_depth, "alphabet": w_alphabet().len(), "fault_free_sequences_with_wal": w.fault_free_sequences, "runs_with_a_failing_append": w.faulty_runs, "steps_replayed": w.steps, "fault_plans_by_first_failing_append_(call#record:kind)": w.first_fault_at, "finishing_calls_succeeding_fault_free_and_failing_on_the_wal": w.failed_finishing_calls, "retried_calls_after_truncate_wal": w.retried_calls, "runs_ending_with_a_forgotten_unfinished_tx_that_owns_nothing(info)": w.forgotten_unfinished, "fault_plans_not_aligned_with_the_fault_free_run": w.misaligned, "distinct_end_states": w.distinct_end_states.len(), "violating_runs_(not_extended)": w.viol_total, "violating_runs_by_signature": w.by_signature}));
    if let Some(x) = &w.sample {
        rep.sample(x.clone());
    }
    if w.misaligned > 0 {
        rep.machinery(format!("part W: {} fault plans did not hit the planned append (record sizes differ between runs)", w.misaligned));
    }
    let hit = |k: &str| w.first_fault_at.keys().any(|x| x.starts_with(k));
    if !selftest() && (w.faulty_runs < 1000 || w.failed_finishing_calls == 0 || !["abort#1", "abort#2", "commit#1", "commit#2", "commit#3", "record_vote#1", "record_vote#2"].iter().all(|k| hit(k))) {
        rep.machinery(format!("vacuous: WAL fault part (appends hit: {:?})", w.first_fault_at.keys().collect::<Vec<_>>()));
    }
    // ---- T
    let results: Vec<WStats> = t_workers.join().expect("part T workers");
    lap("T");
    let mut t = WStats::default();
    let mut t_sigs: Vec<(String, String)> = vec![];
    for w in results {
        t.programs += w.programs;
        t.executions += w.executions;
        t.sched_points += w.sched_points;
        t.max_points = t.max_points.max(w.max_points);
        for (k, v) in w.by_preemptions {
            *t.by_preemptions.entry(k).or_default() += v;
        }
        t.distinct_outcomes += w.distinct_outcomes;
        t.single_outcome_programs.extend(w.single_outcome_programs);
        t.per_program.extend(w.per_program);
        t.violation_total += w.violation_total;
        for v in w.violations {
            t_sigs.push((v.signature.clone(), v.replay["program"]["level"].as_str().unwrap_or("").to_string()));
            rep.violation(v.signature, v.message, v.replay);
        }
        if t.sample.is_none() {
            t.sample = w.sample;
        }
        if let Some(m) = w.machinery {
            rep.machinery(m);
        }
    }
    let nontrivial: u64 = t.by_preemptions.iter().filter(|(k, _)| **k > 0).map(|(_, v)| *v).sum();
    let w_runs = w.fault_free_sequences + w.faulty_runs;
    rep.add("states", d.cases + g_states + s.states + k.sequences + w_runs + t.executions);
    rep.add("transitions", d.add_waits + g_transitions + s.transitions + k.steps + w.steps + t.sched_points);
    rep.add("traces_validated_against_impl", d.cases + g_transitions + s.transitions + k.sequences + w_runs + t.executions);
    rep.add("evaluations", d.evals + g_transitions + s.transitions + k.sequences + w_runs + t.executions);
    rep.add("distinct_nontrivial", d.cyclic + g_cyclic + s.states + k.distinct_end_states.len() as u64 + w.distinct_end_states.len() as u64 + nontrivial);
    t.per_program.sort_by_key(|v| v["program"].as_str().unwrap_or("").to_string());
    rep.part("T", json!({"programs": t.programs, "preemption_bound": bound, "schedules_executed": t.executions, "scheduling_points": t.sched_points, "max_points_per_execution": t.max_points, "schedules_by_preemptions": t.by_preemptions, "distinct_outcomes_summed_over_programs": t.distinct_outcomes, "programs_with_a_single_outcome": t.single_outcome_programs, "violating_schedules": t.violation_total, "per_program": t.per_program}));
    if let Some(x) = t.sample {
        rep.sample(x);
    }
    rep.set("violating_cases_by_part", json!({"D": d.viol_total, "G": g_viol_total, "S": s.viol_total, "K": k.viol_total, "W": w.viol_total, "T": t.violation_total}));
    if !t.single_outcome_programs.is_empty() {
        rep.machinery(format!("vacuous: programs with a single outcome (nothing collided): {:?}", t.single_outcome_programs));
    }
    if selftest() {
        // the corrupted references must alarm in every part; no evidence is written
        let hits = [
            ("D", "c12:detector:", d.viol.iter().filter(|v| v.0.starts_with("c12:detector:")).count()),
            ("G", "c12:detector:", g_viol.iter().filter(|v| v.0.starts_with("c12:detector:")).count()),
            ("S", "c12:table:", s.violations.iter().filter(|v| v.0.starts_with("c12:table:")).count()),
            ("K", "c12:coord:granted-while-held", k.violations.iter().filter(|v| v.0.starts_with("c12:coord:granted-while-held")).count()),
            ("W", "c12:coord:granted-while-held", w.violations.iter().filter(|v| v.0.starts_with("c12:coord:granted-while-held")).count()),
            ("T-lm", "c12:conc:lock-table-history-not-linearizable", t_sigs.iter().filter(|v| v.1 == "lm" && v.0.starts_with("c12:conc:lock-table-history-not-linearizable")).count()),
            ("T-co", "c12:coord:granted-while-held", t_sigs.iter().filter(|v| v.1 == "co" && v.0.starts_with("c12:coord:granted-while-held")).count()),
        ];
        let mut ok = true;
        for (part, prefix, hit) in hits {
            println!("SELFTEST part {part}: {} ({hit} artefacts with signature {prefix}*)", if hit > 0 { "alarms" } else { "SILENT" });
            ok &= hit > 0;
        }
        println!("SELFTEST total violating cases with corrupted references: {}", d.viol_total + g_viol_total + s.viol_total + k.viol_total + w.viol_total + t.violation_total);
        std::process::exit(if ok { 0 } else { 2 });
    }
    rep.finish();
}
