//! C11 — concurrent store operations behave as if executed one at a time (DESIGN §4, C11).
//! Real threads on a real TensorStore under vsched: every schedule with <= bound preemptions;
//! (a) the recorded call/return history must be linearizable w.r.t. a sequential map,
//! (b) with the WAL, the state recovered at quiescence must equal the in-memory state.
use nvc::{env, par, Report};
use serde::{Deserialize, Serialize};
use serde_json::json;
use std::collections::{BTreeMap, BTreeSet};
use std::sync::{Arc, Mutex};
use tensor_store::{ScalarValue, TensorData, TensorStore, TensorValue, WalConfig};
use vsched::{Body, ExploreCfg, RunResult, Verdict};

#[derive(Clone, Debug, PartialEq, Serialize, Deserialize)]
enum Op {
    Put(String, u32),
    Get(String),
    Del(String),
    Exists(String),
    Scan(String),
    /// scan_filter_map(prefix): keys WITH their values, in one call
    ScanVals(String),
}

/// value number n under key k; `emb:` keys carry a full-dimension vector *and* a tag field, so a
/// mixture of two writes is recognisable
fn value(key: &str, n: u32) -> TensorData {
    let mut d = TensorData::new();
    d.set("tag", TensorValue::Scalar(ScalarValue::Int(i64::from(n))));
    // (values numbered 100 and up carry no vector: an embedding key overwritten by a plain entry)
    if key.starts_with("emb:") && n < 100 {
        d.set("_embedding", TensorValue::Vector((0..384).map(|i| n as f32 + i as f32 * 0.001).collect()));
    }
    d
}
/// which write does this value come from? None = mixture / unknown
fn decode(key: &str, d: &TensorData) -> Option<u32> {
    let TensorValue::Scalar(ScalarValue::Int(t)) = d.get("tag")? else { return None };
    let n = u32::try_from(*t).ok()?;
    (*d == value(key, n)).then_some(n)
}

#[derive(Clone, Debug, PartialEq, Serialize, Deserialize)]
enum Res {
    Unit,
    Ok,
    NotFound,
    Val(u32),
    /// a value no single put wrote
    Mixture(String),
    Bool(bool),
    Keys(Vec<String>),
    /// (key, which write its value comes from; None = a mixture)
    KeyVals(Vec<(String, Option<u32>)>),
}

#[derive(Clone, Debug, Serialize, Deserialize)]
struct Ev {
    thread: usize,
    op: Op,
    call: u64,
    ret: u64,
    res: Res,
}

type Ref = BTreeMap<String, u32>;
fn apply_ref(m: &mut Ref, op: &Op) -> Res {
    match op {
        Op::Put(k, n) => {
            m.insert(k.clone(), *n);
            Res::Unit
        }
        Op::Get(k) => m.get(k).map_or(Res::NotFound, |n| Res::Val(*n)),
        Op::Del(k) => {
            if m.remove(k).is_some() {
                Res::Ok
            } else {
                Res::NotFound
            }
        }
        Op::Exists(k) => Res::Bool(m.contains_key(k)),
        Op::Scan(p) => Res::Keys(m.keys().filter(|k| k.starts_with(p.as_str())).cloned().collect()),
        Op::ScanVals(p) => Res::KeyVals(m.iter().filter(|(k, _)| k.starts_with(p.as_str())).map(|(k, n)| (k.clone(), Some(*n))).collect()),
    }
}

/// brute-force linearizability: is there a total order consistent with real time under which the
/// reference map gives every recorded result?
fn linearizable(init: &Ref, evs: &[Ev]) -> bool {
    fn rec(m: &Ref, evs: &[Ev], done: &mut Vec<bool>, left: usize) -> bool {
        if left == 0 {
            return true;
        }
        for i in 0..evs.len() {
            if done[i] {
                continue;
            }
            // i may go next only if no other pending op returned before i was called
            if (0..evs.len()).any(|j| !done[j] && j != i && evs[j].ret < evs[i].call) {
                continue;
            }
            let mut m2 = m.clone();
            if apply_ref(&mut m2, &evs[i].op) == evs[i].res {
                done[i] = true;
                if rec(&m2, evs, done, left - 1) {
                    return true;
                }
                done[i] = false;
            }
        }
        false
    }
    rec(init, evs, &mut vec![false; evs.len()], evs.len())
}

#[derive(Clone, Debug, Serialize, Deserialize)]
struct Program {
    name: String,
    /// keys present before the threads start (value 0)
    init: Vec<String>,
    threads: Vec<Vec<Op>>,
    durable: bool,
    /// the store answers get/exists through a Bloom filter
    #[serde(default)]
    bloom: bool,
}

fn do_op(s: &TensorStore, op: &Op, durable: bool) -> Res {
    match op {
        Op::Put(k, n) => {
            let r = if durable { s.put_durable(k.clone(), value(k, *n)) } else { s.put(k.clone(), value(k, *n)) };
            let _ = r;
            Res::Unit
        }
        Op::Get(k) => match s.get(k) {
            Ok(d) => decode(k, &d).map_or_else(|| Res::Mixture(format!("{:?}", d.get("tag"))), Res::Val),
            Err(_) => Res::NotFound,
        },
        Op::Del(k) => {
            let r = if durable { s.delete_durable(k) } else { s.delete(k) };
            if r.is_ok() {
                Res::Ok
            } else {
                Res::NotFound
            }
        }
        Op::Exists(k) => Res::Bool(s.exists(k)),
        Op::Scan(p) => {
            let mut v = s.scan(p);
            v.sort();
            Res::Keys(v)
        }
        Op::ScanVals(p) => {
            let mut v: Vec<(String, Option<u32>)> = s.scan_filter_map(p, |k, d| Some((k.to_string(), decode(k, d))));
            v.sort();
            Res::KeyVals(v)
        }
    }
}

fn final_state(s: &TensorStore) -> BTreeMap<String, String> {
    let mut m = BTreeMap::new();
    for k in s.scan("") {
        let v = s.get(&k).map_or("<unreadable>".to_string(), |d| decode(&k, &d).map_or("<mixture>".to_string(), |n| n.to_string()));
        m.insert(k, v);
    }
    m
}

#[derive(Default, Serialize, Deserialize)]
struct WStats {
    programs: u64,
    executions: u64,
    sched_points: u64,
    max_points: usize,
    by_preemptions: BTreeMap<usize, u64>,
    distinct_outcomes: u64,
    single_outcome_programs: Vec<String>,
    violations: Vec<nvc::report::ViolationRec>,
    violation_total: u64,
    sample: Option<serde_json::Value>,
    machinery: Option<String>,
}

fn classify(p: &Program, evs: &[Ev]) -> String {
    // what kind of history fails? (call-site level identification for known-findings)
    let kinds: BTreeSet<&str> = p.threads.iter().flatten().map(|o| match o {
        Op::Put(..) => "put",
        Op::Get(..) => "get",
        Op::Del(..) => "delete",
        Op::Exists(..) => "exists",
        Op::Scan(pre) if pre.is_empty() => "scan-all",
        Op::Scan(..) => "scan-prefix",
        Op::ScanVals(..) => "scan-with-values",
    }).collect();
    let class = p.threads.iter().flatten().find_map(|o| match o {
        Op::Put(k, _) | Op::Get(k) | Op::Del(k) | Op::Exists(k) => Some(k.split(':').next().filter(|_| k.contains(':')).unwrap_or("plain").to_string()),
        _ => None,
    }).unwrap_or_default();
    if evs.iter().any(|e| matches!(e.res, Res::Mixture(_))) {
        return format!("c11:read-returns-mixture:{class}");
    }
    let dels_ok = evs.iter().filter(|e| matches!(e.op, Op::Del(_)) && e.res == Res::Ok).count();
    let puts = evs.iter().filter(|e| matches!(e.op, Op::Put(..))).count();
    if dels_ok >= 2 && puts == 0 {
        return format!("c11:two-deletes-of-one-key-both-succeed:{class}");
    }
    format!("c11:not-linearizable:{class}:{}", kinds.into_iter().collect::<Vec<_>>().join("+"))
}

fn explore_program(p: &Program, bound: usize, dir: &str, st: &mut WStats) {
    let hist: Arc<Mutex<Vec<Ev>>> = Arc::new(Mutex::new(vec![]));
    let wal_path = format!("{dir}/c11.wal");
    let prog = p.clone();
    // Bloom-filter programs: lock releases are scheduling points too (the filter is updated with atomics only,
    // after the last unlock of the put)
    vsched::set_release_points(p.bloom);
    let stats = vsched::explore(&ExploreCfg { bound, part: (0, 1), max_execs: 3_000_000 }, || {
        hist.lock().unwrap().clear();
        let store = if prog.durable {
            let _ = std::fs::remove_file(&wal_path);
            if prog.bloom {
                Arc::new(TensorStore::open_durable_with_bloom(&wal_path, WalConfig::default(), 1000, 0.01).expect("open_durable_with_bloom"))
            } else {
                Arc::new(TensorStore::open_durable(&wal_path, WalConfig::default()).expect("open_durable"))
            }
        } else if prog.bloom {
            Arc::new(TensorStore::with_bloom_filter(1000, 0.01))
        } else {
            Arc::new(TensorStore::new())
        };
        let mut init = Ref::new();
        for k in &prog.init {
            let _ = if prog.durable { store.put_durable(k.clone(), value(k, 0)) } else { store.put(k.clone(), value(k, 0)) };
            init.insert(k.clone(), 0);
        }
        let mut bodies: Vec<Body> = vec![];
        for (t, ops) in prog.threads.iter().enumerate() {
            let (store, ops, hist, durable) = (store.clone(), ops.clone(), hist.clone(), prog.durable);
            bodies.push(Box::new(move || {
                for op in &ops {
                    let call = vsched::stamp();
                    let res = do_op(&store, op, durable);
                    let ret = vsched::stamp();
                    hist.lock().unwrap().push(Ev { thread: t, op: op.clone(), call, ret, res });
                }
            }));
        }
        let (hist2, prog2, wal2) = (hist.clone(), prog.clone(), wal_path.clone());
        let check = Box::new(move |_r: &RunResult| {
            let evs = hist2.lock().unwrap().clone();
            let fin = final_state(&store);
            let mut outcome = format!("{:?}|{:?}", evs.iter().map(|e| (e.thread, &e.res)).collect::<Vec<_>>(), fin);
            let mut violation = None;
            if !linearizable(&init, &evs) {
                // is one multi-shard scan("") the only thing that cannot be ordered?
                let scan_all_culprit = (0..evs.len()).any(|i| {
                    matches!(&evs[i].op, Op::Scan(p) if p.is_empty()) && {
                        let mut rest = evs.clone();
                        rest.remove(i);
                        linearizable(&init, &rest)
                    }
                });
                let sig = if scan_all_culprit { "c11:scan-all-not-atomic-across-shards".to_string() } else { classify(&prog2, &evs) };
                violation = Some(format!("{sig}|history not linearizable: {:?}", evs.iter().map(|e| format!("T{} {:?} [{}..{}] -> {:?}", e.thread, e.op, e.call, e.ret, e.res)).collect::<Vec<_>>()));
            } else {
                // the final state must be the one a linearization produces (reads after quiescence)
                let mut evs2 = evs.clone();
                let mut stamp = evs.iter().map(|e| e.ret).max().unwrap_or(0) + 1;
                let keys: BTreeSet<String> = prog2.threads.iter().flatten().filter_map(|o| match o { Op::Put(k, _) | Op::Get(k) | Op::Del(k) | Op::Exists(k) => Some(k.clone()), _ => None }).collect();
                for k in keys {
                    let res = match fin.get(&k) {
                        None => Res::NotFound,
                        Some(v) => v.parse().map_or(Res::Mixture(v.clone()), Res::Val),
                    };
                    evs2.push(Ev { thread: 99, op: Op::Get(k), call: stamp, ret: stamp + 1, res });
                    stamp += 2;
                }
                if !linearizable(&init, &evs2) {
                    let class = classify(&prog2, &evs2);
                    violation = Some(format!("{class}|final state {fin:?} is not the result of any linearization of {:?}", evs.iter().map(|e| format!("T{} {:?} -> {:?}", e.thread, e.op, e.res)).collect::<Vec<_>>()));
                }
            }
            if prog2.durable && violation.is_none() {
                drop(store);
                match TensorStore::recover(&wal2, &WalConfig::default(), None) {
                    Ok(rec) => {
                        let r = final_state(&rec);
                        outcome.push_str(&format!("|rec={r:?}"));
                        if r != fin {
                            violation = Some(format!("c11:durable-order-differs-from-memory-order|after quiescence memory shows {fin:?} but the WAL recovers {r:?}"));
                        }
                    }
                    Err(e) => violation = Some(format!("c11:recover-fails-after-concurrent-writes|{e}")),
                }
            }
            Verdict { outcome, violation }
        });
        (bodies, check as Box<dyn FnOnce(&RunResult) -> Verdict>)
    });
    vsched::set_release_points(false);
    st.programs += 1;
    st.executions += stats.executions;
    st.sched_points += stats.sched_points;
    st.max_points = st.max_points.max(stats.max_points);
    for (k, v) in &stats.by_preemptions {
        *st.by_preemptions.entry(*k).or_default() += v;
    }
    st.distinct_outcomes += stats.outcomes.len() as u64;
    if stats.outcomes.len() < 2 {
        st.single_outcome_programs.push(p.name.clone());
    }
    if let Some(m) = stats.machinery {
        st.machinery.get_or_insert(format!("{}: {m}", p.name));
    }
    if stats.capped {
        st.machinery.get_or_insert(format!("{}: execution cap hit", p.name));
    }
    st.violation_total += stats.violation_count;
    for v in stats.violations {
        let (sig, msg) = v.message.split_once('|').map_or(("c11:thread-failure".to_string(), v.message.clone()), |(a, b)| (a.to_string(), b.to_string()));
        let sig = if v.message.starts_with("deadlock") { "c11:deadlock".to_string() } else if v.message.starts_with("panic") { "c11:panic".to_string() } else { sig };
        if st.violations.iter().filter(|x| x.signature == sig).count() < 3 {
            st.violations.push(nvc::report::ViolationRec { signature: sig, message: format!("{}: {msg} (schedule {:?}, {} preemptions)", p.name, v.threads, v.preemptions), replay: json!({"program": p, "bound": bound, "choices": v.choices, "thread_schedule": v.threads}) });
        }
    }
    if st.sample.is_none() {
        st.sample = Some(json!({"program": p, "executions": stats.executions, "distinct_outcomes": stats.outcomes.len(), "first_schedule": stats.sample_schedule}));
    }
}

fn programs(thorough: bool) -> Vec<Program> {
    let mut v = vec![];
    let put = |k: &str, n| Op::Put(k.to_string(), n);
    let get = |k: &str| Op::Get(k.to_string());
    let del = |k: &str| Op::Del(k.to_string());
    let ex = |k: &str| Op::Exists(k.to_string());
    let scan = |p: &str| Op::Scan(p.to_string());
    // (class, key1, key2 same shard/prefix, key in another shard, prefix)
    let classes = [("plain", "pa", "pb", "qa", "p"), ("emb", "emb:a", "emb:b", "node:x", "emb:"), ("node", "node:a", "node:b", "table:t:1", "node:"), ("table", "table:t:1", "table:t:2", "pa", "table:"), ("cache", "_cache:a", "_cache:b", "pa", "_cache:")];
    for (cls, k1, k2, other, pre) in classes {
        for durable in [false, true] {
            if durable && cls == "cache" {
                continue;
            }
            let mut add = |name: &str, init: Vec<&str>, threads: Vec<Vec<Op>>| {
                v.push(Program { name: format!("{cls}{}:{name}", if durable { "+wal" } else { "" }), init: init.into_iter().map(String::from).collect(), threads, durable, bloom: name.starts_with("bloom:") });
            };
            add("put-put-get", vec![], vec![vec![put(k1, 1), get(k1)], vec![put(k1, 2), get(k1)]]);
            add("put-delete", vec![k1], vec![vec![put(k1, 1), get(k1)], vec![del(k1), ex(k1)]]);
            add("delete-delete", vec![k1], vec![vec![del(k1)], vec![del(k1)]]);
            if matches!(cls, "plain" | "node" | "table") {
                // the value-carrying scan (it walks the metadata slab only, so only these key classes)
                add("two-keys-scan-with-values", vec![k1, k2], vec![vec![put(k1, 1), put(k2, 1)], vec![Op::ScanVals(pre.to_string()), get(k2)]]);
            }
            add("put-vs-delete-of-absent-key", vec![], vec![vec![put(k1, 1)], vec![del(k1), ex(k1)]]);
            if cls == "emb" {
                add("overwrite-by-vectorless-value", vec![k1], vec![vec![put(k1, 100), get(k1)], vec![get(k1)]]);
                add("vectorless-then-vector", vec![], vec![vec![put(k1, 100), put(k1, 1)], vec![get(k1), get(k1)]]);
            }
            add("two-keys-scan", vec![], vec![vec![put(k1, 1), put(k2, 2)], vec![scan(pre), get(k2)]]);
            if !durable || thorough {
                add("3-threads", vec![], vec![vec![put(k1, 1)], vec![put(k1, 2)], vec![get(k1)]]);
                add("delete-put-vs-put-get", vec![k1], vec![vec![del(k1), put(k1, 1)], vec![put(k1, 2), get(k1)]]);
            }
            if !durable {
                add("cross-shard-scan-all", vec![], vec![vec![put(k1, 1), put(other, 2)], vec![scan(""), ex(k1)]]);
                add("exists-vs-put-delete", vec![], vec![vec![put(k1, 1), del(k1)], vec![ex(k1), get(k1)]]);
            }
            if cls == "plain" {
                // the same store behind a Bloom filter: scans list a key, so get/exists must admit it
                add("bloom:scan-then-get", vec![], vec![vec![put(k1, 1)], vec![scan(pre), ex(k1), get(k1)]]);
                add("bloom:put-delete", vec![k1], vec![vec![put(k1, 1), get(k1)], vec![del(k1), ex(k1)]]);
            }
            if thorough {
                add("overwrite-readers", vec![k1], vec![vec![put(k1, 1), put(k1, 2)], vec![get(k1), get(k1)]]);
                add("3-threads-mixed", vec![k1], vec![vec![put(k1, 1)], vec![del(k1)], vec![get(k1), ex(k1)]]);
                add("scan-vs-delete", vec![k1, k2], vec![vec![del(k1), put(k2, 3)], vec![scan(pre), scan(pre)]]);
            }
        }
    }
    v
}

fn worker(i: usize, n: usize, thorough: bool) {
    vsched::quiet_panics();
    vsched::set_thread_init(|t| env::set_thread_seed(t as u64 + 1));
    let dir = env::scratch_root();
    let bound = if thorough { 3 } else { 2 };
    let mut st = WStats::default();
    for (idx, p) in programs(thorough).iter().enumerate() {
        if idx % n != i {
            continue;
        }
        explore_program(p, bound, &dir, &mut st);
    }
    env::scratch_cleanup();
    par::emit_result(&st);
}

fn main() {
    env::require();
    let args = nvc::Args::parse();
    if let Some((i, n)) = args.worker {
        worker(i, n, args.thorough());
        return;
    }
    let mut rep = Report::new("C11", "model_checking");
    let thorough = rep.thorough();
    let bound = if thorough { 3 } else { 2 };
    rep.rule(&format!("for each program (2 threads x 2 ops or 3 threads x 1-2 ops on colliding keys of one key class: plain, emb:, node:, table:, _cache:, without and with the WAL) every schedule with <= {bound} preemptions is executed on a fresh real TensorStore (scheduling points = every parking_lot/dashmap lock acquisition); oracle: brute-force linearizability of the recorded history + final state against a sequential map; with WAL: recover() at quiescence equals memory. non-trivial = executions with >= 1 preemption"));
    rep.assume("interleavings at lock-acquisition granularity; std atomics and UnsafeCell accesses inside a lock-free segment are not scheduling points; weak memory orderings are not modelled");
    let results: Vec<WStats> = par::spawn_workers(par::worker_count(), &[]);
    let mut t = WStats::default();
    for s in results {
        t.programs += s.programs;
        t.executions += s.executions;
        t.sched_points += s.sched_points;
        t.max_points = t.max_points.max(s.max_points);
        for (k, v) in s.by_preemptions {
            *t.by_preemptions.entry(k).or_default() += v;
        }
        t.distinct_outcomes += s.distinct_outcomes;
        t.single_outcome_programs.extend(s.single_outcome_programs);
        t.violation_total += s.violation_total;
        for v in s.violations {
            rep.violation(v.signature, v.message, v.replay);
        }
        if t.sample.is_none() {
            t.sample = s.sample;
        }
        if let Some(m) = s.machinery {
            rep.machinery(m);
        }
    }
    let nontrivial: u64 = t.by_preemptions.iter().filter(|(k, _)| **k > 0).map(|(_, v)| *v).sum();
    rep.add("states", t.executions);
    rep.add("transitions", t.sched_points);
    rep.add("traces_validated_against_impl", t.executions);
    rep.add("evaluations", t.executions);
    rep.add("distinct_nontrivial", nontrivial);
    rep.part("totals", json!({"programs": t.programs, "preemption_bound": bound, "schedules_executed": t.executions, "scheduling_points": t.sched_points, "max_points_per_execution": t.max_points, "schedules_by_preemptions": t.by_preemptions, "distinct_outcomes_summed_over_programs": t.distinct_outcomes, "programs_with_a_single_outcome": t.single_outcome_programs, "violating_schedules": t.violation_total}));
    if let Some(s) = t.sample {
        rep.sample(s);
    }
    if t.distinct_outcomes < t.programs * 2 - t.programs / 2 {
        rep.machinery("vacuous: most programs have a single outcome (nothing collided)");
    }
    rep.finish();
}
