//! C05 — the graph stays structurally consistent under any operations and threads (DESIGN §4).
//! Part S: every operation sequence up to a depth on a real GraphEngine, invariant + reference
//!         edge set after every step (replay BFS, dedup on the observed graph).
//! Part T: 2-3 real threads under vsched, every schedule with <= bound preemptions, quiescent
//!         invariant + agreement with the results the calls returned.
use graph_engine::{Direction, GraphEngine, PropertyValue};
use nvc::{env, par, Report};
use rayon::prelude::*;
use serde::{Deserialize, Serialize};
use serde_json::json;
use std::collections::{BTreeMap, BTreeSet, HashMap, HashSet};
use std::sync::{Arc, Mutex};
use vsched::{Body, ExploreCfg, RunResult, Verdict};

#[derive(Clone, Debug, PartialEq, Eq, Hash, Serialize, Deserialize)]
enum Op {
    CreateNode,
    /// create_edge(from slot, to slot, directed)
    CreateEdge(u8, u8, bool),
    /// delete the k-th edge that was created
    DeleteEdge(u8),
    /// delete the node in slot k
    DeleteNode(u8),
    UpdateNode(u8),
    UpdateEdge(u8),
    /// batch_create_edges([(a -> b, directed), (b -> a, undirected)]) — the bulk construction path
    BatchEdges(u8, u8, bool),
}

#[derive(Clone, Debug, PartialEq, Eq, Hash, PartialOrd, Ord, Serialize, Deserialize)]
struct RefEdge {
    id: u64,
    from: u64,
    to: u64,
    directed: bool,
}

/// reference: the sets of existing nodes and edges
#[derive(Clone, Debug, Default, PartialEq, Eq)]
struct RefGraph {
    nodes: BTreeSet<u64>,
    edges: BTreeSet<RefEdge>,
}
impl RefGraph {
    fn out_edges(&self, n: u64) -> BTreeSet<u64> {
        self.edges.iter().filter(|e| e.from == n || (!e.directed && e.to == n)).map(|e| e.id).collect()
    }
    fn in_edges(&self, n: u64) -> BTreeSet<u64> {
        self.edges.iter().filter(|e| e.to == n || (!e.directed && e.from == n)).map(|e| e.id).collect()
    }
    fn neighbors(&self, n: u64, dir: Direction) -> BTreeSet<u64> {
        let mut ids = BTreeSet::new();
        if dir != Direction::Incoming {
            ids.extend(self.out_edges(n));
        }
        if dir != Direction::Outgoing {
            ids.extend(self.in_edges(n));
        }
        self.edges.iter().filter(|e| ids.contains(&e.id)).map(|e| if e.from == n { e.to } else { e.from }).filter(|m| *m != n).collect()
    }
}

fn props(v: i64) -> HashMap<String, PropertyValue> {
    HashMap::from([("p".to_string(), PropertyValue::Int(v))])
}

/// check the structural invariant of `g` and its agreement with `r`; `nodes_ever` = every node id
/// ever created (to probe deleted ones too)
fn check_graph(g: &GraphEngine, r: &RefGraph, nodes_ever: &[u64], edges_ever: &[u64]) -> Result<(), (String, String)> {
    let all: BTreeSet<RefEdge> = g.all_edges().into_iter().map(|e| RefEdge { id: e.id, from: e.from, to: e.to, directed: e.directed }).collect();
    if all != r.edges {
        let missing: Vec<_> = r.edges.difference(&all).collect();
        let extra: Vec<_> = all.difference(&r.edges).collect();
        return Err(("edge-set-differs".into(), format!("all_edges() differs from the edges that should exist: missing {missing:?}, unexpected {extra:?}")));
    }
    for &n in nodes_ever {
        if g.node_exists(n) != r.nodes.contains(&n) {
            return Err(("node-set-differs".into(), format!("node_exists({n}) = {} but the node should {}", g.node_exists(n), if r.nodes.contains(&n) { "exist" } else { "be gone" })));
        }
    }
    for &e in edges_ever {
        let should = r.edges.iter().any(|x| x.id == e);
        if g.get_edge(e).is_ok() != should {
            return Err(("edge-existence-differs".into(), format!("get_edge({e}) is {} but the edge should {}", if should { "Err" } else { "Ok" }, if should { "exist" } else { "be gone" })));
        }
    }
    for e in &all {
        if !g.node_exists(e.from) || !g.node_exists(e.to) {
            return Err(("dangling-edge".into(), format!("edge {e:?} exists but an endpoint does not")));
        }
    }
    for &n in &r.nodes {
        for (dir, want, name) in [(Direction::Outgoing, r.out_edges(n), "outgoing"), (Direction::Incoming, r.in_edges(n), "incoming")] {
            let got: BTreeSet<u64> = match g.edges_of(n, dir) {
                Ok(v) => v.into_iter().map(|e| e.id).collect(),
                Err(e) => return Err(("edges_of-fails".into(), format!("edges_of({n},{name}) fails: {e}"))),
            };
            if got != want {
                let kind = if want.difference(&got).next().is_some() { "adjacency-entry-missing" } else { "adjacency-entry-stale" };
                return Err((kind.into(), format!("node {n} lists {name} edges {got:?}, the existing edges imply {want:?}")));
            }
            let deg = if dir == Direction::Outgoing { g.out_degree(n) } else { g.in_degree(n) };
            if deg.as_ref().ok() != Some(&want.len()) {
                return Err(("degree-differs".into(), format!("{name} degree of node {n} is {deg:?}, the existing edges imply {} (a stale or duplicated list entry)", want.len())));
            }
        }
        for dir in [Direction::Outgoing, Direction::Incoming, Direction::Both] {
            let want = r.neighbors(n, dir);
            let got: BTreeSet<u64> = match g.neighbors(n, None, dir, None) {
                Ok(v) => v.into_iter().map(|x| x.id).collect(),
                Err(e) => return Err(("neighbors-fails".into(), format!("neighbors({n},{dir:?}) fails: {e}"))),
            };
            if got != want {
                return Err(("neighbors-differ".into(), format!("neighbors({n},{dir:?}) = {got:?}, the existing edges imply {want:?}")));
            }
        }
    }
    Ok(())
}

// ---------------------------------------------------------------- Part S
struct SeqState {
    g: GraphEngine,
    r: RefGraph,
    node_slots: Vec<u64>,
    edge_slots: Vec<u64>,
}
fn fresh() -> SeqState {
    let g = GraphEngine::new();
    let mut s = SeqState { g, r: RefGraph::default(), node_slots: vec![], edge_slots: vec![] };
    for _ in 0..2 {
        apply(&mut s, &Op::CreateNode);
    }
    s
}
/// returns false when the op is not applicable (refers to a slot that does not exist)
fn apply(s: &mut SeqState, op: &Op) -> bool {
    match op {
        Op::CreateNode => {
            if s.node_slots.len() >= 3 {
                return false;
            }
            let id = s.g.create_node("N", props(s.node_slots.len() as i64)).expect("create_node");
            s.node_slots.push(id);
            s.r.nodes.insert(id);
        }
        Op::CreateEdge(a, b, directed) => {
            let (Some(&from), Some(&to)) = (s.node_slots.get(*a as usize), s.node_slots.get(*b as usize)) else { return false };
            if s.edge_slots.len() >= 3 {
                return false;
            }
            let res = s.g.create_edge(from, to, "E", props(7), *directed);
            let should = s.r.nodes.contains(&from) && s.r.nodes.contains(&to);
            match res {
                Ok(id) => {
                    s.edge_slots.push(id);
                    if should {
                        s.r.edges.insert(RefEdge { id, from, to, directed: *directed });
                    } else {
                        s.r.edges.insert(RefEdge { id, from, to, directed: *directed }); // reported by check (dangling)
                    }
                }
                Err(_) => {
                    if should {
                        s.r.edges.insert(RefEdge { id: u64::MAX, from, to, directed: *directed }); // forces a report: creation refused
                    }
                    return !should;
                }
            }
        }
        Op::DeleteEdge(k) => {
            let Some(&id) = s.edge_slots.get(*k as usize) else { return false };
            let existed = s.r.edges.iter().any(|e| e.id == id);
            let res = s.g.delete_edge(id);
            if res.is_ok() != existed {
                s.r.edges.insert(RefEdge { id: u64::MAX - 1, from: id, to: 0, directed: existed }); // forces a report
            }
            s.r.edges.retain(|e| e.id != id);
        }
        Op::DeleteNode(k) => {
            let Some(&id) = s.node_slots.get(*k as usize) else { return false };
            let existed = s.r.nodes.contains(&id);
            let res = s.g.delete_node(id);
            if res.is_ok() != existed {
                s.r.edges.insert(RefEdge { id: u64::MAX - 2, from: id, to: 0, directed: existed });
            }
            s.r.nodes.remove(&id);
            s.r.edges.retain(|e| e.from != id && e.to != id);
        }
        Op::BatchEdges(a, b, first_directed) => {
            let (Some(&from), Some(&to)) = (s.node_slots.get(*a as usize), s.node_slots.get(*b as usize)) else { return false };
            let should = s.r.nodes.contains(&from) && s.r.nodes.contains(&to);
            let inputs = vec![graph_engine::EdgeInput::new(from, to, "E", props(7), *first_directed), graph_engine::EdgeInput::new(to, from, "E", props(8), false)];
            match s.g.batch_create_edges(inputs) {
                Ok(r) if r.created_ids.len() == 2 => {
                    s.edge_slots.extend(r.created_ids.iter().copied());
                    s.r.edges.insert(RefEdge { id: r.created_ids[0], from, to, directed: *first_directed });
                    s.r.edges.insert(RefEdge { id: r.created_ids[1], from: to, to: from, directed: false });
                }
                Ok(_) => {
                    s.r.edges.insert(RefEdge { id: u64::MAX - 3, from, to, directed: true }); // forces a report: wrong id count
                }
                Err(_) => {
                    if should {
                        s.r.edges.insert(RefEdge { id: u64::MAX, from, to, directed: *first_directed }); // forces a report: creation refused
                    }
                    return !should;
                }
            }
        }
        Op::UpdateNode(k) => {
            let Some(&id) = s.node_slots.get(*k as usize) else { return false };
            let _ = s.g.update_node(id, None, props(99));
        }
        Op::UpdateEdge(k) => {
            let Some(&id) = s.edge_slots.get(*k as usize) else { return false };
            let _ = s.g.update_edge(id, props(98));
        }
    }
    true
}
fn seq_alphabet() -> Vec<Op> {
    let mut v = vec![Op::CreateNode];
    for a in 0..3u8 {
        for b in 0..3u8 {
            v.push(Op::CreateEdge(a, b, true));
            if a <= b {
                v.push(Op::CreateEdge(a, b, false));
            }
        }
    }
    for k in 0..3u8 {
        v.push(Op::DeleteEdge(k));
    }
    for k in 0..3u8 {
        v.push(Op::DeleteNode(k));
    }
    v.push(Op::UpdateNode(0));
    v.push(Op::UpdateEdge(0));
    v.push(Op::BatchEdges(0, 1, true));
    v.push(Op::BatchEdges(1, 0, false));
    v.push(Op::BatchEdges(0, 0, true));
    v
}
fn canon(s: &SeqState) -> String {
    format!("{:?}|{:?}|{:?}|{:?}", s.r.nodes, s.r.edges, s.node_slots, s.edge_slots)
}

struct SeqOut {
    states: u64,
    transitions: u64,
    violations: Vec<(String, String, serde_json::Value)>,
    deepest: Vec<Op>,
}
fn part_s(depth: usize) -> SeqOut {
    let alpha = seq_alphabet();
    let mut seen: HashSet<String> = HashSet::new();
    seen.insert(canon(&fresh()));
    let mut frontier: Vec<Vec<Op>> = vec![vec![]];
    let mut out = SeqOut { states: 1, transitions: 0, violations: vec![], deepest: vec![] };
    for _level in 0..depth {
        // expand every frontier history by every op (replay on a fresh real engine)
        let results: Vec<(Vec<Op>, String, Option<(String, String)>)> = frontier
            .par_iter()
            .flat_map_iter(|hist| {
                let mut v = vec![];
                for op in &alpha {
                    let mut s = fresh();
                    let mut ok = true;
                    for h in hist {
                        ok &= apply(&mut s, h);
                    }
                    if !ok || !apply(&mut s, op) {
                        continue;
                    }
                    let mut h2 = hist.clone();
                    h2.push(op.clone());
                    let verdict = check_graph(&s.g, &s.r, &s.node_slots, &s.edge_slots).err();
                    v.push((h2, canon(&s), verdict));
                }
                v
            })
            .collect();
        let mut next = vec![];
        for (hist, key, verdict) in results {
            out.transitions += 1;
            if let Some((sig, msg)) = verdict {
                if out.violations.len() < 6 {
                    out.violations.push((format!("c05:seq:{sig}"), format!("after {hist:?}: {msg}"), json!({"part":"S","ops": hist})));
                }
                continue;
            }
            if seen.insert(key) {
                out.states += 1;
                out.deepest = hist.clone();
                next.push(hist);
            }
        }
        frontier = next;
    }
    out
}

// ---------------------------------------------------------------- Part L (high-degree nodes)
/// delete_node switches to a parallel clean-up at 100 incident edges: structured hubs of degree
/// around that threshold, every mixture of edge orientation, checked before and after deletion
fn part_l() -> (u64, Vec<(String, String, serde_json::Value)>) {
    let mut viol = vec![];
    let mut cases = 0u64;
    for degree in [3usize, 99, 100, 101, 130] {
        for pattern in 0..6u8 {
            for victim_is_hub in [true, false] {
                cases += 1;
                let g = GraphEngine::new();
                let mut r = RefGraph::default();
                let hub = g.create_node("H", props(0)).unwrap();
                r.nodes.insert(hub);
                let mut nodes = vec![hub];
                let mut edges = vec![];
                for i in 0..degree {
                    let leaf = g.create_node("L", props(i as i64)).unwrap();
                    r.nodes.insert(leaf);
                    nodes.push(leaf);
                    // pattern selects which orientations occur: 0 hub->leaf, 1 leaf->hub, 2 undirected hub-leaf,
                    // 3 undirected leaf-hub, 4 all four round-robin, 5 round-robin plus a self-loop and a parallel edge
                    let kind = if pattern < 4 { pattern } else { (i % 4) as u8 };
                    let (from, to, directed) = match kind {
                        0 => (hub, leaf, true),
                        1 => (leaf, hub, true),
                        2 => (hub, leaf, false),
                        _ => (leaf, hub, false),
                    };
                    let id = g.create_edge(from, to, "E", props(1), directed).unwrap();
                    r.edges.insert(RefEdge { id, from, to, directed });
                    edges.push(id);
                }
                if pattern == 5 {
                    for (from, to, directed) in [(hub, hub, true), (hub, hub, false), (nodes[1], hub, true)] {
                        let id = g.create_edge(from, to, "E", props(2), directed).unwrap();
                        r.edges.insert(RefEdge { id, from, to, directed });
                        edges.push(id);
                    }
                }
                let describe = format!("hub with {degree} leaves, orientation pattern {pattern}, delete {}", if victim_is_hub { "hub" } else { "first leaf" });
                if let Err((sig, msg)) = check_graph(&g, &r, &nodes, &edges) {
                    viol.push((format!("c05:seq:high-degree:{sig}"), format!("{describe} (before deletion): {msg}"), json!({"part":"L","degree":degree,"pattern":pattern})));
                    continue;
                }
                let victim = if victim_is_hub { hub } else { nodes[1] };
                let res = g.delete_node(victim);
                if res.is_err() {
                    viol.push(("c05:seq:high-degree:delete_node-fails".into(), format!("{describe}: {res:?}"), json!({"part":"L","degree":degree,"pattern":pattern})));
                    continue;
                }
                r.nodes.remove(&victim);
                r.edges.retain(|e| e.from != victim && e.to != victim);
                if let Err((sig, msg)) = check_graph(&g, &r, &nodes, &edges) {
                    viol.push((format!("c05:seq:high-degree:{sig}"), format!("{describe}: {msg}"), json!({"part":"L","degree":degree,"pattern":pattern,"victim_is_hub":victim_is_hub})));
                }
            }
        }
    }
    (cases, viol)
}

// ---------------------------------------------------------------- Part T
#[derive(Clone, Debug, Serialize, Deserialize)]
enum TOp {
    /// create_edge(node slot, node slot, directed)
    CreateEdge(u8, u8, bool),
    /// delete the pre-created edge k
    DeleteEdge(u8),
    DeleteNode(u8),
}
#[derive(Clone, Debug, Serialize, Deserialize)]
struct Program {
    name: String,
    nodes: u8,
    /// edges created before the threads start: (from, to, directed)
    pre_edges: Vec<(u8, u8, bool)>,
    threads: Vec<Vec<TOp>>,
}

fn programs(thorough: bool) -> Vec<Program> {
    let mut v = vec![
        Program { name: "hub: create_edge(h,a) || create_edge(h,b)".into(), nodes: 3, pre_edges: vec![], threads: vec![vec![TOp::CreateEdge(0, 1, true)], vec![TOp::CreateEdge(0, 2, true)]] },
        Program { name: "hub incoming: create_edge(a,h) || create_edge(b,h)".into(), nodes: 3, pre_edges: vec![], threads: vec![vec![TOp::CreateEdge(1, 0, true)], vec![TOp::CreateEdge(2, 0, true)]] },
        Program { name: "undirected hub: create_edge(h,a) || create_edge(b,h)".into(), nodes: 3, pre_edges: vec![], threads: vec![vec![TOp::CreateEdge(0, 1, false)], vec![TOp::CreateEdge(2, 0, false)]] },
        Program { name: "create_edge(a,b) || delete_node(a)".into(), nodes: 2, pre_edges: vec![], threads: vec![vec![TOp::CreateEdge(0, 1, true)], vec![TOp::DeleteNode(0)]] },
        Program { name: "create_edge(a,b) || delete_node(b)".into(), nodes: 2, pre_edges: vec![], threads: vec![vec![TOp::CreateEdge(0, 1, true)], vec![TOp::DeleteNode(1)]] },
        Program { name: "undirected create_edge(a,b) || delete_node(a)".into(), nodes: 2, pre_edges: vec![], threads: vec![vec![TOp::CreateEdge(0, 1, false)], vec![TOp::DeleteNode(0)]] },
        Program { name: "undirected create_edge(a,b) || delete_node(b)".into(), nodes: 2, pre_edges: vec![], threads: vec![vec![TOp::CreateEdge(0, 1, false)], vec![TOp::DeleteNode(1)]] },
        Program { name: "undirected delete_edge(e) || delete_node(endpoint)".into(), nodes: 3, pre_edges: vec![(0, 1, false), (2, 0, false)], threads: vec![vec![TOp::DeleteEdge(0)], vec![TOp::DeleteNode(1)]] },
        Program { name: "undirected create_edge(b,h) || delete_edge(h,a)".into(), nodes: 3, pre_edges: vec![(0, 1, false)], threads: vec![vec![TOp::CreateEdge(2, 0, false)], vec![TOp::DeleteEdge(0)]] },
        Program { name: "delete_edge(e) || delete_node(endpoint)".into(), nodes: 3, pre_edges: vec![(0, 1, true), (0, 2, true)], threads: vec![vec![TOp::DeleteEdge(0)], vec![TOp::DeleteNode(1)]] },
        Program { name: "create_edge(h,b) || delete_edge(h,a)".into(), nodes: 3, pre_edges: vec![(0, 1, true)], threads: vec![vec![TOp::CreateEdge(0, 2, true)], vec![TOp::DeleteEdge(0)]] },
        Program { name: "delete_edge(e1) || delete_edge(e2) same hub".into(), nodes: 3, pre_edges: vec![(0, 1, true), (0, 2, true)], threads: vec![vec![TOp::DeleteEdge(0)], vec![TOp::DeleteEdge(1)]] },
        Program { name: "delete_node(a) || delete_node(b) adjacent".into(), nodes: 3, pre_edges: vec![(0, 1, true), (1, 2, false)], threads: vec![vec![TOp::DeleteNode(0)], vec![TOp::DeleteNode(1)]] },
    ];
    if thorough {
        v.push(Program { name: "3 threads: three edges on one hub".into(), nodes: 4, pre_edges: vec![], threads: vec![vec![TOp::CreateEdge(0, 1, true)], vec![TOp::CreateEdge(0, 2, true)], vec![TOp::CreateEdge(3, 0, true)]] });
        v.push(Program { name: "3 threads: create || delete_edge || delete_node".into(), nodes: 3, pre_edges: vec![(0, 1, true)], threads: vec![vec![TOp::CreateEdge(0, 2, true)], vec![TOp::DeleteEdge(0)], vec![TOp::DeleteNode(2)]] });
        v.push(Program { name: "two ops each on one hub".into(), nodes: 3, pre_edges: vec![], threads: vec![vec![TOp::CreateEdge(0, 1, true), TOp::CreateEdge(0, 1, false)], vec![TOp::CreateEdge(0, 2, true), TOp::CreateEdge(2, 0, true)]] });
    }
    v
}

#[derive(Default, Serialize, Deserialize)]
struct WStats {
    programs: u64,
    executions: u64,
    sched_points: u64,
    max_points: usize,
    by_preemptions: BTreeMap<usize, u64>,
    distinct_outcomes: u64,
    single_outcome_programs: Vec<String>,
    violations: Vec<nvc::report::ViolationRec>,
    violation_total: u64,
    sample: Option<serde_json::Value>,
    machinery: Option<String>,
}

#[derive(Clone, Debug)]
enum TRes {
    Created(u8, u8, bool, Result<u64, String>),
    DeletedEdge(u64, bool),
    DeletedNode(u64, bool),
}

fn explore_program(p: &Program, bound: usize, st: &mut WStats) {
    let log: Arc<Mutex<Vec<TRes>>> = Arc::new(Mutex::new(vec![]));
    let prog = p.clone();
    let stats = vsched::explore(&ExploreCfg { bound, part: (0, 1), max_execs: 5_000_000 }, || {
        log.lock().unwrap().clear();
        let g = Arc::new(GraphEngine::new());
        let nodes: Vec<u64> = (0..prog.nodes).map(|i| g.create_node("N", props(i64::from(i))).unwrap()).collect();
        let pre: Vec<(u64, u8, u8, bool)> = prog.pre_edges.iter().map(|(a, b, d)| (g.create_edge(nodes[*a as usize], nodes[*b as usize], "E", props(1), *d).unwrap(), *a, *b, *d)).collect();
        let mut bodies: Vec<Body> = vec![];
        for ops in &prog.threads {
            let (g, ops, log, nodes, pre) = (g.clone(), ops.clone(), log.clone(), nodes.clone(), pre.clone());
            bodies.push(Box::new(move || {
                for op in &ops {
                    let r = match op {
                        TOp::CreateEdge(a, b, d) => TRes::Created(*a, *b, *d, g.create_edge(nodes[*a as usize], nodes[*b as usize], "E", props(2), *d).map_err(|e| e.to_string())),
                        TOp::DeleteEdge(k) => TRes::DeletedEdge(pre[*k as usize].0, g.delete_edge(pre[*k as usize].0).is_ok()),
                        TOp::DeleteNode(k) => TRes::DeletedNode(nodes[*k as usize], g.delete_node(nodes[*k as usize]).is_ok()),
                    };
                    log.lock().unwrap().push(r);
                }
            }));
        }
        let (log2, nodes2, pre2) = (log.clone(), nodes.clone(), pre.clone());
        let check = Box::new(move |_r: &RunResult| {
            let res = log2.lock().unwrap().clone();
            // the edges and nodes that must exist at quiescence, from what the calls returned
            let mut r = RefGraph { nodes: nodes2.iter().copied().collect(), edges: pre2.iter().map(|(id, a, b, d)| RefEdge { id: *id, from: nodes2[*a as usize], to: nodes2[*b as usize], directed: *d }).collect() };
            let mut edges_ever: Vec<u64> = pre2.iter().map(|x| x.0).collect();
            for x in &res {
                if let TRes::Created(a, b, d, Ok(id)) = x {
                    r.edges.insert(RefEdge { id: *id, from: nodes2[*a as usize], to: nodes2[*b as usize], directed: *d });
                    edges_ever.push(*id);
                }
            }
            for x in &res {
                if let TRes::DeletedEdge(id, true) = x {
                    r.edges.retain(|e| e.id != *id);
                }
            }
            for x in &res {
                if let TRes::DeletedNode(n, true) = x {
                    r.nodes.remove(n);
                    r.edges.retain(|e| e.from != *n && e.to != *n);
                }
            }
            let outcome = format!("{:?}|{:?}", res.iter().map(|x| match x { TRes::Created(_, _, _, r) => r.is_ok(), TRes::DeletedEdge(_, b) | TRes::DeletedNode(_, b) => *b }).collect::<Vec<_>>(), g.all_edges().iter().map(|e| e.id).collect::<Vec<_>>());
            let violation = check_graph(&g, &r, &nodes2, &edges_ever).err().map(|(sig, msg)| format!("c05:conc:{sig}|{msg}; call results {res:?}"));
            Verdict { outcome, violation }
        });
        (bodies, check as Box<dyn FnOnce(&RunResult) -> Verdict>)
    });
    st.programs += 1;
    st.executions += stats.executions;
    st.sched_points += stats.sched_points;
    st.max_points = st.max_points.max(stats.max_points);
    for (k, v) in &stats.by_preemptions {
        *st.by_preemptions.entry(*k).or_default() += v;
    }
    st.distinct_outcomes += stats.outcomes.len() as u64;
    if stats.outcomes.len() < 2 {
        st.single_outcome_programs.push(p.name.clone());
    }
    if let Some(m) = stats.machinery {
        st.machinery.get_or_insert(format!("{}: {m}", p.name));
    }
    if stats.capped {
        st.machinery.get_or_insert(format!("{}: execution cap hit", p.name));
    }
    st.violation_total += stats.violation_count;
    for v in stats.violations {
        let (sig, msg) = v.message.split_once('|').map_or(("c05:conc:thread-failure".to_string(), v.message.clone()), |(a, b)| (a.to_string(), b.to_string()));
        let sig = if v.message.starts_with("deadlock") { "c05:conc:deadlock".to_string() } else if v.message.starts_with("panic") { "c05:conc:panic".to_string() } else { sig };
        let kinds: BTreeSet<&str> = p.threads.iter().flatten().map(|o| match o { TOp::CreateEdge(..) => "create_edge", TOp::DeleteEdge(_) => "delete_edge", TOp::DeleteNode(_) => "delete_node" }).collect();
        let sig = format!("{sig}:{}", kinds.into_iter().collect::<Vec<_>>().join("+"));
        if st.violations.iter().filter(|x| x.signature == sig).count() < 3 {
            st.violations.push(nvc::report::ViolationRec { signature: sig, message: format!("{}: {msg} (schedule {:?}, {} preemptions)", p.name, v.threads, v.preemptions), replay: json!({"part":"T","program": p, "bound": bound, "choices": v.choices, "thread_schedule": v.threads}) });
        }
    }
    if st.sample.is_none() {
        st.sample = Some(json!({"part":"T","program": p, "executions": stats.executions, "distinct_outcomes": stats.outcomes.len(), "first_schedule": stats.sample_schedule}));
    }
}

fn worker(i: usize, n: usize, thorough: bool) {
    vsched::quiet_panics();
    vsched::set_thread_init(|t| env::set_thread_seed(t as u64 + 1));
    let bound = if thorough { 3 } else { 2 };
    let mut st = WStats::default();
    for (idx, p) in programs(thorough).iter().enumerate() {
        if idx % n != i {
            continue;
        }
        // three-thread programs: bound 2 (bound 3 took 26 min in the thorough tier)
        let b = if p.threads.len() >= 3 { bound.min(2) } else { bound };
        explore_program(p, b, &mut st);
    }
    par::emit_result(&st);
}

fn main() {
    env::require();
    env::clock_freeze(1_700_000_000);
    let args = nvc::Args::parse();
    if let Some((i, n)) = args.worker {
        worker(i, n, args.thorough());
        return;
    }
    let mut rep = Report::new("C05", "model_checking");
    let thorough = rep.thorough();
    let bound = if thorough { 3 } else { 2 };
    let depth = if thorough { 4 } else { 3 };
    rep.rule(&format!("S: BFS over every sequence of <= {depth} operations {{create_node, create_edge (directed/undirected, self-loops, parallel), batch_create_edges, delete_edge, delete_node, update_node, update_edge}} on <= 3 nodes / <= 3 edges, replayed on a fresh real GraphEngine, dedup on the observed graph; after every step the structural invariant and agreement of all_edges/edges_of/degrees/neighbors/get_edge/node_exists with the reference edge set. T: for each program (2-3 threads creating/deleting edges and nodes on a shared hub) every schedule with <= {bound} preemptions; quiescent invariant + agreement with the results the calls returned. non-trivial = schedules with >= 1 preemption + distinct sequential states"));
    rep.assume("interleavings at lock-acquisition granularity (every parking_lot/dashmap lock in graph_engine and tensor_store); harness sizes stay below the rayon PARALLEL_THRESHOLD of delete_node");
    // Part S in this process (rayon), Part T in worker processes
    let s = part_s(depth);
    for (sig, msg, r) in &s.violations {
        rep.violation(sig.clone(), msg.clone(), r.clone());
    }
    rep.part("S", json!({"depth": depth, "distinct_states": s.states, "transitions": s.transitions}));
    let (l_cases, l_viol) = part_l();
    for (sig, msg, r) in l_viol.into_iter().take(6) {
        rep.violation(sig, msg, r);
    }
    rep.part("L", json!({"high_degree_cases": l_cases, "degrees": [3, 99, 100, 101, 130], "orientation_patterns": 6}));
    rep.add("evaluations", l_cases);
    rep.sample(json!({"part":"S","deepest_new_state_history": s.deepest}));
    let results: Vec<WStats> = par::spawn_workers(par::worker_count().min(programs(thorough).len()), &[]);
    let mut t = WStats::default();
    for w in results {
        t.programs += w.programs;
        t.executions += w.executions;
        t.sched_points += w.sched_points;
        t.max_points = t.max_points.max(w.max_points);
        for (k, v) in w.by_preemptions {
            *t.by_preemptions.entry(k).or_default() += v;
        }
        t.distinct_outcomes += w.distinct_outcomes;
        t.single_outcome_programs.extend(w.single_outcome_programs);
        t.violation_total += w.violation_total;
        for v in w.violations {
            rep.violation(v.signature, v.message, v.replay);
        }
        if t.sample.is_none() {
            t.sample = w.sample;
        }
        if let Some(m) = w.machinery {
            rep.machinery(m);
        }
    }
    let nontrivial: u64 = t.by_preemptions.iter().filter(|(k, _)| **k > 0).map(|(_, v)| *v).sum();
    rep.add("states", t.executions + s.states);
    rep.add("transitions", t.sched_points + s.transitions);
    rep.add("traces_validated_against_impl", t.executions + s.transitions);
    rep.add("evaluations", t.executions + s.transitions);
    rep.add("distinct_nontrivial", nontrivial + s.states);
    rep.part("T", json!({"programs": t.programs, "preemption_bound": bound, "schedules_executed": t.executions, "scheduling_points": t.sched_points, "max_points_per_execution": t.max_points, "schedules_by_preemptions": t.by_preemptions, "distinct_outcomes_summed_over_programs": t.distinct_outcomes, "programs_with_a_single_outcome": t.single_outcome_programs, "violating_schedules": t.violation_total}));
    if let Some(x) = t.sample {
        rep.sample(x);
    }
    if s.states < 50 {
        rep.machinery("vacuous: too few sequential states");
    }
    rep.finish();
}
