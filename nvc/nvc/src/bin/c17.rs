//! C17 — membership views converge and never move backwards (DESIGN §2, C17).
//!
//! Part A : every multiset of ≤N updates (ties included) × every permutation × every batching ×
//!          one repetition: all replicas agree on (health, incarnation) per member.
//! Part A': two equal replicas, every pair of local-event sequences of length ≤2, exchange of
//!          all_states(): both replicas agree.
//! Part B : explicit-state BFS over two replicas with local events and gossip; incarnation and
//!          Lamport time never decrease; never Failed above the incarnation the member announced.
//! Part C : the same updates through GossipMembershipManager::handle_gossip(Sync).
use nvc::Report;
use rayon::prelude::*;
use serde_json::json;
use std::collections::{BTreeMap, BTreeSet, HashSet, VecDeque};
use std::sync::Arc;
use tensor_chain::gossip::{GossipConfig, GossipMembershipManager, GossipMessage, GossipNodeState, LWWMembershipState};
use tensor_chain::membership::NodeHealth;
use tensor_chain::network::MemoryTransport;

const HEALTHS: [NodeHealth; 3] = [NodeHealth::Healthy, NodeHealth::Degraded, NodeHealth::Failed];

fn hname(h: NodeHealth) -> &'static str {
    match h {
        NodeHealth::Healthy => "H",
        NodeHealth::Degraded => "D",
        NodeHealth::Failed => "F",
        _ => "U",
    }
}

#[derive(Clone, Copy, PartialEq, Eq, PartialOrd, Ord, Hash, Debug)]
struct Upd {
    member: u8,
    health: u8,
    ts: u64,
    inc: u64,
}
impl Upd {
    fn state(&self) -> GossipNodeState {
        GossipNodeState::with_wall_time(mname(self.member), HEALTHS[self.health as usize], self.ts, self.inc, 0)
    }
    fn show(&self) -> String {
        format!("{}:{}@ts{}/inc{}", mname(self.member), hname(HEALTHS[self.health as usize]), self.ts, self.inc)
    }
}
fn mname(m: u8) -> String {
    ["a", "b", "c", "d"][m as usize].to_string()
}

type View = BTreeMap<String, (&'static str, u64)>;
fn view(s: &LWWMembershipState) -> View {
    s.all_states().map(|g| (g.node_id.clone(), (hname(g.health), g.incarnation))).collect()
}

fn universe(members: u8) -> Vec<Upd> {
    let mut u = vec![];
    for member in 0..members {
        for health in 0..3u8 {
            for ts in 1..=2u64 {
                for inc in 0..=1u64 {
                    u.push(Upd { member, health, ts, inc });
                }
            }
        }
    }
    u
}

fn multisets(u: &[Upd], size: usize) -> Vec<Vec<Upd>> {
    fn rec(u: &[Upd], start: usize, left: usize, cur: &mut Vec<Upd>, out: &mut Vec<Vec<Upd>>) {
        if left == 0 {
            out.push(cur.clone());
            return;
        }
        for i in start..u.len() {
            cur.push(u[i]);
            rec(u, i, left - 1, cur, out);
            cur.pop();
        }
    }
    let mut out = vec![];
    rec(u, 0, size, &mut vec![], &mut out);
    out
}

fn permutations(v: &[Upd]) -> Vec<Vec<Upd>> {
    let mut out = BTreeSet::new();
    fn rec(rest: &mut Vec<Upd>, cur: &mut Vec<Upd>, out: &mut BTreeSet<Vec<Upd>>) {
        if rest.is_empty() {
            out.insert(cur.clone());
            return;
        }
        for i in 0..rest.len() {
            let x = rest.remove(i);
            cur.push(x);
            rec(rest, cur, out);
            cur.pop();
            rest.insert(i, x);
        }
    }
    rec(&mut v.to_vec(), &mut vec![], &mut out);
    out.into_iter().collect()
}

/// apply `seq` split into batches according to the bitmask `cuts` (bit i set = cut after element i)
fn apply_batched(seq: &[Upd], cuts: u32) -> LWWMembershipState {
    let mut s = LWWMembershipState::new();
    let mut batch: Vec<GossipNodeState> = vec![];
    for (i, u) in seq.iter().enumerate() {
        batch.push(u.state());
        if i + 1 == seq.len() || cuts & (1 << i) != 0 {
            s.merge(&batch);
            batch.clear();
        }
    }
    s
}

#[derive(Default)]
struct PartA {
    multisets: u64,
    deliveries: u64,
    tie_multisets: u64,
    violations: Vec<(String, String, serde_json::Value)>,
    violation_count: u64,
    sample: Option<serde_json::Value>,
}

fn part_a(members: u8, max_size: usize) -> PartA {
    let u = universe(members);
    let mut all: Vec<Vec<Upd>> = vec![];
    for k in 1..=max_size {
        all.extend(multisets(&u, k));
    }
    let results: Vec<PartA> = all
        .par_chunks(256)
        .map(|chunk| {
            let mut r = PartA::default();
            for ms in chunk {
                r.multisets += 1;
                let has_tie = (0..ms.len()).any(|i| (0..i).any(|j| ms[i].member == ms[j].member && ms[i].ts == ms[j].ts && ms[i].inc == ms[j].inc && ms[i].health != ms[j].health));
                if has_tie {
                    r.tie_multisets += 1;
                }
                let mut first: Option<(View, String)> = None;
                let mut bad = false;
                for perm in permutations(ms) {
                    let n = perm.len();
                    for cuts in 0..(1u32 << (n - 1)) {
                        // plain delivery, and delivery with each element repeated once at the end
                        for rep in 0..=n {
                            let mut seq = perm.clone();
                            if rep < n {
                                seq.push(perm[rep]);
                            }
                            let cuts2 = if rep < n { cuts | (1 << (n - 1)) } else { cuts };
                            let s = apply_batched(&seq, cuts2);
                            r.deliveries += 1;
                            let v = view(&s);
                            let desc = format!("{:?} cuts={:b}", seq.iter().map(Upd::show).collect::<Vec<_>>(), cuts2);
                            match &first {
                                None => first = Some((v, desc)),
                                Some((fv, fdesc)) => {
                                    if *fv != v && !bad {
                                        bad = true;
                                        r.violation_count += 1;
                                        if r.violations.len() < 2 {
                                            let kind = if has_tie { "tie" } else { "no-tie" };
                                            r.violations.push((
                                                format!("c17:merge-order-dependent:{kind}"),
                                                format!("same update set, different views: {fdesc} => {fv:?}  but  {desc} => {v:?}"),
                                                json!({"part":"A","updates": ms.iter().map(Upd::show).collect::<Vec<_>>(), "delivery_1": fdesc, "view_1": format!("{fv:?}"), "delivery_2": desc, "view_2": format!("{v:?}")}),
                                            ));
                                        }
                                    }
                                }
                            }
                        }
                    }
                }
                if r.sample.is_none() && ms.len() == max_size && has_tie {
                    r.sample = Some(json!({"part":"A","multiset": ms.iter().map(Upd::show).collect::<Vec<_>>(), "agreed_view": format!("{:?}", first.as_ref().unwrap().0)}));
                }
            }
            r
        })
        .collect();
    let mut t = PartA::default();
    for r in results {
        t.multisets += r.multisets;
        t.deliveries += r.deliveries;
        t.tie_multisets += r.tie_multisets;
        t.violation_count += r.violation_count;
        if t.violations.len() < 3 {
            t.violations.extend(r.violations);
        }
        if t.sample.is_none() {
            t.sample = r.sample;
        }
    }
    t
}

// ---------------------------------------------------------------- Part A'
#[derive(Clone, Copy, Debug, PartialEq, Eq, Hash, PartialOrd, Ord)]
enum Local {
    Suspect(u8),
    /// a suspicion that names an incarnation one above the recorded one (a reporter that is ahead
    /// of us, or a forged report): it must not be adopted
    SuspectAhead(u8),
    Fail(u8),
    Refute(u8),
    MarkHealthy(u8),
}
fn apply_local(s: &mut LWWMembershipState, e: Local, announced: &mut [u64]) {
    match e {
        Local::Suspect(m) => {
            let inc = s.get(&mname(m)).map_or(0, |g| g.incarnation);
            s.suspect(&mname(m), inc);
        }
        Local::SuspectAhead(m) => {
            let inc = s.get(&mname(m)).map_or(0, |g| g.incarnation);
            s.suspect(&mname(m), inc + 1);
        }
        Local::Fail(m) => {
            s.fail(&mname(m));
        }
        Local::Refute(m) => {
            // the member itself announces a new incarnation (only the member increments it)
            announced[m as usize] += 1;
            s.refute(&mname(m), announced[m as usize]);
        }
        Local::MarkHealthy(m) => {
            s.mark_healthy(&mname(m));
        }
    }
}
fn local_events(members: u8) -> Vec<Local> {
    let mut v = vec![];
    for m in 0..members {
        v.extend([Local::Suspect(m), Local::SuspectAhead(m), Local::Fail(m), Local::Refute(m), Local::MarkHealthy(m)]);
    }
    v
}
fn seqs_upto<T: Copy>(alpha: &[T], n: usize) -> Vec<Vec<T>> {
    let mut out = vec![vec![]];
    let mut frontier = vec![vec![]];
    for _ in 0..n {
        let mut next = vec![];
        for s in &frontier {
            for &a in alpha {
                let mut t: Vec<T> = s.clone();
                t.push(a);
                next.push(t);
            }
        }
        out.extend(next.iter().cloned());
        frontier = next;
    }
    out
}

fn part_a_prime(rep: &mut Report, depth: usize) -> (u64, u64) {
    let members = 2u8;
    let evs = local_events(members);
    let seqs = seqs_upto(&evs, depth);
    let mut pairs = 0u64;
    let mut distinct_views: HashSet<String> = HashSet::new();
    // common start: both members healthy at incarnation 0, learnt through one merge
    let base: Vec<GossipNodeState> = (0..members).map(|m| Upd { member: m, health: 0, ts: 1, inc: 0 }.state()).collect();
    for s1 in &seqs {
        for s2 in &seqs {
            // a member's incarnation counter is its own: refutes in the two replicas are announcements
            // of the same member, so they draw from one shared counter in issue order r1 then r2.
            let mut announced = vec![0u64; members as usize];
            let mut r1 = LWWMembershipState::new();
            r1.merge(&base);
            let mut r2 = r1.clone();
            for e in s1 {
                apply_local(&mut r1, *e, &mut announced);
            }
            for e in s2 {
                apply_local(&mut r2, *e, &mut announced);
            }
            let g1: Vec<GossipNodeState> = r1.all_states().cloned().collect();
            let g2: Vec<GossipNodeState> = r2.all_states().cloned().collect();
            r1.merge(&g2);
            r2.merge(&g1);
            pairs += 1;
            let (v1, v2) = (view(&r1), view(&r2));
            distinct_views.insert(format!("{v1:?}"));
            if v1 != v2 {
                rep.violation(
                    "c17:anti-entropy-diverges",
                    format!("replica1 {s1:?} / replica2 {s2:?}: after exchanging all_states views differ: {v1:?} vs {v2:?}"),
                    json!({"part":"A'","replica1_events": format!("{s1:?}"), "replica2_events": format!("{s2:?}"), "view1": format!("{v1:?}"), "view2": format!("{v2:?}")}),
                );
            }
        }
    }
    rep.sample(json!({"part":"A'","replica1_events": format!("{:?}", seqs[seqs.len()/2]), "replica2_events": format!("{:?}", seqs[seqs.len()/3])}));
    (pairs, distinct_views.len() as u64)
}

// ---------------------------------------------------------------- Part B (BFS)
#[derive(Clone)]
struct World {
    reps: Vec<LWWMembershipState>,
    /// highest incarnation each member has itself announced
    announced: Vec<u64>,
}
#[derive(Clone, Copy, Debug, PartialEq, Eq, Hash)]
enum Ev {
    Local(u8, Local),
    /// replica r's own member announces itself (update_local with its own incarnation counter)
    Announce(u8),
    /// replica `from` gossips states_for_gossip(k) to the other one
    Gossip(u8, u8),
    /// replica `from` sends all_states() to the other one
    Sync(u8),
}
fn world_key(w: &World) -> String {
    let mut s = String::new();
    for r in &w.reps {
        let mut v: Vec<_> = r.all_states().map(|g| (g.node_id.clone(), hname(g.health), g.timestamp, g.incarnation)).collect();
        v.sort();
        s.push_str(&format!("{:?}|{}|", v, r.lamport_time()));
    }
    s.push_str(&format!("{:?}", w.announced));
    s
}
fn step(w: &World, e: Ev) -> World {
    let mut n = w.clone();
    match e {
        Ev::Local(r, l) => apply_local(&mut n.reps[r as usize], l, &mut n.announced),
        Ev::Announce(r) => {
            let inc = n.announced[r as usize];
            n.reps[r as usize].update_local(mname(r), NodeHealth::Healthy, inc);
        }
        Ev::Gossip(from, k) => {
            let g = n.reps[from as usize].states_for_gossip(k as usize);
            n.reps[1 - from as usize].merge(&g);
        }
        Ev::Sync(from) => {
            let g: Vec<GossipNodeState> = n.reps[from as usize].all_states().cloned().collect();
            n.reps[1 - from as usize].merge(&g);
        }
    }
    n
}
fn check_step(before: &World, after: &World, hist: &[Ev], e: Ev, rep: &mut Report) {
    for (r, (b, a)) in before.reps.iter().zip(&after.reps).enumerate() {
        if a.lamport_time() < b.lamport_time() {
            rep.violation("c17:lamport-decreased", format!("replica {r} clock {} -> {} after {hist:?}+{e:?}", b.lamport_time(), a.lamport_time()), json!({"part":"B","history": format!("{hist:?}"), "event": format!("{e:?}")}));
        }
        for g in b.all_states() {
            if let Some(n) = a.get(&g.node_id) {
                if n.incarnation < g.incarnation {
                    rep.violation("c17:incarnation-decreased", format!("replica {r} member {} incarnation {} -> {} after {hist:?}+{e:?}", g.node_id, g.incarnation, n.incarnation), json!({"part":"B","history": format!("{hist:?}"), "event": format!("{e:?}")}));
                }
            } else {
                rep.violation("c17:member-vanished", format!("replica {r} lost member {}", g.node_id), json!({"part":"B","history": format!("{hist:?}"), "event": format!("{e:?}")}));
            }
        }
        for g in a.all_states() {
            let m = ["a", "b", "c", "d"].iter().position(|x| *x == g.node_id).unwrap();
            if g.health == NodeHealth::Failed && g.incarnation > after.announced[m] {
                rep.violation("c17:failed-above-announced", format!("replica {r} records {} Failed at incarnation {} > announced {}", g.node_id, g.incarnation, after.announced[m]), json!({"part":"B","history": format!("{hist:?}"), "event": format!("{e:?}")}));
            }
        }
    }
}
fn part_b(rep: &mut Report, depth: usize) -> (u64, u64) {
    let mut alphabet = vec![];
    for r in 0..2u8 {
        for l in local_events(2) {
            // a refute is an announcement by the member itself: it happens at the member's own replica
            if let Local::Refute(m) = l {
                if m != r {
                    continue;
                }
            }
            alphabet.push(Ev::Local(r, l));
        }
        alphabet.push(Ev::Announce(r));
        alphabet.push(Ev::Gossip(r, 1));
        alphabet.push(Ev::Sync(r));
    }
    let init = {
        let mut w = World { reps: vec![LWWMembershipState::new(), LWWMembershipState::new()], announced: vec![0, 0] };
        for r in 0..2u8 {
            w = step(&w, Ev::Announce(r));
        }
        w
    };
    let mut seen: HashSet<String> = HashSet::new();
    seen.insert(world_key(&init));
    let mut q: VecDeque<(World, Vec<Ev>)> = VecDeque::new();
    q.push_back((init, vec![]));
    let mut transitions = 0u64;
    let mut deepest: Vec<Ev> = vec![];
    while let Some((w, hist)) = q.pop_front() {
        if hist.len() >= depth {
            continue;
        }
        for &e in &alphabet {
            let n = step(&w, e);
            transitions += 1;
            check_step(&w, &n, &hist, e, rep);
            let k = world_key(&n);
            if seen.insert(k) {
                let mut h = hist.clone();
                h.push(e);
                if h.len() > deepest.len() {
                    deepest = h.clone();
                }
                q.push_back((n, h));
            }
        }
    }
    rep.sample(json!({"part":"B","deepest_new_state_history": format!("{deepest:?}")}));
    (seen.len() as u64, transitions)
}

// ---------------------------------------------------------------- Part C (manager)
fn part_c(rep: &mut Report, max_len: usize) -> u64 {
    // every sequence of ≤max_len Sync messages, each carrying one update from the universe (member b,c
    // as subjects; "a" is the local node), sent by peer "b"; incarnation per member must never go down.
    let u: Vec<Upd> = universe(3).into_iter().filter(|x| x.member != 0).collect();
    let seqs = seqs_upto(&u, max_len);
    let mut n = 0u64;
    for seq in &seqs {
        let transport = Arc::new(MemoryTransport::new("a".to_string()));
        let mgr = GossipMembershipManager::new("a".to_string(), GossipConfig::default(), transport);
        let mut last: BTreeMap<String, u64> = BTreeMap::new();
        let mut last_clock = mgr.lamport_time();
        for (i, x) in seq.iter().enumerate() {
            mgr.handle_gossip(GossipMessage::Sync { sender: "b".into(), states: vec![x.state()], sender_time: x.ts });
            n += 1;
            for g in mgr.all_states() {
                let prev = last.insert(g.node_id.clone(), g.incarnation);
                if prev.is_some_and(|p| g.incarnation < p) {
                    rep.violation("c17:manager-incarnation-decreased", format!("{} went from {:?} to {} after {:?}", g.node_id, prev, g.incarnation, &seq[..=i].iter().map(Upd::show).collect::<Vec<_>>()), json!({"part":"C","syncs": seq[..=i].iter().map(Upd::show).collect::<Vec<_>>()}));
                }
            }
            if mgr.lamport_time() < last_clock {
                rep.violation("c17:manager-lamport-decreased", "clock went backwards", json!({"part":"C","syncs": seq[..=i].iter().map(Upd::show).collect::<Vec<_>>()}));
            }
            last_clock = mgr.lamport_time();
        }
    }
    rep.sample(json!({"part":"C","syncs": seqs.last().unwrap().iter().map(Upd::show).collect::<Vec<_>>()}));
    n
}

// ---------------------------------------------------------------- Part C2 (manager: registration, suspicion, expiry)
#[derive(Clone, Copy, Debug)]
enum MEv {
    Sync(Upd),
    /// the local node registers a peer (start-up, or late, after it was already learned through gossip)
    AddPeer(u8),
    /// a Suspect message about `member` naming `inc`, reported by c
    Suspect(u8, u64),
    /// the suspicion timeout passes and one gossip round runs (expires suspicions)
    Expire,
}
fn block_on_ready<F: std::future::Future>(f: F) -> Option<F::Output> {
    use std::task::{Context, Poll, RawWaker, RawWakerVTable, Waker};
    fn noop(_: *const ()) {}
    fn clone(_: *const ()) -> RawWaker {
        RawWaker::new(std::ptr::null(), &VTABLE)
    }
    static VTABLE: RawWakerVTable = RawWakerVTable::new(clone, noop, noop, noop);
    let waker = unsafe { Waker::from_raw(RawWaker::new(std::ptr::null(), &VTABLE)) };
    let mut cx = Context::from_waker(&waker);
    let mut f = std::pin::pin!(f);
    match f.as_mut().poll(&mut cx) {
        Poll::Ready(v) => Some(v),
        Poll::Pending => None,
    }
}
fn part_c2(rep: &mut Report, max_len: usize) -> (u64, u64) {
    // member b is the subject; a is the local node; updates about b with inc 0..=2
    let mut alpha: Vec<MEv> = universe(3).into_iter().filter(|x| x.member == 1).map(MEv::Sync).collect();
    alpha.extend([MEv::AddPeer(1), MEv::AddPeer(2), MEv::Suspect(1, 0), MEv::Suspect(1, 1), MEv::Suspect(1, 2), MEv::Suspect(1, 3), MEv::Expire]);
    let seqs = seqs_upto(&alpha, max_len);
    let (mut n, mut failed_seen) = (0u64, 0u64);
    let timeout = GossipConfig::default().suspicion_timeout_ms as i64;
    let rt = tokio::runtime::Builder::new_current_thread().enable_all().build().expect("tokio runtime");
    let _ = block_on_ready(async {});
    for seq in &seqs {
        nvc::env::clock_reset();
        let transport = Arc::new(MemoryTransport::new("a".to_string()));
        let mgr = GossipMembershipManager::new("a".to_string(), GossipConfig::default(), transport);
        let mut last: BTreeMap<String, u64> = BTreeMap::new();
        // highest incarnation member b itself announced (its own states arrive in Sync messages)
        let mut announced: BTreeMap<String, u64> = BTreeMap::new();
        let show = |k: usize| format!("{:?}", &seq[..=k]);
        for (i, e) in seq.iter().enumerate() {
            match e {
                MEv::Sync(x) => {
                    let a = announced.entry(mname(x.member)).or_insert(0);
                    *a = (*a).max(x.inc);
                    mgr.handle_gossip(GossipMessage::Sync { sender: "b".into(), states: vec![x.state()], sender_time: x.ts });
                }
                MEv::AddPeer(m) => mgr.add_peer(mname(*m)),
                MEv::Suspect(m, inc) => mgr.handle_gossip(GossipMessage::Suspect { reporter: "c".into(), suspect: mname(*m), incarnation: *inc }),
                MEv::Expire => {
                    nvc::env::clock_advance_ms(timeout + 1);
                    let _ = rt.block_on(mgr.gossip_round());
                }
            }
            n += 1;
            for g in mgr.all_states() {
                let prev = last.insert(g.node_id.clone(), g.incarnation);
                if prev.is_some_and(|p| g.incarnation < p) {
                    rep.violation("c17:manager-incarnation-decreased", format!("{} went from {:?} to {} after {}", g.node_id, prev, g.incarnation, show(i)), json!({"part":"C2","events": show(i)}));
                }
                if g.health == tensor_chain::membership::NodeHealth::Failed {
                    failed_seen += 1;
                    let a = announced.get(&g.node_id).copied().unwrap_or(0);
                    if g.incarnation > a {
                        rep.violation("c17:manager-failed-above-announced", format!("{} is recorded Failed at incarnation {} but only ever announced {} (events {})", g.node_id, g.incarnation, a, show(i)), json!({"part":"C2","events": show(i)}));
                    }
                }
            }
        }
    }
    nvc::env::clock_reset();
    (n, failed_seen)
}

fn main() {
    let mut rep = Report::new("C17", "model_checking");
    let thorough = rep.thorough();
    rep.rule("A: every multiset of <=N updates over {a,b}x{H,D,F}x ts{1,2} x inc{0,1} (ties included), every distinct permutation, every batching into merge() calls, each element optionally repeated; non-trivial = multiset contains two updates of one member with equal (incarnation,timestamp) and different health");
    rep.rule("A': all pairs of local-event sequences (<=2) on two equal replicas followed by exchange of all_states()");
    rep.rule("B: BFS over {suspect,fail,refute,mark_healthy,announce,gossip(1),sync} on two replicas, dedup on full replica state");
    rep.rule("C: every sequence of Sync messages through GossipMembershipManager::handle_gossip");
    rep.rule("C2: every sequence of {Sync about member b (all healths, timestamps, incarnations), add_peer(b), add_peer(c), Suspect(b) naming incarnation 0..3, suspicion timeout + gossip_round} on one GossipMembershipManager: incarnations never decrease, b is never recorded Failed above the highest incarnation it announced");
    rep.assume("incarnations are announced only by the member itself (SWIM): refute/update_local use the member's own counter");

    let a_size = if thorough { 5 } else { 4 };
    let a = part_a(2, a_size);
    let a3 = part_a(3, 3);
    for pa in [&a, &a3] {
        for (sig, msg, r) in &pa.violations {
            rep.violation(sig.clone(), msg.clone(), r.clone());
        }
    }
    if let Some(s) = a.sample.clone() {
        rep.sample(s);
    }
    rep.part("A", json!({"members":2,"max_multiset_size":a_size,"multisets":a.multisets,"deliveries":a.deliveries,"multisets_with_ties":a.tie_multisets,"order_dependent_multisets":a.violation_count}));
    rep.part("A_3members", json!({"members":3,"max_multiset_size":3,"multisets":a3.multisets,"deliveries":a3.deliveries,"multisets_with_ties":a3.tie_multisets,"order_dependent_multisets":a3.violation_count}));

    let (pairs, views) = part_a_prime(&mut rep, 2);
    rep.part("A_prime", json!({"pairs":pairs,"distinct_final_views":views}));

    let depth = if thorough { 7 } else { 5 };
    let (states, transitions) = part_b(&mut rep, depth);
    rep.part("B", json!({"depth":depth,"states":states,"transitions":transitions}));

    let c_len = if thorough { 4 } else { 3 };
    let c = part_c(&mut rep, c_len);
    let (c2, c2_failed) = part_c2(&mut rep, c_len);
    rep.part("C2_manager_events", json!({"max_len": c_len, "events_executed": c2, "observations_of_a_failed_member": c2_failed}));
    rep.add("transitions", c2);
    rep.add("evaluations", c2);
    if c2_failed == 0 {
        rep.machinery("vacuous part C2: no member ever recorded as failed");
    }
    rep.part("C", json!({"max_syncs":c_len,"handle_gossip_calls":c}));

    rep.add("states", states + a.multisets + a3.multisets);
    rep.add("transitions", transitions + a.deliveries + a3.deliveries + pairs + c);
    rep.add("traces_validated_against_impl", a.deliveries + a3.deliveries + pairs + transitions + c);
    rep.add("evaluations", a.deliveries + a3.deliveries + pairs + transitions + c);
    rep.add("distinct_nontrivial", a.tie_multisets + a3.tie_multisets);
    rep.set("explanation", json!("no separate model: every transition is the real LWWMembershipState / GossipMembershipManager code"));
    if states < 50 || views < 3 {
        rep.machinery("vacuous exploration: too few distinct states/views");
    }
    rep.finish();
}
