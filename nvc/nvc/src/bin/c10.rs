//! C10 — a Raft node restarted from its WAL never forgets a vote, a term or an acknowledged
//! entry (DESIGN §3, C10). Real RaftNode::with_wal + handle_message, every crash image, 3 epochs.
use nvc::crashx::{seqs, Explorer, Stats, Subject};
use nvc::{env, par, Report};
use serde::{Deserialize, Serialize};
use serde_json::json;
use std::collections::BTreeMap;
use std::sync::Arc;
use tensor_chain::block::{Block, BlockHeader};
use tensor_chain::network::{AppendEntries, AppendEntriesResponse, LogEntry, MemoryTransport, Message, PeerConfig, RequestVote, RequestVoteResponse, Transport};
use tensor_chain::raft::{RaftConfig, RaftNode, RaftState};
use tensor_store::SparseVector;

const ME: &str = "n1";

#[derive(Clone, Debug, PartialEq, Serialize, Deserialize)]
enum Op {
    /// RequestVote from n<cand> at current term + dterm; `fresh` = candidate log strictly newer
    Rv { cand: u8, dterm: u8, fresh: bool },
    /// AppendEntries from n<leader> at current term + dterm appending `n` new entries at the end;
    /// `conflict` = the first entry overwrites our last entry with a different term
    Ae { leader: u8, dterm: u8, n: u8, conflict: bool },
    /// election timer fires
    Elect,
    /// a granted RequestVoteResponse from n2 at our current term (wins a 3-node election)
    Win,
    /// successful AppendEntriesResponse from n2 (makes the leader write-safe)
    Ack,
    /// client proposal on the leader
    Propose,
    /// a response carrying a higher term (forces step-down and a term record)
    HigherTermResponse,
    /// a leader's snapshot (our log + `n` further entries of the current term, produced by a real leader node's
    /// create_snapshot) is installed; the entries count as acknowledged once a later AppendEntries succeeds
    Install { n: u8 },
    /// election timer fires on the async path while the transport refuses the broadcast
    ElectAsyncSendFails,
    /// a pre-vote round is started and answered by a PreVoteResponse carrying a higher term
    PreVoteHigherTerm,
    /// log compaction: truncate_log under a snapshot that covers all but the last entry (no trailing logs kept)
    Compact,
}

#[derive(Clone, Debug, Default)]
struct Model {
    /// highest term seen in any answer or local transition
    term: u64,
    /// granted votes: term -> candidate
    votes: BTreeMap<u64, String>,
    /// acknowledged log: (term, block height tag) per index
    log: Vec<(u64, u64)>,
    /// log installed from a snapshot and not yet acknowledged to a leader: a restart may come back with the
    /// acknowledged log or with (a durable prefix of) this one
    installed: Option<Vec<(u64, u64)>>,
}

struct Live {
    node: RaftNode,
    transport: Arc<FlakyTransport>,
    next_tag: u64,
    /// the node's log with absolute positions as of the last step (keeps what a compaction drained)
    full: Vec<(u64, u64)>,
}

fn block(tag: u64) -> Block {
    Block::new(BlockHeader::new(tag, [0u8; 32], [0u8; 32], [0u8; 32], "p".to_string()), vec![])
}
/// the node's log as (term, block height tag) per index from 1. After a compaction the node keeps only a
/// suffix (log_base_index entries were drained): the drained prefix is taken from `known`, the log as the
/// harness last saw it, so positions stay absolute.
fn node_log_with(node: &RaftNode, known: &[(u64, u64)]) -> Vec<(u64, u64)> {
    let st = node.verif_export();
    let base = (st.log_base_index as usize).min(known.len());
    let mut v: Vec<(u64, u64)> = known[..base].to_vec();
    v.extend(st.log.iter().map(|e| (e.term, e.block.header.height)));
    v
}
fn node_log(node: &RaftNode) -> Vec<(u64, u64)> {
    node_log_with(node, &[])
}

/// transport of the node under test: delivers nowhere; `fail` makes send/broadcast return an error
struct FlakyTransport {
    id: String,
    fail: std::sync::atomic::AtomicBool,
}
#[async_trait::async_trait]
impl Transport for FlakyTransport {
    async fn send(&self, _to: &String, _msg: Message) -> tensor_chain::error::Result<()> {
        if self.fail.load(std::sync::atomic::Ordering::SeqCst) {
            return Err(tensor_chain::error::ChainError::NetworkError("injected send failure".into()));
        }
        Ok(())
    }
    async fn broadcast(&self, _msg: Message) -> tensor_chain::error::Result<()> {
        if self.fail.load(std::sync::atomic::Ordering::SeqCst) {
            return Err(tensor_chain::error::ChainError::NetworkError("injected broadcast failure".into()));
        }
        Ok(())
    }
    async fn recv(&self) -> tensor_chain::error::Result<(String, Message)> {
        std::future::pending().await
    }
    async fn connect(&self, _peer: &PeerConfig) -> tensor_chain::error::Result<()> {
        Ok(())
    }
    async fn disconnect(&self, _peer_id: &String) -> tensor_chain::error::Result<()> {
        Ok(())
    }
    fn peers(&self) -> Vec<String> {
        vec!["n2".into(), "n3".into()]
    }
    fn local_id(&self) -> &String {
        &self.id
    }
}
fn block_on<F: std::future::Future>(f: F) -> F::Output {
    use std::task::{Context, Poll, RawWaker, RawWakerVTable, Waker};
    fn noop(_: *const ()) {}
    fn clone(_: *const ()) -> RawWaker {
        RawWaker::new(std::ptr::null(), &VTABLE)
    }
    static VTABLE: RawWakerVTable = RawWakerVTable::new(clone, noop, noop, noop);
    let waker = unsafe { Waker::from_raw(RawWaker::new(std::ptr::null(), &VTABLE)) };
    let mut cx = Context::from_waker(&waker);
    let mut f = std::pin::pin!(f);
    match f.as_mut().poll(&mut cx) {
        Poll::Ready(v) => v,
        Poll::Pending => panic!("harness future was not ready immediately"),
    }
}

struct RaftSubject;

impl RaftSubject {
    fn open_node(dir: &str) -> Result<RaftNode, String> {
        Self::open_node_t(dir).map(|(n, _)| n)
    }
    fn open_node_t(dir: &str) -> Result<(RaftNode, Arc<FlakyTransport>), String> {
        let transport = Arc::new(FlakyTransport { id: ME.to_string(), fail: std::sync::atomic::AtomicBool::new(false) });
        RaftNode::with_wal(ME.to_string(), vec!["n2".into(), "n3".into()], transport.clone(), RaftConfig { snapshot_trailing_logs: 0, ..RaftConfig::default() }, format!("{dir}/raft.wal")).map(|n| (n, transport)).map_err(|e| e.to_string())
    }
}

impl Subject for RaftSubject {
    type Op = Op;
    type Model = Model;
    type Live = Live;
    fn tag(&self) -> &'static str {
        "c10"
    }
    fn open(&self, dir: &str, _epoch: usize) -> Result<Live, String> {
        let (node, transport) = Self::open_node_t(dir)?;
        let next_tag = 1000 + node_log(&node).len() as u64 * 10;
        let full = node_log(&node);
        Ok(Live { node, transport, next_tag, full })
    }
    fn initial_model(&self) -> Model {
        Model::default()
    }
    fn step(&self, live: &mut Live, m: &Model, op: &Op) -> Model {
        let mut m = m.clone();
        let node = &live.node;
        let cur = node.current_term();
        // the live node's log with absolute positions (the model keeps what a compaction drained)
        let known: Vec<(u64, u64)> = live.full.clone();
        let node_log = |n: &RaftNode| node_log_with(n, &known);
        match op {
            Op::Rv { cand, dterm, fresh } => {
                let c = format!("n{cand}");
                let term = cur + *dterm as u64;
                let (li, lt) = if *fresh { (99, 99) } else { (0, 0) };
                let resp = node.handle_message(&c, &Message::RequestVote(RequestVote { term, candidate_id: c.clone(), last_log_index: li, last_log_term: lt, state_embedding: SparseVector::new(0) }));
                if let Some(Message::RequestVoteResponse(r)) = resp {
                    m.term = m.term.max(r.term);
                    if r.vote_granted {
                        m.votes.insert(r.term, c);
                    }
                }
            }
            Op::Ae { leader, dterm, n, conflict } => {
                let l = format!("n{leader}");
                let term = cur + *dterm as u64;
                let log = node_log(node);
                let (prev_idx, start) = if *conflict && !log.is_empty() { (log.len() as u64 - 1, log.len() as u64) } else { (log.len() as u64, log.len() as u64 + 1) };
                let prev_term = if prev_idx == 0 { 0 } else { log[prev_idx as usize - 1].0 };
                // a conflicting entry must carry a different term than the one it replaces
                let eterm = if *conflict && !log.is_empty() && log[log.len() - 1].0 == term { term + 1 } else { term };
                let term = term.max(eterm);
                let mut entries = vec![];
                for k in 0..*n as u64 {
                    live.next_tag += 1;
                    entries.push(LogEntry::new(eterm, start + k, block(live.next_tag)));
                }
                let resp = node.handle_message(&l, &Message::AppendEntries(AppendEntries { term, leader_id: l.clone(), prev_log_index: prev_idx, prev_log_term: prev_term, entries, leader_commit: 0, block_embedding: None }));
                if let Some(Message::AppendEntriesResponse(r)) = resp {
                    m.term = m.term.max(r.term);
                    if r.success {
                        m.log = node_log(node);
                        m.installed = None;
                    }
                }
            }
            Op::Elect => {
                node.start_election();
                let t = node.current_term();
                m.term = m.term.max(t);
                if node.state() == RaftState::Candidate && t == cur + 1 {
                    m.votes.insert(t, ME.to_string());
                }
            }
            Op::Win => {
                node.handle_message(&"n2".to_string(), &Message::RequestVoteResponse(RequestVoteResponse { term: cur, vote_granted: true, voter_id: "n2".into() }));
            }
            Op::Ack => {
                node.handle_message(&"n2".to_string(), &Message::AppendEntriesResponse(AppendEntriesResponse { term: cur, success: true, follower_id: "n2".into(), match_index: 0, used_fast_path: false }));
            }
            Op::Propose => {
                live.next_tag += 1;
                if node.propose(block(live.next_tag)).is_ok() {
                    m.log = node_log(node);
                }
            }
            Op::HigherTermResponse => {
                let msg = match node.state() {
                    RaftState::Leader => Message::AppendEntriesResponse(AppendEntriesResponse { term: cur + 1, success: false, follower_id: "n3".into(), match_index: 0, used_fast_path: false }),
                    _ => Message::RequestVoteResponse(RequestVoteResponse { term: cur + 1, vote_granted: false, voter_id: "n3".into() }),
                };
                node.handle_message(&"n3".to_string(), &msg);
                m.term = m.term.max(node.current_term());
            }
            Op::Install { n } => {
                // a real leader node holding our log plus n entries produces the snapshot
                let mut entries: Vec<LogEntry> = node_log(node).iter().enumerate().map(|(i, (t, tag))| LogEntry::new(*t, i as u64 + 1, block(*tag))).collect();
                let term = cur.max(1);
                for _ in 0..*n {
                    live.next_tag += 1;
                    entries.push(LogEntry::new(term, entries.len() as u64 + 1, block(live.next_tag)));
                }
                if !entries.is_empty() {
                    let leader = RaftNode::with_state("n3".to_string(), vec![ME.to_string(), "n2".into()], Arc::new(MemoryTransport::new("n3".to_string())), RaftConfig::default(), term, None, entries.clone());
                    leader.set_finalized_height(entries.len() as u64);
                    if let Ok((meta, data)) = leader.create_snapshot() {
                        if node.install_snapshot(meta, &data).is_ok() {
                            m.term = m.term.max(node.current_term());
                            m.installed = Some(node_log(node));
                        }
                    }
                }
            }
            Op::PreVoteHigherTerm => {
                node.start_pre_vote();
                node.handle_message(&"n3".to_string(), &Message::PreVoteResponse(tensor_chain::network::PreVoteResponse { term: node.current_term() + 1, vote_granted: false, voter_id: "n3".into() }));
                m.term = m.term.max(node.current_term());
            }
            Op::Compact => {
                let log = node_log(node);
                if log.len() >= 2 {
                    let idx = log.len() as u64 - 1;
                    let meta = tensor_chain::raft::SnapshotMetadata::new(idx, log[idx as usize - 1].0, [0u8; 32], vec![ME.to_string(), "n2".into(), "n3".into()], 0);
                    let _ = node.truncate_log(&meta);
                }
            }
            Op::ElectAsyncSendFails => {
                live.transport.fail.store(true, std::sync::atomic::Ordering::SeqCst);
                let _ = block_on(node.start_election_async());
                live.transport.fail.store(false, std::sync::atomic::Ordering::SeqCst);
                // whatever term the node now reports and acts in must survive a restart
                let t = node.current_term();
                m.term = m.term.max(t);
                if node.state() == RaftState::Candidate && t == cur + 1 {
                    m.votes.insert(t, ME.to_string());
                }
            }
        }
        live.full = node_log_with(&live.node, &known);
        m
    }
    fn recover_and_check(&self, dir: &str, states: &[Model], lo: usize, hi: usize, _epoch: usize) -> Result<Model, (String, String)> {
        let node = Self::open_node(dir).map_err(|e| ("restart-fails".to_string(), format!("RaftNode::with_wal fails: {e}")))?;
        let p = &states[lo];
        let term = node.current_term();
        if term < p.term {
            return Err(("term-forgotten".into(), format!("recovered term {term} < acted-on term {}", p.term)));
        }
        let log = node_log(&node);
        let l = &p.log;
        let h = &states[hi].log;
        let cpl = l.iter().zip(h.iter()).take_while(|(a, b)| a == b).count();
        let is_prefix = |a: &[(u64, u64)], b: &[(u64, u64)]| a.len() <= b.len() && a == &b[..a.len()];
        let via_install = |x: &Vec<(u64, u64)>| {
            let c = l.iter().zip(x.iter()).take_while(|(a, b)| a == b).count();
            log == *x || (is_prefix(&log, x) && log.len() >= c)
        };
        let ok = log == *l || (is_prefix(&log, h) && log.len() >= cpl) || p.installed.as_ref().is_some_and(via_install) || states[hi].installed.as_ref().is_some_and(via_install);
        if !ok {
            return Err(("acknowledged-entry-lost".into(), format!("recovered log {log:?}; acknowledged log {l:?} (op in progress would give {h:?})")));
        }
        // the vote: ask the real recovered node to vote for somebody else in the same term
        if let Some(c) = p.votes.get(&term) {
            let other = if c == "n2" { "n3" } else { "n2" };
            let resp = node.handle_message(&other.to_string(), &Message::RequestVote(RequestVote { term, candidate_id: other.into(), last_log_index: 99, last_log_term: 99, state_embedding: SparseVector::new(0) }));
            if let Some(Message::RequestVoteResponse(r)) = resp {
                if r.vote_granted && r.term == term {
                    return Err(("second-vote-in-term".into(), format!("voted for {c} in term {term} before the crash, grants {other} the same term after restart")));
                }
            }
        }
        let mut m = p.clone();
        m.term = term;
        m.log = log;
        m.installed = None;
        Ok(m)
    }
    fn describe(&self, m: &Model) -> String {
        format!("{}|{:?}|{:?}|{:?}", m.term, m.votes, m.log.iter().map(|x| x.0).collect::<Vec<_>>(), m.installed.as_ref().map(|x| x.len()))
    }
}

fn alphabet(level: u8) -> Vec<Op> {
    match level {
        // minimal (deep continuation)
        0 => vec![Op::Rv { cand: 2, dterm: 1, fresh: true }, Op::Ae { leader: 3, dterm: 0, n: 1, conflict: false }],
        // small
        1 => vec![
            Op::Rv { cand: 2, dterm: 1, fresh: true },
            Op::Rv { cand: 3, dterm: 0, fresh: true },
            Op::Ae { leader: 3, dterm: 0, n: 1, conflict: false },
            Op::Ae { leader: 2, dterm: 1, n: 1, conflict: true },
            Op::Elect,
            Op::ElectAsyncSendFails,
            Op::Install { n: 1 },
            Op::PreVoteHigherTerm,
        ],
        // full
        _ => vec![
            Op::Rv { cand: 2, dterm: 1, fresh: true },
            Op::Rv { cand: 3, dterm: 1, fresh: false },
            Op::Rv { cand: 3, dterm: 0, fresh: true },
            Op::Ae { leader: 3, dterm: 0, n: 0, conflict: false },
            Op::Ae { leader: 3, dterm: 0, n: 2, conflict: false },
            Op::Ae { leader: 2, dterm: 1, n: 1, conflict: false },
            Op::Ae { leader: 2, dterm: 1, n: 1, conflict: true },
            Op::Elect,
            Op::Win,
            Op::Ack,
            Op::Propose,
            Op::HigherTermResponse,
            Op::ElectAsyncSendFails,
            Op::Install { n: 0 },
            Op::Install { n: 2 },
            Op::Compact,
            Op::PreVoteHigherTerm,
        ],
    }
}

#[derive(Clone)]
struct Job {
    first: Vec<Op>,
    cont: Vec<Vec<Vec<Op>>>,
}

fn jobs(thorough: bool) -> Vec<Job> {
    let mut v = vec![];
    let plans: Vec<(u8, usize, Vec<(u8, usize)>)> = if thorough {
        vec![(2, 4, vec![]), (1, 3, vec![(1, 1)]), (1, 2, vec![(1, 2)]), (0, 2, vec![(0, 2), (0, 1)]), (1, 1, vec![(1, 1), (1, 1)])]
    } else {
        vec![(2, 3, vec![]), (1, 2, vec![(0, 1)]), (0, 1, vec![(0, 1), (0, 1)])]
    };
    for (level, len, cont) in plans {
        let cont: Vec<Vec<Vec<Op>>> = cont.iter().map(|(l, n)| seqs(&alphabet(*l), *n)).collect();
        for h in seqs(&alphabet(level), len) {
            v.push(Job { first: h, cont: cont.clone() });
        }
    }
    v
}

fn worker(i: usize, n: usize, thorough: bool) {
    let dir = format!("{}/c10", env::scratch_root());
    let subject = RaftSubject;
    let mut ex = Explorer::new(&subject, &dir);
    ex.cont_all_first = thorough;
    for (idx, job) in jobs(thorough).into_iter().enumerate() {
        if idx % n != i {
            continue;
        }
        ex.cont = job.cont.clone();
        ex.run(&job.first);
    }
    ex.stats.distinct_recovered = ex.seen.len() as u64;
    let stats = ex.stats.clone();
    env::scratch_cleanup();
    par::emit_result(&stats);
}

fn main() {
    env::require();
    let args = nvc::Args::parse();
    if let Some((i, n)) = args.worker {
        worker(i, n, args.thorough());
        return;
    }
    let mut rep = Report::new("C10", "fault_enumeration");
    let thorough = rep.thorough();
    rep.rule("histories: all sequences (quick <=3, thorough <=4) of {RequestVote from 2 candidates at term/term+1 with fresh/stale log, AppendEntries with 0-2 entries / higher term / conflicting suffix, election timeout, winning vote, ack, propose, higher-term response, snapshot install (snapshot produced by a real leader node), async election with a transport that refuses the broadcast, a pre-vote round answered with a higher term, log compaction (truncate_log, no trailing entries kept; the log is compared by absolute position)} on a real RaftNode::with_wal; crash images: every I/O-op boundary and every byte cut of every WAL write; epochs 2-3 continue on the node restarted from every distinct (thorough) / landmark (quick) image. non-trivial = torn image");
    rep.assume("crash model: prefix persistence; the Raft WAL fsyncs every record, so acknowledged = call returned");
    rep.assume("promises are read from the real node's answers (RequestVoteResponse.vote_granted, AppendEntriesResponse.success, propose Ok)");
    let results: Vec<Stats> = par::spawn_workers(par::worker_count(), &[]);
    let mut t = Stats::default();
    for s in results {
        t.merge(s);
    }
    for v in &t.violations {
        rep.violation(v.signature.clone(), v.message.clone(), v.replay.clone());
    }
    rep.add("evaluations", t.recoveries);
    rep.add("distinct_nontrivial", t.torn_images);
    rep.add("states", t.images);
    rep.add("transitions", t.recoveries);
    rep.add("traces_validated_against_impl", t.histories);
    rep.part("totals", json!({"histories_run": t.histories, "crash_images": t.images, "torn_images": t.torn_images, "recoveries_executed": t.recoveries, "images_by_epoch": t.images_by_epoch, "distinct_recovered_states_max_per_worker": t.distinct_recovered, "first_epoch_jobs": jobs(thorough).len()}));
    if let Some(s) = t.sample {
        rep.sample(s);
    }
    if t.violations.is_empty() && (t.torn_images < 100 || t.distinct_recovered < 5) {
        rep.machinery("vacuous: too few torn images / recovered states");
    }
    rep.finish();
}
