//! C08 — rolling back to a checkpoint restores exactly the checkpointed database (DESIGN §C08, engine E4).
//!
//! Real code under test: `QueryRouter::execute_parsed` (and `execute` for one statement) with blob +
//! checkpoint managers (`max_checkpoints = 2`, in the thorough tier also 1 and 3; auto-checkpoint off
//! in parts M/S/B, on in part A; plain or Bloom-filtered `TensorStore`), i.e.
//! `CheckpointManager::{create,create_auto,rollback,list}`, `QueryRouter::protect_destructive_op`,
//! `RetentionManager::enforce`, `TensorStore::{snapshot_bytes,restore_from_bytes,get,exists}`.
//!
//! Part M (main): breadth-first over statement histories from a small collision-forcing alphabet
//!   (one table with two rows, nodes 1/2 and the edge 1->2, embeddings a/b, CHECKPOINT '<name k>',
//!   ROLLBACK TO '<name j>' for every checkpoint the reference says is retained).  A state *is* its
//!   history: to expand it the history is replayed on a fresh router (own OS thread, fixed entropy
//!   seed) and one more statement is executed.  After every statement a fixed read battery is taken.
//!   Oracle (differential, no expected values): the battery right after `ROLLBACK TO c` equals the
//!   battery recorded right before `CHECKPOINT c` ran; the checkpoint list equals the reference
//!   (newest two created, unaffected by data statements and by rollbacks).  After each rollback a
//!   tail is run on the same router: one write of every kind must succeed and be readable, then
//!   `ROLLBACK TO c` again, then to the other retained checkpoint and back.
//! Part S: three to five checkpoints taken within the same clock second, under several hash seeds:
//!   the newest two must be the ones kept.
//! Part A (auto-checkpoints): the same BFS on a router whose checkpoint manager has auto-checkpoint ON
//!   (interactive confirmation off) over a destructive-heavy alphabet.  Whatever checkpoint a data
//!   statement creates (`QueryRouter::protect_destructive_op` -> `CheckpointManager::create_auto`) is
//!   learnt from the CHECKPOINTS listing (new id, is_auto) and entered into the reference in creation
//!   order together with the manual ones; its recorded battery is the one taken right BEFORE that
//!   statement ran.  Retention and rollback (by id, auto names are not unique) are checked for them
//!   exactly as for manual checkpoints.  The harness does not demand that any statement creates an
//!   auto-checkpoint (the property does not), it only counts them (non-vacuity).
//! Part B (Bloom-filtered store): the BFS of part M (one level shallower) on
//!   `QueryRouter::with_shared_store(TensorStore::with_bloom_filter(4096, 0.001))`; a violating history
//!   is re-run on the plain store: what fails only with the filter gets a `c08:bloom-store:` signature.
//! Checkpoint names (all parts): the k-th manual checkpoint of a history is named by k letters 'c'
//!   ('c', 'cc', 'ccc', scheme 0) or by 13-k letters (scheme 1), so any two retained names stand in a
//!   proper-prefix relation, in one direction or the other.  The ROLLBACK under test addresses a manual
//!   checkpoint by name; the tail addresses it by its full id as well.  If after a successful ROLLBACK the
//!   database is exactly the image of ANOTHER retained checkpoint the signature is
//!   `c08:rollback-by-name-restores-another-checkpoint` (`-by-id-`).  Abbreviated ids are not used: the
//!   book (query-language.md, tensor-checkpoint.md) and the shell help promise lookup by name or id only.
//! Parts Q (query cache) and E (entry points): the BFS of part M on a router with `init_cache()` and/or
//!   with every statement going through `execute_parsed_async` (driven by `QueryRouter::block_on`), or
//!   with CHECKPOINT / ROLLBACK TO going through `execute` / `execute_for_cluster`.  With the cache on the
//!   cacheable reads of the battery run before the first and after every statement, so a ROLLBACK always
//!   meets a cache filled with the pre-rollback answers; the same texts must return the record afterwards.
//!   What fails only with the cache is `c08:query-cache:stale-after-rollback:<sync|async|..>`, what fails
//!   only through another entry point `c08:<async|..>-entry:<check>`.
//! The parts are explored concurrently (a thread per part, worker processes per BFS level); their reports
//!   are applied in part order, so the evidence does not depend on the interleaving.
use nvc::Report;
use query_router::{QueryResult, QueryRouter};
use serde_json::{json, Value};
use std::collections::{BTreeMap, HashSet};
use std::hash::{Hash, Hasher};
use tensor_checkpoint::CheckpointConfig;
use tensor_store::TensorStore;

// per thread: parts with different max_checkpoints are explored concurrently; a thread that is
// spawned for a replay inherits the value of the thread that spawns it (run_isolated, part_s)
thread_local! {
    static MAX_CP: std::cell::Cell<usize> = const { std::cell::Cell::new(2) };
}
fn set_max_cp(k: usize) {
    MAX_CP.with(|c| c.set(k));
}
/// the configured `max_checkpoints` of the routers built by this process
fn max_cp() -> usize {
    MAX_CP.with(std::cell::Cell::get)
}
/// router configuration of a part: auto-checkpoint on/off, store kind (0 = TensorStore::new(),
/// 1 = with_bloom_filter(4096, 0.001), 2 = with_default_bloom_filter())
#[derive(Clone, Copy, PartialEq, Eq, Debug, Default)]
struct Cfg {
    auto: bool,
    bloom: u8,
    /// the router's query cache is enabled (`QueryRouter::init_cache()`); the read battery then runs
    /// before the first and after every statement, so that every cacheable answer sits in the cache
    cache: bool,
    /// entry point the statements go through: 0 = `execute_parsed`, 1 = `execute_parsed_async`
    /// (driven by `QueryRouter::block_on`), 2 = CHECKPOINT / ROLLBACK TO through the string-command
    /// entry point `execute`, the rest through `execute_parsed`, 3 = CHECKPOINT / ROLLBACK TO through
    /// `execute_for_cluster` (what `QueryExecutor::execute` calls for remote queries), the rest
    /// through `execute_parsed`
    entry: u8,
    /// checkpoint naming scheme: 0 = the k-th checkpoint is named by k letters 'c' (every older name is
    /// a proper prefix of every newer one), 1 = by NAME_MAX+1-k letters (every newer name is a proper
    /// prefix of every older one)
    names: u8,
}
/// longest checkpoint name of naming scheme 1 (histories have at most 8 statements)
const NAME_MAX: usize = 12;
/// name of the k-th (1-based) manual checkpoint of a history
fn cp_name(k: usize, scheme: u8) -> String {
    assert!(k >= 1 && k <= NAME_MAX, "checkpoint ordinal {k} outside the naming scheme");
    match scheme {
        0 => "c".repeat(k),
        _ => "c".repeat(NAME_MAX + 1 - k),
    }
}
/// inverse of `cp_name`
fn cp_ordinal(name: &str, scheme: u8) -> usize {
    assert!(!name.is_empty() && name.len() <= NAME_MAX && name.bytes().all(|b| b == b'c'), "not a checkpoint name of this harness: {name}");
    match scheme {
        0 => name.len(),
        _ => NAME_MAX + 1 - name.len(),
    }
}
/// a and b are different and one is a prefix of the other
fn prefix_related(a: &str, b: &str) -> bool {
    a != b && (a.starts_with(b) || b.starts_with(a))
}
impl Cfg {
    fn encode(self) -> usize {
        usize::from(self.auto) | (self.bloom as usize) << 1 | usize::from(self.cache) << 3 | (self.entry as usize) << 4 | (self.names as usize) << 6
    }
    fn decode(v: usize) -> Cfg {
        Cfg { auto: v & 1 == 1, bloom: ((v >> 1) & 3) as u8, cache: (v >> 3) & 1 == 1, entry: ((v >> 4) & 3) as u8, names: ((v >> 6) & 1) as u8 }
    }
    fn entry_name(self) -> &'static str {
        match self.entry {
            0 => "execute_parsed",
            1 => "execute_parsed_async",
            2 => "execute(CHECKPOINT/ROLLBACK)+execute_parsed",
            _ => "execute_for_cluster(CHECKPOINT/ROLLBACK)+execute_parsed",
        }
    }
    /// short form used in signatures
    fn entry_tag(self) -> &'static str {
        match self.entry {
            0 => "sync",
            1 => "async",
            2 => "legacy-execute",
            _ => "cluster-execute",
        }
    }
    fn from_entry_name(n: &str) -> u8 {
        if n.contains("async") {
            1
        } else if n.starts_with("execute(") {
            2
        } else if n.starts_with("execute_for_cluster(") {
            3
        } else {
            0
        }
    }
    fn names_name(self) -> &'static str {
        match self.names {
            0 => "k-th checkpoint = k x 'c' (older names are prefixes of newer ones)",
            _ => "k-th checkpoint = (13-k) x 'c' (newer names are prefixes of older ones)",
        }
    }
    fn from_names_name(n: &str) -> u8 {
        u8::from(n.contains("13-k"))
    }
    fn store_name(self) -> &'static str {
        match self.bloom {
            0 => "TensorStore::new()",
            1 => "TensorStore::with_bloom_filter(4096, 0.001)",
            _ => "TensorStore::with_default_bloom_filter()",
        }
    }
    fn from_store_name(n: &str) -> u8 {
        if n.contains("with_bloom_filter") {
            1
        } else if n.contains("default_bloom") {
            2
        } else {
            0
        }
    }
}
const NODE_IDS: u64 = 9;
const EDGE_IDS: u64 = 4;

#[derive(Clone, Copy, PartialEq, Eq, Hash, Debug, PartialOrd, Ord)]
enum St {
    CreateTable,
    Ins1,
    Ins2,
    Del1,
    Upd1,
    DropTable,
    NodeCreate,
    EdgeCreate,
    NodeDel1,
    EdgeDel1,
    EmbA1,
    EmbA2,
    EmbB,
    EmbDelA,
    Checkpoint,
    /// ROLLBACK TO the checkpoint with this creation ordinal (manual: by name 'c<j>', automatic: by id)
    Rollback(u8),
    /// `DROP TABLE t` through the string-command entry point `QueryRouter::execute` (the only DROP
    /// TABLE path that goes through `protect_destructive_op`)
    DropTableX,
}

#[derive(Clone, Copy, PartialEq, Eq, Debug)]
enum Fam {
    Rel,
    Graph,
    Vector,
}
impl Fam {
    fn name(self) -> &'static str {
        match self {
            Fam::Rel => "relational",
            Fam::Graph => "graph",
            Fam::Vector => "vector",
        }
    }
}

/// canonical result of one read: None = the query failed, Some = sorted multiset of items
type Res = Option<Vec<String>>;

#[derive(Clone, PartialEq, Eq, Hash, Debug, Default)]
struct Obs {
    /// (family index, query text, result)
    reads: Vec<(u8, String, Res)>,
}

fn canon(r: &Result<QueryResult, query_router::RouterError>) -> Res {
    let q = match r {
        Err(_) => return None,
        Ok(q) => q,
    };
    let mut items: Vec<String> = match q {
        QueryResult::Empty => vec![],
        QueryResult::Value(v) => vec![format!("value {v}")],
        QueryResult::Count(n) => vec![format!("count {n}")],
        QueryResult::Ids(ids) => ids.iter().map(|i| format!("id {i}")).collect(),
        // the internal row id is deliberately not part of the observation
        QueryResult::Rows(rows) => rows.iter().map(|r| format!("row {:?}", r.values)).collect(),
        QueryResult::Nodes(ns) => ns
            .iter()
            .map(|n| {
                let p: BTreeMap<_, _> = n.properties.iter().collect();
                format!("node {} {} {:?}", n.id, n.label, p)
            })
            .collect(),
        QueryResult::Edges(es) => es.iter().map(|e| format!("edge {} {}->{} {}", e.id, e.from, e.to, e.label)).collect(),
        QueryResult::Similar(ss) => ss.iter().map(|s| format!("sim {} {:.4}", s.key, s.score)).collect(),
        other => vec![format!("{other:?}")],
    };
    items.sort();
    Some(items)
}

fn battery_queries() -> Vec<(Fam, String)> {
    let mut v = vec![(Fam::Rel, "SELECT * FROM t".to_string()), (Fam::Rel, "SELECT * FROM t WHERE id = 1".to_string())];
    for i in 1..=NODE_IDS {
        v.push((Fam::Graph, format!("NODE GET {i}")));
        v.push((Fam::Graph, format!("NEIGHBORS {i}")));
        v.push((Fam::Graph, format!("NEIGHBORS {i} INCOMING")));
    }
    for i in 1..=EDGE_IDS {
        v.push((Fam::Graph, format!("EDGE GET {i}")));
    }
    v.push((Fam::Graph, "NODE LIST".to_string()));
    v.push((Fam::Graph, "EDGE LIST".to_string()));
    for k in ["a", "b", "z"] {
        v.push((Fam::Vector, format!("EMBED GET '{k}'")));
    }
    v.push((Fam::Vector, "SIMILAR [1.0, 0.0] LIMIT 10".to_string()));
    v.push((Fam::Vector, "SIMILAR 'b' LIMIT 10".to_string()));
    v
}

/// reads of the battery whose answers the router's query cache keeps (`QueryRouter::is_cacheable_statement`)
fn is_cacheable(q: &str) -> bool {
    q.starts_with("SELECT") || q.starts_with("NEIGHBORS") || q.starts_with("SIMILAR")
}
fn is_scan(q: &str) -> bool {
    q.contains(" LIST")
}
impl Obs {
    fn cheap(&self) -> Obs {
        Obs { reads: self.reads.iter().filter(|r| !is_scan(&r.1)).cloned().collect() }
    }
}

fn fam_of(i: u8) -> Fam {
    [Fam::Rel, Fam::Graph, Fam::Vector][i as usize]
}
fn fam_idx(f: Fam) -> u8 {
    match f {
        Fam::Rel => 0,
        Fam::Graph => 1,
        Fam::Vector => 2,
    }
}

/// one entry of the CHECKPOINTS listing
#[derive(Clone, Debug)]
struct Listed {
    id: String,
    name: String,
    auto: bool,
}

struct Sys {
    r: QueryRouter,
    queries: Vec<(Fam, String)>,
    cfg: Cfg,
}
impl Sys {
    fn new(cfg: Cfg) -> Sys {
        let store = match cfg.bloom {
            0 => TensorStore::new(),
            1 => TensorStore::with_bloom_filter(4096, 0.001),
            _ => TensorStore::with_default_bloom_filter(),
        };
        assert_eq!(store.has_bloom_filter(), cfg.bloom != 0);
        let mut r = QueryRouter::with_shared_store(store);
        r.init_blob().expect("init_blob");
        r.init_checkpoint_with_config(CheckpointConfig::default().with_max_checkpoints(max_cp()).with_auto_checkpoint(cfg.auto).with_interactive_confirm(false)).expect("init_checkpoint");
        if cfg.cache {
            r.init_cache();
            assert!(r.cache().is_some());
        }
        Sys { r, queries: battery_queries(), cfg }
    }
    /// every statement and every read of the harness goes through the entry point of the configuration
    fn exec(&self, s: &str) -> Result<QueryResult, query_router::RouterError> {
        match self.cfg.entry {
            0 => self.r.execute_parsed(s),
            // NODE LIST / EDGE LIST build a tokio runtime of their own inside the router, which tokio
            // refuses inside `block_on`: these two scans (never cached) stay on the synchronous entry
            1 if !is_scan(s) => self.r.block_on(self.r.execute_parsed_async(s)).expect("the router has a runtime once init_blob() ran"),
            2 if s.starts_with("CHECKPOINT ") || s.starts_with("ROLLBACK ") => self.r.execute(s),
            // the serialized result is not decoded (CHECKPOINT / ROLLBACK results are only looked at as Ok / Err)
            3 if s.starts_with("CHECKPOINT ") || s.starts_with("ROLLBACK ") => self.r.execute_for_cluster(s).map(|_| QueryResult::Empty).map_err(query_router::RouterError::CheckpointError),
            _ => self.r.execute_parsed(s),
        }
    }
    /// a statement of the alphabet: everything goes through `exec` except `DropTableX`
    fn exec_st(&self, st: St, text: &str) -> Result<QueryResult, query_router::RouterError> {
        match st {
            St::DropTableX => self.r.execute("DROP TABLE t"),
            _ => self.exec(text),
        }
    }
    /// run the reads of the battery whose answers the router caches (SELECT, NEIGHBORS, SIMILAR); returns their number
    fn fill_cache(&self) -> u64 {
        let mut n = 0;
        for (_, q) in self.queries.iter().filter(|(_, q)| is_cacheable(q)) {
            let _ = self.exec(q);
            n += 1;
        }
        n
    }
    /// entries in the router's query cache (0 without a cache)
    fn cached_entries(&self) -> u64 {
        self.r.cache().map_or(0, |c| c.len() as u64)
    }
    /// full = including the LIST scans (each of them builds a tokio runtime inside the router: ~0.5 ms)
    /// The reads the router caches (SELECT, NEIGHBORS, SIMILAR) are executed first, the others after
    /// them: the router counts every NODE / EDGE / EMBED statement, NODE GET and NODE LIST included, as
    /// a write that empties the query cache, so in battery order the cache would be emptied before
    /// SIMILAR is asked again.  The observation itself is in battery order.
    fn observe(&self, full: bool) -> Obs {
        let qs: Vec<&(Fam, String)> = self.queries.iter().filter(|(_, q)| full || !is_scan(q)).collect();
        let mut res: Vec<Option<Res>> = vec![None; qs.len()];
        for pass in [true, false] {
            for (i, (_, q)) in qs.iter().enumerate() {
                if is_cacheable(q) == pass {
                    res[i] = Some(canon(&self.exec(q)));
                }
            }
        }
        Obs { reads: qs.iter().zip(res).map(|((f, q), r)| (fam_idx(*f), q.clone(), r.expect("every read executed"))).collect() }
    }
    /// what CHECKPOINTS lists, most recent first (None = the statement failed)
    fn listed(&self) -> Option<Vec<Listed>> {
        match self.exec("CHECKPOINTS LIMIT 100") {
            Ok(QueryResult::CheckpointList(l)) => Some(l.into_iter().map(|c| Listed { id: c.id, name: c.name, auto: c.is_auto }).collect()),
            _ => None,
        }
    }
}

#[derive(Clone, Debug, serde::Serialize, serde::Deserialize)]
struct Viol {
    sig: String,
    msg: String,
    replay: Value,
}

/// a checkpoint the reference knows about
#[derive(Clone, Debug, PartialEq, Eq)]
struct Cp {
    /// creation ordinal over manual and automatic checkpoints together (1-based)
    ord: u8,
    name: String,
    id: String,
    auto: bool,
}
impl Cp {
    fn label(&self) -> String {
        if self.auto {
            format!("#{}:{}", self.ord, self.name)
        } else {
            self.name.clone()
        }
    }
    fn has_id(&self) -> bool {
        !self.id.is_empty() && self.id != "<not listed>"
    }
    /// what ROLLBACK TO is given: automatic checkpoints always by their full id (their names are not
    /// unique), manual ones by their (unique) name or, where `by_id` asks for it and the id is known
    /// from the CHECKPOINTS listing, by their full id.  (Abbreviated ids are not used: neither the
    /// book nor the shell help promise a prefix lookup.)
    fn target(&self, by_id: bool) -> String {
        if self.addressed_by_id(by_id) {
            self.id.clone()
        } else {
            self.name.clone()
        }
    }
    fn addressed_by_id(&self, by_id: bool) -> bool {
        self.auto || (by_id && self.has_id())
    }
}

#[derive(Default)]
struct Model {
    /// retained checkpoints per the reference, oldest first
    live: Vec<Cp>,
    /// every checkpoint ever created, in creation order
    all: Vec<Cp>,
    /// battery recorded right before the checkpoint with this ordinal was taken
    rec: BTreeMap<u8, Obs>,
    created: usize,
    node_creates: usize,
    edge_creates: usize,
    rollbacks: usize,
    /// families that an earlier rollback of this history restored wrongly (sticky): their
    /// post-rollback write probes are skipped, the cause has been reported at that earlier step
    tainted: Vec<Fam>,
    /// naming scheme of the manual checkpoints (Cfg::names)
    names: u8,
}
impl Model {
    fn knows(&self, id: &str) -> bool {
        self.all.iter().any(|c| c.id == id)
    }
    fn cp(&self, ord: u8) -> Cp {
        self.all.iter().find(|c| c.ord == ord).cloned().unwrap_or(Cp { ord, name: cp_name(ord as usize, self.names), id: String::new(), auto: false })
    }
    /// enter a new checkpoint as the newest one and apply count-based retention
    /// returns the number of checkpoints the reference purges
    fn push(&mut self, cp: Cp, rec: Obs) -> u64 {
        self.rec.insert(cp.ord, rec);
        self.all.push(cp.clone());
        self.live.push(cp);
        let mut purged = 0;
        while self.live.len() > max_cp() {
            self.live.remove(0);
            purged += 1;
        }
        purged
    }
}

/// (text that is executed, text that is shown in messages / replay files)
fn text_of(s: St, m: &Model) -> (String, String) {
    let t: String = match s {
        St::CreateTable => "CREATE TABLE t (id INT, name TEXT)".into(),
        St::Ins1 => "INSERT INTO t (id, name) VALUES (1, 'x')".into(),
        St::Ins2 => "INSERT INTO t (id, name) VALUES (2, 'y')".into(),
        St::Del1 => "DELETE FROM t WHERE id = 1".into(),
        St::Upd1 => "UPDATE t SET name = 'u' WHERE id = 1".into(),
        St::DropTable => "DROP TABLE t".into(),
        St::DropTableX => return ("DROP TABLE t".into(), "DROP TABLE t /* via QueryRouter::execute */".into()),
        St::NodeCreate => format!("NODE CREATE p {{k: {}}}", m.node_creates + 1),
        St::EdgeCreate => "EDGE CREATE 1 -> 2 : e".into(),
        St::NodeDel1 => "NODE DELETE 1".into(),
        St::EdgeDel1 => "EDGE DELETE 1".into(),
        St::EmbA1 => "EMBED STORE 'a' [1.0, 0.0]".into(),
        St::EmbA2 => "EMBED STORE 'a' [0.0, 1.0]".into(),
        St::EmbB => "EMBED STORE 'b' [0.6, 0.8]".into(),
        St::EmbDelA => "EMBED DELETE 'a'".into(),
        St::Checkpoint => format!("CHECKPOINT '{}'", cp_name(m.created + 1, m.names)),
        St::Rollback(j) => {
            let cp = m.cp(j);
            let t = format!("ROLLBACK TO '{}'", cp.target(false));
            if cp.auto {
                return (t.clone(), format!("{t} /* checkpoint #{j} {} */", cp.name));
            }
            t
        }
    };
    (t.clone(), t)
}

/// is `a` a sub-multiset of `b` (both sorted)
fn sub_multiset(a: &[String], b: &[String]) -> bool {
    let (mut i, mut j) = (0, 0);
    while i < a.len() {
        while j < b.len() && b[j] < a[i] {
            j += 1;
        }
        if j >= b.len() || b[j] != a[i] {
            return false;
        }
        i += 1;
        j += 1;
    }
    true
}

/// first differing read of one family: (query, kind, recorded, now)
fn first_diff(rec: &Obs, now: &Obs, fam: Fam) -> Option<(String, &'static str, Res, Res)> {
    for ((f, q, a), (_, _, b)) in rec.reads.iter().zip(&now.reads) {
        if fam_of(*f) != fam || a == b {
            continue;
        }
        let kind = match (a, b) {
            (Some(_), None) => "missing",
            (None, Some(_)) => "extra",
            (Some(x), Some(y)) => {
                if sub_multiset(y, x) {
                    "missing"
                } else if sub_multiset(x, y) {
                    "extra"
                } else {
                    "differs"
                }
            }
            (None, None) => unreachable!(),
        };
        return Some((q.clone(), kind, a.clone(), b.clone()));
    }
    None
}

#[derive(Default, serde::Serialize, serde::Deserialize)]
struct Outcome {
    viols: Vec<Viol>,
    key: (u64, u64),
    live_ordinals: Vec<u8>,
    statements: u64,
    reads: u64,
    rollback_checks: u64,
    /// hash of (recorded, state before the rollback) when they differ; data added / removed since; target is an auto-checkpoint
    nontrivial: Vec<(u64, bool, bool, bool)>,
    retention_checks: u64,
    purges: u64,
    /// the following four are counted for the last statement of the history only
    /// names of the auto-checkpoints the last statement created
    auto_created: Vec<String>,
    /// checkpoints the reference purged because of them
    auto_purges: u64,
    /// main rollback checks whose target is an auto-checkpoint
    auto_rollback_checks: u64,
    /// retained set at the end (after the last statement) mixes manual and automatic checkpoints
    mixed_retained: bool,
    /// statements actually executed, as shown in messages (not sent back by worker processes)
    #[serde(skip)]
    texts: Vec<String>,
    tail_writes: u64,
    tail_skipped_tainted: u64,
    tail_rollbacks: u64,
    data_fingerprint: u64,
    /// ROLLBACK statements under test (main and tail) addressed by name / by full id
    rollbacks_by_name: u64,
    rollbacks_by_id: u64,
    /// of those by name: another retained checkpoint has a name of which the target's name is a proper
    /// prefix / which is a proper prefix of the target's name
    name_is_prefix_of_other: u64,
    other_is_prefix_of_name: u64,
    /// of those by name: a retained checkpoint with a prefix-related name has a different recorded
    /// battery (resolving the name to that one would be noticed)
    prefix_confusable: u64,
    /// ROLLBACK statements under test that ran while the query cache held entries; sum of the entries
    rollbacks_with_populated_cache: u64,
    cached_entries_before_rollbacks: u64,
    /// batteries taken only to fill the query cache
    cache_filling_batteries: u64,
    /// main rollback checks where an answer that sat in the query cache when ROLLBACK ran differs
    /// from the recorded one (serving it after the rollback would be noticed)
    cached_answer_differs_from_record: u64,
}

fn h64<T: Hash>(t: &T, salt: u64) -> u64 {
    #[allow(deprecated)]
    let mut h = std::hash::SipHasher::new_with_keys(0x0123_4567_89ab_cdef ^ salt, 0xfedc_ba98_7654_3210);
    t.hash(&mut h);
    h.finish()
}

struct Ctx<'a> {
    hist_text: Vec<String>,
    hist_codes: Vec<u8>,
    cfg: Cfg,
    out: &'a mut Outcome,
    report: bool,
    selftest: bool,
}
impl Ctx<'_> {
    fn viol(&mut self, sig: &str, msg: String, extra: Value) {
        if !self.report {
            return;
        }
        let mut replay = json!({"max_checkpoints": max_cp(), "auto_checkpoint": self.cfg.auto, "store": self.cfg.store_name(), "query_cache": self.cfg.cache, "entry_point": self.cfg.entry_name(), "checkpoint_names": self.cfg.names_name(), "history": self.hist_text, "history_codes": self.hist_codes, "clock": "frozen; +1500 ms before every CHECKPOINT"});
        if let (Some(o), Some(e)) = (replay.as_object_mut(), extra.as_object()) {
            for (k, v) in e {
                o.insert(k.clone(), v.clone());
            }
        }
        self.out.viols.push(Viol { sig: sig.to_string(), msg: format!("after {:?}: {msg}", self.hist_text), replay });
    }
}

/// compare the listed checkpoints (by id) with the reference; report per category; resynchronise the
/// reference to what the system lists so that one defect is reported once per history.
/// `cause`: "checkpoint" (a manual CHECKPOINT ran), "auto" (a data statement created auto-checkpoints),
/// "data" (a data statement that created none), "rollback".
/// returns true if the target (if any) is still listed
fn compare_list(listed: Option<Vec<Listed>>, m: &mut Model, cx: &mut Ctx, cause: &str, target: Option<&Cp>) -> bool {
    let listed = match listed {
        Some(l) => l,
        None => {
            cx.viol("c08:checkpoints-statement-fails", "CHECKPOINTS returned an error".into(), json!({"phase": cause}));
            return true;
        }
    };
    let mut target_ok = true;
    let same = listed.len() == m.live.len() && m.live.iter().all(|c| listed.iter().any(|l| l.id == c.id));
    if !same {
        let label = |l: &Listed| m.all.iter().find(|c| c.id == l.id).map(|c| c.label()).unwrap_or_else(|| format!("unknown:{}", l.name));
        // both oldest first
        let want: Vec<String> = m.live.iter().map(|c| c.label()).collect();
        let got: Vec<String> = listed.iter().rev().map(label).collect();
        let missing: Vec<Cp> = m.live.iter().filter(|c| !listed.iter().any(|l| l.id == c.id)).cloned().collect();
        let extra: Vec<String> = listed.iter().rev().filter(|l| !m.live.iter().any(|c| c.id == l.id)).map(label).collect();
        match cause {
            "rollback" => {
                let t = target.unwrap();
                let tl = t.label();
                let mut cats: Vec<&str> = vec![];
                for n in &missing {
                    let c = if n.ord == t.ord {
                        target_ok = false;
                        "target"
                    } else if n.ord < t.ord {
                        "older"
                    } else {
                        "newer"
                    };
                    if !cats.contains(&c) {
                        cats.push(c);
                    }
                }
                for c in cats {
                    cx.viol(&format!("c08:rollback-changes-checkpoint-list:{c}-dropped"), format!("ROLLBACK TO '{tl}' succeeded; retained checkpoints before it {want:?}, listed after it {got:?} ({c} checkpoint no longer listed)"), json!({"phase": "list-after-rollback", "retained_before": want, "listed_after": got}));
                }
                if !extra.is_empty() {
                    cx.viol("c08:rollback-changes-checkpoint-list:purged-resurrected", format!("ROLLBACK TO '{tl}': purged checkpoints listed again: {extra:?}"), json!({"phase": "list-after-rollback", "retained_before": want, "listed_after": got}));
                }
            }
            "checkpoint" => {
                cx.viol("c08:retention-keeps-wrong-set", format!("max_checkpoints={}: reference keeps the newest {want:?}, CHECKPOINTS lists {got:?}", max_cp()), json!({"phase": "list-after-checkpoint", "want": want, "listed": got}));
            }
            "auto" => {
                if listed.len() > max_cp() {
                    cx.viol("c08:auto-checkpoint:retention-exceeds-limit", format!("max_checkpoints={}: after the statement created an auto-checkpoint {} checkpoints are retained: {got:?}; the newest {} are {want:?}", max_cp(), listed.len(), max_cp()), json!({"phase": "list-after-auto-checkpoint", "want": want, "listed": got}));
                } else {
                    cx.viol("c08:auto-checkpoint:retention-keeps-wrong-set", format!("max_checkpoints={}: after the statement created an auto-checkpoint the reference keeps the newest {want:?}, CHECKPOINTS lists {got:?}", max_cp()), json!({"phase": "list-after-auto-checkpoint", "want": want, "listed": got}));
                }
            }
            _ => {
                cx.viol("c08:data-statement-changes-checkpoint-list", format!("a {cause} statement changed the checkpoint list from {want:?} to {got:?}"), json!({"phase": "list-after-data-statement", "want": want, "listed": got}));
            }
        }
        // resynchronise (oldest first by ordinal); listed entries the reference has never seen are
        // not adopted (they have no recorded battery)
        let mut l: Vec<Cp> = listed.iter().filter_map(|l| m.all.iter().find(|c| c.id == l.id).cloned()).collect();
        l.sort_by_key(|c| c.ord);
        m.live = l;
    }
    target_ok
}

fn check_list(sys: &Sys, m: &mut Model, cx: &mut Ctx, cause: &str, target: Option<&Cp>) -> bool {
    compare_list(sys.listed(), m, cx, cause, target)
}

/// compare now with the record of `cp`; returns the families that differ
/// the battery recorded for the checkpoint with this ordinal
fn recorded(m: &Model, ord: u8, selftest: bool) -> Obs {
    let mut rec = m.rec.get(&ord).expect("recorded observation").clone();
    if selftest {
        // deliberately corrupt the reference: pretend embedding 'z' existed at the checkpoint
        for r in rec.reads.iter_mut() {
            if r.1 == "EMBED GET 'z'" {
                r.2 = Some(vec!["value [9.0, 9.0]".into()]);
            }
        }
    }
    rec
}

fn check_restored(sys: &Sys, m: &Model, cx: &mut Ctx, cp: &Cp, phase: &str, by_id: bool) -> (Obs, Vec<Fam>) {
    let now = sys.observe(true);
    cx.out.reads += now.reads.len() as u64;
    let rec = recorded(m, cp.ord, cx.selftest);
    let name = cp.label();
    let (pre, took) = if cp.auto { ("c08:auto-checkpoint:rollback-data", "right before the statement that triggered the auto-checkpoint ran") } else { ("c08:rollback-data", "when the checkpoint was taken") };
    let mut bad = vec![];
    if rec != now {
        // the database is not the image of the target: is it exactly the image of another retained checkpoint?
        let other = m.live.iter().filter(|o| o.ord != cp.ord).find(|o| recorded(m, o.ord, cx.selftest) == now);
        if let Some(o) = other {
            for fam in [Fam::Rel, Fam::Graph, Fam::Vector] {
                if first_diff(&rec, &now, fam).is_some() {
                    bad.push(fam);
                }
            }
            let (q, _, a, b) = [Fam::Rel, Fam::Graph, Fam::Vector].iter().find_map(|f| first_diff(&rec, &now, *f)).expect("a differing read");
            let (how, given) = if cp.addressed_by_id(by_id) { ("id", cp.id.clone()) } else { ("name", cp.name.clone()) };
            let rel = if prefix_related(&given, &o.name) || prefix_related(&given, &o.id) { " (the given string is in a prefix relation with that checkpoint's name or id)" } else { "" };
            cx.viol(
                &format!("c08:rollback-by-{how}-restores-another-checkpoint"),
                format!("ROLLBACK TO '{given}' ({phase}; checkpoint '{name}' addressed by its {how}) succeeded but restored the retained checkpoint '{}' (id {}){rel}: every read equals the battery recorded for '{}', e.g. `{q}` returned {a:?} {took} and returns {b:?} now", o.label(), o.id, o.label()),
                json!({"phase": phase, "checkpoint": name, "addressed_by": how, "given": given, "restored_instead": o.label(), "query": q, "at_checkpoint": a, "after_rollback": b}),
            );
            return (now, bad);
        }
    }
    for fam in [Fam::Rel, Fam::Graph, Fam::Vector] {
        if let Some((q, kind, a, b)) = first_diff(&rec, &now, fam) {
            bad.push(fam);
            let what = match kind {
                "missing" => "data that existed at the checkpoint is missing",
                "extra" => "data added after the checkpoint is still there",
                _ => "result differs",
            };
            cx.viol(
                &format!("{pre}:{}:{kind}", fam.name()),
                format!("ROLLBACK TO '{name}' ({phase}) succeeded but {what}: `{q}` returned {a:?} {took} and returns {b:?} now"),
                json!({"phase": phase, "checkpoint": name, "query": q, "at_checkpoint": a, "after_rollback": b}),
            );
        }
    }
    (now, bad)
}

/// `by_id`: address a manual checkpoint by its full id instead of its name (automatic ones always by id)
fn rollback_and_check(sys: &Sys, m: &mut Model, cx: &mut Ctx, cp: &Cp, phase: &str, by_id: bool) -> Option<(Obs, Vec<Fam>, bool)> {
    let stmt = format!("ROLLBACK TO '{}'", cp.target(by_id));
    let name = cp.label();
    cx.out.statements += 1;
    if cp.addressed_by_id(by_id) {
        cx.out.rollbacks_by_id += 1;
    } else {
        cx.out.rollbacks_by_name += 1;
        let others: Vec<&Cp> = m.live.iter().filter(|o| o.ord != cp.ord && !o.auto).collect();
        cx.out.name_is_prefix_of_other += u64::from(others.iter().any(|o| o.name != cp.name && o.name.starts_with(&cp.name)));
        cx.out.other_is_prefix_of_name += u64::from(others.iter().any(|o| o.name != cp.name && cp.name.starts_with(&o.name)));
        cx.out.prefix_confusable += u64::from(others.iter().any(|o| prefix_related(&o.name, &cp.name) && m.rec.get(&o.ord).map(Obs::cheap) != m.rec.get(&cp.ord).map(Obs::cheap)));
    }
    if sys.cfg.cache {
        // the battery before this point ended with reads that the router counts as writes: put every
        // cacheable answer (back) into the cache right before the ROLLBACK
        cx.out.reads += sys.fill_cache();
        cx.out.cache_filling_batteries += 1;
    }
    let cached = sys.cached_entries();
    cx.out.rollbacks_with_populated_cache += u64::from(cached > 0);
    cx.out.cached_entries_before_rollbacks += cached;
    match sys.exec(&stmt) {
        Err(e) => {
            let kind = if format!("{e}").contains("not found") { "not-found" } else { "error" };
            let pre = if cp.auto { "c08:auto-checkpoint:rollback-fails" } else { "c08:rollback-fails" };
            cx.viol(&format!("{pre}:{kind}"), format!("`{stmt}` ({phase}) failed with `{e}` although '{name}' is a retained, listed checkpoint"), json!({"phase": phase, "checkpoint": name, "error": format!("{e}")}));
            None
        }
        Ok(_) => {
            m.rollbacks += 1;
            cx.out.rollback_checks += 1;
            let (now, bad) = check_restored(sys, m, cx, cp, phase, by_id);
            let target_ok = check_list(sys, m, cx, "rollback", Some(cp));
            Some((now, bad, target_ok))
        }
    }
}

fn expect_ok(sys: &Sys, cx: &mut Ctx, fam: Fam, stmt: &str) -> Option<QueryResult> {
    cx.out.statements += 1;
    match sys.exec(stmt) {
        Ok(r) => Some(r),
        Err(e) => {
            cx.viol(&format!("c08:post-rollback-write:{}:fails", fam.name()), format!("after the rollback `{stmt}` failed with `{e}`"), json!({"phase": "tail-writes", "statement": stmt, "error": format!("{e}")}));
            None
        }
    }
}

/// one write of every kind after a rollback; families whose restored state was already wrong are skipped
fn tail_writes(sys: &Sys, cx: &mut Ctx, after_rb: &Obs, bad: &[Fam]) {
    let get = |o: &Obs, q: &str| o.reads.iter().find(|r| r.1 == q).map(|r| r.2.clone()).unwrap();
    // relational
    if bad.contains(&Fam::Rel) {
        cx.out.tail_skipped_tainted += 1;
    } else {
        cx.out.tail_writes += 1;
        let before = get(after_rb, "SELECT * FROM t");
        let mut ok = true;
        if before.is_none() {
            ok = expect_ok(sys, cx, Fam::Rel, "CREATE TABLE t (id INT, name TEXT)").is_some();
        }
        if ok && expect_ok(sys, cx, Fam::Rel, "INSERT INTO t (id, name) VALUES (9, 'w')").is_some() {
            let mut want = before.unwrap_or_default();
            want.push(format!("row {:?}", vec![("id".to_string(), relational_engine::Value::Int(9)), ("name".to_string(), relational_engine::Value::String("w".into()))]));
            want.sort();
            let got = canon(&sys.exec("SELECT * FROM t"));
            if got.as_ref() != Some(&want) {
                cx.viol("c08:post-rollback-write:relational:not-readable", format!("after the rollback and INSERT (9,'w'), SELECT * FROM t returns {got:?}, expected {want:?}"), json!({"phase": "tail-writes", "want": want, "got": got}));
            }
        }
    }
    // graph
    if bad.contains(&Fam::Graph) {
        cx.out.tail_skipped_tainted += 1;
    } else {
        cx.out.tail_writes += 1;
        if let Some(r) = expect_ok(sys, cx, Fam::Graph, "NODE CREATE p {k: 99}") {
            let id = match r {
                QueryResult::Ids(v) if v.len() == 1 => v[0],
                _ => 0,
            };
            let existed = id >= 1 && id <= NODE_IDS && get(after_rb, &format!("NODE GET {id}")).is_some();
            let got = canon(&sys.exec(&format!("NODE GET {id}")));
            let want = Some(vec![format!("node {id} p {{\"k\": \"99\"}}")]);
            if existed {
                cx.viol("c08:post-rollback-write:graph:id-reused", format!("after the rollback NODE CREATE returned id {id}, which is the id of a restored node"), json!({"phase": "tail-writes", "id": id}));
            } else if got != want {
                cx.viol("c08:post-rollback-write:graph:not-readable", format!("after the rollback NODE CREATE returned {id} but NODE GET {id} returns {got:?}"), json!({"phase": "tail-writes", "id": id, "got": got}));
            } else {
                // an edge from the new node to a restored one
                let other = (1..=NODE_IDS).find(|i| *i != id && get(after_rb, &format!("NODE GET {i}")).is_some());
                if let Some(o) = other {
                    if expect_ok(sys, cx, Fam::Graph, &format!("EDGE CREATE {id} -> {o} : w")).is_some() {
                        let got = canon(&sys.exec(&format!("NEIGHBORS {id}")));
                        if got != Some(vec![format!("id {o}")]) {
                            cx.viol("c08:post-rollback-write:graph:not-readable", format!("after the rollback EDGE CREATE {id} -> {o} succeeded but NEIGHBORS {id} returns {got:?}"), json!({"phase": "tail-writes", "got": got}));
                        }
                    }
                }
            }
            // restored nodes are untouched
            for i in 1..=NODE_IDS {
                let q = format!("NODE GET {i}");
                if i != id {
                    let now = canon(&sys.exec(&q));
                    if now != get(after_rb, &q) {
                        cx.viol("c08:post-rollback-write:graph:clobbers", format!("a NODE CREATE after the rollback changed `{q}` from {:?} to {now:?}", get(after_rb, &q)), json!({"phase": "tail-writes", "query": q}));
                    }
                }
            }
        }
    }
    // vector
    if bad.contains(&Fam::Vector) {
        cx.out.tail_skipped_tainted += 1;
    } else {
        cx.out.tail_writes += 1;
        if expect_ok(sys, cx, Fam::Vector, "EMBED STORE 'z' [1.0, 1.0]").is_some() {
            let got = canon(&sys.exec("EMBED GET 'z'"));
            let sim = canon(&sys.exec("SIMILAR [1.0, 1.0] LIMIT 10"));
            let in_sim = sim.as_ref().is_some_and(|v| v.iter().any(|s| s.starts_with("sim z ")));
            if got != Some(vec!["value [1.0, 1.0]".to_string()]) || !in_sim {
                cx.viol("c08:post-rollback-write:vector:not-readable", format!("after the rollback EMBED STORE 'z' succeeded but EMBED GET 'z' = {got:?}, SIMILAR = {sim:?}"), json!({"phase": "tail-writes", "get": got, "similar": sim}));
            }
            for q in ["EMBED GET 'a'", "EMBED GET 'b'"] {
                let now = canon(&sys.exec(q));
                if now != get(after_rb, q) {
                    cx.viol("c08:post-rollback-write:vector:clobbers", format!("an EMBED STORE after the rollback changed `{q}` from {:?} to {now:?}", get(after_rb, q)), json!({"phase": "tail-writes", "query": q}));
                }
            }
        }
    }
}

/// replay `hist` on a fresh router; checks are reported for the last statement (and its tail) only.
/// Full batteries are taken only where they are needed: right before every CHECKPOINT (the record),
/// with auto-checkpoint on right before every data statement (the record of the auto-checkpoint it
/// may create), before and after the ROLLBACK under test, and (without the LIST scans) for the state key.
fn run(hist: &[St], cfg: Cfg, selftest: bool, verbose: bool) -> Outcome {
    let mut out = Outcome::default();
    let sys = Sys::new(cfg);
    let mut m = Model { names: cfg.names, ..Model::default() };
    let mut texts: Vec<String> = vec![];
    let codes: Vec<u8> = hist.iter().map(|s| code(*s)).collect();
    // the LIST scans of a recorded battery are compared only by the ROLLBACK under test and its tail
    let full = matches!(hist.last(), Some(St::Rollback(_)));
    for (i, &s) in hist.iter().enumerate() {
        let last = i + 1 == hist.len();
        if cfg.cache {
            // before the first and after every statement: whatever the cache accepts is in the cache
            // when the next statement runs (and a stale answer would show in every later battery)
            out.reads += sys.fill_cache();
            out.cache_filling_batteries += 1;
        }
        let (text, shown) = text_of(s, &m);
        texts.push(shown);
        out.texts = texts.clone();
        let mut cx = Ctx { hist_text: texts.clone(), hist_codes: codes.clone(), cfg, out: &mut out, report: last, selftest };
        match s {
            St::Checkpoint => {
                cx.out.statements += 1;
                nvc::env::clock_advance_ms(1500);
                let name = cp_name(m.created + 1, cfg.names);
                let before = sys.observe(full);
                cx.out.reads += before.reads.len() as u64;
                let res = sys.exec(&text);
                if verbose {
                    eprintln!("  {text} -> {res:?}");
                }
                match res {
                    Err(e) => cx.viol("c08:checkpoint-fails", format!("`{text}` failed with `{e}`"), json!({"phase": "checkpoint", "error": format!("{e}")})),
                    Ok(_) => {
                        m.created += 1;
                        let listed = sys.listed();
                        // its id: the listed entry of that name which the reference has not seen before
                        let id = listed.as_ref().and_then(|l| l.iter().find(|e| e.name == name && !m.knows(&e.id)).map(|e| e.id.clone())).unwrap_or_else(|| "<not listed>".to_string());
                        cx.out.purges += m.push(Cp { ord: m.created as u8, name, id, auto: false }, before.clone());
                        cx.out.retention_checks += 1;
                        compare_list(listed, &mut m, &mut cx, "checkpoint", None);
                        if last {
                            let after = sys.observe(false);
                            cx.out.reads += after.reads.len() as u64;
                            let b = before.cheap();
                            for fam in [Fam::Rel, Fam::Graph, Fam::Vector] {
                                if let Some((q, _, a, b)) = first_diff(&b, &after, fam) {
                                    cx.viol(&format!("c08:checkpoint-changes-data:{}", fam.name()), format!("`{text}` changed `{q}` from {a:?} to {b:?}"), json!({"phase": "checkpoint", "query": q, "before": a, "after": b}));
                                }
                            }
                        }
                    }
                }
            }
            St::Rollback(j) => {
                let cp = m.cp(j);
                if !last {
                    // prefix replay: this rollback was checked when the prefix itself was the history
                    cx.out.statements += 1;
                    let ok = sys.exec(&text).is_ok();
                    if verbose {
                        eprintln!("  {text} -> ok={ok}");
                    }
                    if ok {
                        m.rollbacks += 1;
                        check_list(&sys, &mut m, &mut cx, "rollback", Some(&cp));
                        if let Some(rec) = m.rec.get(&j) {
                            let (rec, now) = (rec.cheap(), sys.observe(false));
                            cx.out.reads += now.reads.len() as u64;
                            for fam in [Fam::Rel, Fam::Graph, Fam::Vector] {
                                if first_diff(&rec, &now, fam).is_some() && !m.tainted.contains(&fam) {
                                    m.tainted.push(fam);
                                }
                            }
                        }
                    }
                    continue;
                }
                let rec = m.rec.get(&j).cloned().unwrap_or_default();
                let cur = sys.observe(true);
                cx.out.reads += cur.reads.len() as u64;
                if rec != cur {
                    let added = [Fam::Rel, Fam::Graph, Fam::Vector].iter().any(|f| matches!(first_diff(&rec, &cur, *f), Some((_, k, _, _)) if k != "missing"));
                    let removed = [Fam::Rel, Fam::Graph, Fam::Vector].iter().any(|f| matches!(first_diff(&rec, &cur, *f), Some((_, k, _, _)) if k != "extra"));
                    cx.out.nontrivial.push((h64(&(&rec, &cur), 1), added, removed, cp.auto));
                }
                if cfg.cache {
                    // the router caches successful answers only
                    let differs = rec.reads.iter().zip(&cur.reads).any(|(a, b)| is_cacheable(&b.1) && b.2.is_some() && a.2 != b.2);
                    cx.out.cached_answer_differs_from_record += u64::from(differs);
                }
                cx.out.auto_rollback_checks += u64::from(cp.auto);
                let r = rollback_and_check(&sys, &mut m, &mut cx, &cp, "main", false);
                if verbose {
                    eprintln!("  {text} -> {}", if r.is_some() { "Ok" } else { "Err" });
                }
                // state key is taken here, before the tail disturbs the router
                let after = match &r {
                    Some((now, _, _)) => now.cheap(),
                    None => sys.observe(false),
                };
                finish_key(&mut out, &after, &m, cfg);
                let mut cx = Ctx { hist_text: texts.clone(), hist_codes: codes.clone(), cfg, out: &mut out, report: true, selftest };
                if let Some((now, mut bad, target_ok)) = r {
                    for f in &m.tainted {
                        if !bad.contains(f) {
                            bad.push(*f);
                        }
                    }
                    tail_writes(&sys, &mut cx, &now, &bad);
                    if target_ok {
                        cx.out.tail_rollbacks += 1;
                        let again = rollback_and_check(&sys, &mut m, &mut cx, &cp, "tail: same checkpoint again (by its full id where known), after one write of every kind", true);
                        let other = m.live.iter().find(|c| c.ord != cp.ord).cloned();
                        if let (Some((_, _, true)), Some(o)) = (again, other) {
                            cx.out.tail_rollbacks += 1;
                            if rollback_and_check(&sys, &mut m, &mut cx, &o, "tail: the other retained checkpoint", false).is_some() && m.live.iter().any(|c| c.ord == cp.ord) {
                                cx.out.tail_rollbacks += 1;
                                rollback_and_check(&sys, &mut m, &mut cx, &cp, "tail: back to the first one after rolling back to the other", false);
                            }
                        }
                    } else {
                        cx.out.tail_skipped_tainted += 1;
                    }
                }
                return out;
            }
            _ => {
                cx.out.statements += 1;
                // with auto-checkpoint on, this is what an auto-checkpoint created by the statement must restore
                let before = if cfg.auto && may_auto_checkpoint(s) {
                    let b = sys.observe(full);
                    cx.out.reads += b.reads.len() as u64;
                    Some(b)
                } else {
                    None
                };
                let res = sys.exec_st(s, &text);
                if verbose {
                    eprintln!("  {text} -> {res:?}");
                }
                if res.is_ok() {
                    match s {
                        St::NodeCreate => m.node_creates += 1,
                        St::EdgeCreate => m.edge_creates += 1,
                        _ => {}
                    }
                }
                let listed = sys.listed();
                let mut cause = "data";
                if let (true, Some(l)) = (cfg.auto, &listed) {
                    // checkpoints the statement created: listed, automatic, never seen before; oldest first
                    let fresh: Vec<Listed> = l.iter().rev().filter(|e| e.auto && !m.knows(&e.id)).cloned().collect();
                    for e in fresh {
                        // harness limit, not a verdict: no battery was recorded before this kind of statement
                        let before = before.as_ref().unwrap_or_else(|| panic!("`{text}` created the auto-checkpoint {:?} but may_auto_checkpoint() does not list this statement kind: extend it", e.name));
                        cause = "auto";
                        m.created += 1;
                        let p = m.push(Cp { ord: m.created as u8, name: e.name.clone(), id: e.id, auto: true }, before.clone());
                        cx.out.purges += p;
                        cx.out.retention_checks += 1;
                        if last {
                            cx.out.auto_created.push(e.name);
                            cx.out.auto_purges += p;
                        }
                    }
                }
                compare_list(listed, &mut m, &mut cx, cause, None);
            }
        }
    }
    let cur = sys.observe(false);
    out.reads += cur.reads.len() as u64;
    finish_key(&mut out, &cur, &m, cfg);
    out
}

/// statement kinds before which a battery is recorded when auto-checkpoint is on (superset of the
/// kinds that reach `protect_destructive_op`; the harness stops with a machinery failure if another
/// kind ever creates one)
fn may_auto_checkpoint(s: St) -> bool {
    matches!(s, St::Del1 | St::Upd1 | St::DropTable | St::DropTableX | St::NodeDel1 | St::EdgeDel1 | St::EmbDelA)
}

fn finish_key(out: &mut Outcome, cur: &Obs, m: &Model, cfg: Cfg) {
    // checkpoint ids (uuids) are not part of the state; recorded batteries enter without their LIST scans
    if cfg.auto {
        // with auto-checkpoint on nearly every statement creates a checkpoint: absolute creation
        // ordinals would make every history its own state.  The state keeps the retained checkpoints
        // in creation order with kind (manual / automatic) and recorded battery, and whether retention has
        // already had to purge (created > K)
        let live_rec: Vec<(bool, Option<Obs>)> = m.live.iter().map(|c| (c.auto, m.rec.get(&c.ord).map(Obs::cheap))).collect();
        let k = (cur, &live_rec, m.created.min(max_cp() + 1), m.node_creates, m.edge_creates, m.rollbacks.min(2));
        out.key = (h64(&k, 2), h64(&k, 3));
    } else {
        let live_rec: Vec<((u8, bool, &String), Option<Obs>)> = m.live.iter().map(|c| ((c.ord, c.auto, &c.name), m.rec.get(&c.ord).map(Obs::cheap))).collect();
        let k = (cur, &live_rec, m.created, m.node_creates, m.edge_creates, m.rollbacks.min(2));
        out.key = (h64(&k, 2), h64(&k, 3));
    }
    out.data_fingerprint = h64(cur, 4);
    out.live_ordinals = m.live.iter().map(|c| c.ord).collect();
    out.mixed_retained = m.live.iter().any(|c| c.auto) && m.live.iter().any(|c| !c.auto);
}

/// every replay runs in its own OS thread with the same entropy label: uuids and HashMap seeds are
/// identical for every replay, whatever rayon thread hosts it
fn run_isolated(hist: &[St], cfg: Cfg, selftest: bool, seed: u64, verbose: bool) -> Outcome {
    let k = max_cp();
    std::thread::scope(|sc| {
        std::thread::Builder::new()
            .stack_size(4 << 20)
            .spawn_scoped(sc, move || {
                set_max_cp(k);
                nvc::env::set_thread_seed(seed);
                run(hist, cfg, selftest, verbose)
            })
            .expect("spawn")
            .join()
            .expect("replay thread panicked")
    })
}

/// signature of a violation that shows only on the Bloom-filtered store
fn bloom_sig(sig: &str) -> String {
    let rest = sig.strip_prefix("c08:").unwrap_or(sig);
    format!("c08:bloom-store:{}", rest.replace("rollback-data", "read-after-rollback-differs"))
}

/// signature of a violation that shows only with the query cache enabled: a read after the ROLLBACK
/// that differs from the record is a stale cached answer (one signature per entry point, whatever
/// the family); anything else keeps its tail
fn cache_sig(sig: &str, cfg: Cfg) -> String {
    let rest = sig.strip_prefix("c08:").unwrap_or(sig);
    if rest.starts_with("rollback-data:") || rest.starts_with("auto-checkpoint:rollback-data:") || rest.contains("restores-another-checkpoint") {
        format!("c08:query-cache:stale-after-rollback:{}", cfg.entry_tag())
    } else {
        format!("c08:query-cache:{rest}:{}", cfg.entry_tag())
    }
}

/// signature of a violation that shows only through another entry point than `execute_parsed`
fn entry_sig(sig: &str, cfg: Cfg) -> String {
    let rest = sig.strip_prefix("c08:").unwrap_or(sig);
    format!("c08:{}-entry:{rest}", cfg.entry_tag())
}

/// one history under one configuration.  A violating history of a configuration with a special
/// feature (query cache, another entry point, Bloom-filtered store) is run again with the features
/// taken away one after the other (cache, then entry point, then filter): a violation is attributed to
/// the first feature without which its signature no longer shows (`c08:query-cache:`,
/// `c08:async-entry:`, `c08:bloom-store:`); what shows on the plain configuration too keeps the
/// signature it has in part M.
fn run_case(hist: &[St], cfg: Cfg, selftest: bool, verbose: bool) -> Outcome {
    let mut o = run_isolated(hist, cfg, selftest, 1, verbose);
    if o.viols.is_empty() {
        return o;
    }
    let mut steps: Vec<(&str, Cfg)> = vec![];
    let mut c = cfg;
    if c.cache {
        c.cache = false;
        steps.push(("cache", c));
    }
    if c.entry != 0 {
        c.entry = 0;
        steps.push(("entry", c));
    }
    if c.bloom != 0 {
        c.bloom = 0;
        steps.push(("bloom", c));
    }
    let mut open: Vec<usize> = (0..o.viols.len()).collect();
    for (feature, without) in steps {
        if open.is_empty() {
            break;
        }
        let base = run_isolated(hist, without, selftest, 1, false);
        let base_sigs: HashSet<&String> = base.viols.iter().map(|v| &v.sig).collect();
        let mut still = vec![];
        for i in open {
            let v = &mut o.viols[i];
            if base_sigs.contains(&v.sig) {
                still.push(i);
                continue;
            }
            let (sig, why) = match feature {
                "cache" => (cache_sig(&v.sig, cfg), format!("only with the query cache enabled (init_cache()), statements through {}; the same history is clean without the cache", cfg.entry_name())),
                "entry" => (entry_sig(&v.sig, cfg), format!("only through {}; the same history is clean through execute_parsed", cfg.entry_name())),
                _ => (bloom_sig(&v.sig), format!("only on {}; the same history is clean on TensorStore::new()", cfg.store_name())),
            };
            v.sig = sig;
            v.msg = format!("[{why}] {}", v.msg);
        }
        open = still;
    }
    o
}

fn code(s: St) -> u8 {
    match s {
        St::CreateTable => 0,
        St::Ins1 => 1,
        St::Ins2 => 2,
        St::Del1 => 3,
        St::Upd1 => 4,
        St::DropTable => 5,
        St::NodeCreate => 6,
        St::EdgeCreate => 7,
        St::NodeDel1 => 8,
        St::EdgeDel1 => 9,
        St::EmbA1 => 10,
        St::EmbA2 => 11,
        St::EmbB => 12,
        St::EmbDelA => 13,
        St::Checkpoint => 14,
        St::DropTableX => 15,
        St::Rollback(j) => 100 + j,
    }
}
fn decode(c: u8) -> St {
    const T: [St; 16] = [St::CreateTable, St::Ins1, St::Ins2, St::Del1, St::Upd1, St::DropTable, St::NodeCreate, St::EdgeCreate, St::NodeDel1, St::EdgeDel1, St::EmbA1, St::EmbA2, St::EmbB, St::EmbDelA, St::Checkpoint, St::DropTableX];
    if c >= 100 {
        St::Rollback(c - 100)
    } else {
        T[c as usize]
    }
}

/// what a worker process sends back for its slice of one BFS level
#[derive(Default, serde::Serialize, serde::Deserialize)]
struct Slice {
    /// (task index, outcome without violations)
    outs: Vec<(u32, Outcome)>,
    /// the first 3 violations per signature of this slice, with their task index
    viols: Vec<(u32, Viol)>,
    /// every violation of the slice, counted
    sig_counts: BTreeMap<String, u64>,
}

fn run_slice(tasks: &[Vec<St>], me: usize, n: usize, cfg: Cfg, selftest: bool) -> Slice {
    let mut sl = Slice::default();
    for (i, h) in tasks.iter().enumerate() {
        if i % n != me {
            continue;
        }
        let mut o = run_case(h, cfg, selftest, false);
        for v in std::mem::take(&mut o.viols) {
            let c = sl.sig_counts.entry(v.sig.clone()).or_insert(0);
            *c += 1;
            if *c <= 3 {
                sl.viols.push((i as u32, v));
            }
        }
        sl.outs.push((i as u32, o));
    }
    sl
}

fn run_level(part: &str, tasks: &[Vec<St>], workers: usize, cfg: Cfg, selftest: bool, level: usize) -> Vec<Slice> {
    // a worker process per ~20 histories: parts run concurrently, a small level does not pay for 16 processes
    let workers = workers.min(tasks.len() / 20);
    if tasks.len() < 64 || workers <= 1 {
        return vec![run_slice(tasks, 0, 1, cfg, selftest)];
    }
    let path = format!("{}/level-{part}-{level}.tasks", nvc::env::scratch_root());
    let body: String = tasks.iter().map(|h| h.iter().map(|s| code(*s).to_string()).collect::<Vec<_>>().join(",") + "\n").collect();
    std::fs::write(&path, body).expect("write tasks");
    let r = nvc::par::spawn_workers::<Slice>(workers, &[format!("--tasks={path}"), format!("--maxcp={}", max_cp()), format!("--mode={}", cfg.encode())]);
    let _ = std::fs::remove_file(&path);
    r
}

fn data_alphabet(thorough: bool) -> Vec<St> {
    let mut a = vec![St::CreateTable, St::Ins1, St::Ins2, St::Del1, St::NodeCreate, St::EdgeCreate, St::NodeDel1, St::EmbA1, St::EmbA2, St::EmbB, St::EmbDelA];
    if thorough {
        a.extend([St::Upd1, St::DropTable, St::EdgeDel1]);
    }
    a
}

/// part A: every statement kind of the alphabet that goes through `protect_destructive_op`
/// (DELETE, DROP TABLE via `execute`, NODE DELETE, EDGE DELETE, EMBED DELETE) and what they need to have an effect
fn auto_alphabet(thorough: bool) -> Vec<St> {
    let mut a = vec![St::CreateTable, St::Ins1, St::Del1, St::DropTableX, St::NodeCreate, St::EdgeCreate, St::NodeDel1, St::EdgeDel1, St::EmbA1, St::EmbDelA];
    if thorough {
        a.extend([St::Ins2, St::DropTable, St::EmbB]);
    }
    a
}

fn parse_hist(r: &Value) -> Vec<St> {
    if let Some(c) = r["history_codes"].as_array() {
        return c.iter().map(|x| decode(x.as_u64().expect("code") as u8)).collect();
    }
    let v = &r["history"];
    let r_names = r["checkpoint_names"].as_str().unwrap_or("");
    // statements are recognised by their text
    let mut out = vec![];
    for t in v.as_array().expect("history array") {
        let t = t.as_str().unwrap();
        let s = if t.starts_with("CREATE TABLE") {
            St::CreateTable
        } else if t.starts_with("INSERT") && t.contains("(1,") {
            St::Ins1
        } else if t.starts_with("INSERT") {
            St::Ins2
        } else if t.starts_with("DELETE") {
            St::Del1
        } else if t.starts_with("UPDATE") {
            St::Upd1
        } else if t.starts_with("DROP") && t.contains("via QueryRouter::execute") {
            St::DropTableX
        } else if t.starts_with("DROP") {
            St::DropTable
        } else if t.starts_with("NODE CREATE") {
            St::NodeCreate
        } else if t.starts_with("EDGE CREATE") {
            St::EdgeCreate
        } else if t.starts_with("NODE DELETE") {
            St::NodeDel1
        } else if t.starts_with("EDGE DELETE") {
            St::EdgeDel1
        } else if t.starts_with("EMBED STORE 'a' [1.0") {
            St::EmbA1
        } else if t.starts_with("EMBED STORE 'a'") {
            St::EmbA2
        } else if t.starts_with("EMBED STORE 'b'") {
            St::EmbB
        } else if t.starts_with("EMBED DELETE") {
            St::EmbDelA
        } else if t.starts_with("CHECKPOINT") {
            St::Checkpoint
        } else if let Some((_, r)) = t.split_once("/* checkpoint #") {
            St::Rollback(r.split(' ').next().unwrap().parse().unwrap())
        } else if let Some(r) = t.strip_prefix("ROLLBACK TO '") {
            St::Rollback(cp_ordinal(r.trim_end_matches('\''), Cfg::from_names_name(r_names)) as u8)
        } else {
            panic!("unknown statement {t}")
        };
        out.push(s);
    }
    out
}

/// Part S: n checkpoints within one clock second; the newest max_checkpoints must be kept
fn part_s(rep: &mut Report, seeds: u64) -> (u64, u64) {
    let mut cases = 0;
    let mut bad = 0;
    for n in 3..=5usize {
        for seed in 1..=seeds {
            let k = max_cp();
            let listed = std::thread::scope(|sc| {
                sc.spawn(move || {
                    set_max_cp(k);
                    nvc::env::set_thread_seed(seed);
                    let sys = Sys::new(Cfg::default());
                    for i in 1..=n {
                        sys.exec(&format!("CHECKPOINT 'c{i}'")).expect("checkpoint");
                    }
                    sys.listed().map(|l| l.into_iter().map(|e| e.name).collect::<Vec<_>>())
                })
                .join()
                .unwrap()
            });
            cases += 1;
            let mut got = listed.unwrap_or_default();
            got.sort();
            let mc = max_cp();
            let want: Vec<String> = (n - mc + 1..=n).map(|i| format!("c{i}")).collect();
            if got != want {
                bad += 1;
                rep.violation(
                    "c08:retention-same-second",
                    format!("{n} checkpoints c1..c{n} taken within one clock second, max_checkpoints={mc}: the newest are {want:?} but CHECKPOINTS lists {got:?} (created_at has 1 s resolution; ties are purged in storage order)"),
                    json!({"part": "S", "max_checkpoints": mc, "history": (1..=n).map(|i| format!("CHECKPOINT 'c{i}'")).collect::<Vec<_>>(), "clock": "frozen, not advanced", "entropy_seed": seed, "want": want, "listed": got}),
                );
            }
        }
    }
    (cases, bad)
}

/// CPU seconds (user+sys) of this process and of the worker processes it has waited for
fn cpu_seconds() -> f64 {
    let mut t = 0.0;
    for who in [libc::RUSAGE_SELF, libc::RUSAGE_CHILDREN] {
        let mut ru: libc::rusage = unsafe { std::mem::zeroed() };
        unsafe { libc::getrusage(who, &mut ru) };
        t += ru.ru_utime.tv_sec as f64 + ru.ru_stime.tv_sec as f64 + (ru.ru_utime.tv_usec + ru.ru_stime.tv_usec) as f64 * 1e-6;
    }
    t
}

fn main() {
    let mut rep = Report::new("C08", "model_checking");
    nvc::env::require();
    let thorough = rep.thorough();
    let selftest = rep.args.rest.iter().any(|a| a == "--selftest");
    // one tokio worker per router instead of one per core: behaviour is unchanged (all checkpoint
    // work runs inside block_on on the calling thread), construction is 2x cheaper
    std::env::set_var("TOKIO_WORKER_THREADS", "1");
    nvc::env::clock_freeze(1_700_000_000);

    if let Some(k) = rep.args.flag("maxcp").and_then(|s| s.parse().ok()) {
        set_max_cp(k);
    }
    let mode_cfg = Cfg::decode(rep.args.flag("mode").and_then(|s| s.parse().ok()).unwrap_or(0));
    if let (Some((me, n)), Some(path)) = (rep.args.worker, rep.args.flag("tasks")) {
        let tasks: Vec<Vec<St>> = std::fs::read_to_string(&path).expect("read tasks").lines().map(|l| l.split(',').filter(|x| !x.is_empty()).map(|x| decode(x.parse().unwrap())).collect()).collect();
        nvc::par::emit_result(&run_slice(&tasks, me, n, mode_cfg, selftest));
        std::process::exit(0);
    }
    if rep.args.rest.iter().any(|a| a == "--profile") {
        let t = nvc::env::real_now_s;
        let n = 200;
        let t0 = t();
        let mut syss = vec![];
        for _ in 0..n { syss.push(Sys::new(mode_cfg)); }
        let t1 = t();
        for s in &syss { for st in ["CREATE TABLE t (id INT, name TEXT)", "INSERT INTO t (id, name) VALUES (1, 'x')", "NODE CREATE p {k: 1}", "NODE CREATE p {k: 2}", "EDGE CREATE 1 -> 2 : e", "EMBED STORE 'a' [1.0, 0.0]"] { s.exec(st).unwrap(); } }
        let t2 = t();
        for s in &syss { s.observe(true); }
        let t3 = t();
        for s in &syss { s.exec("CHECKPOINT 'c1'").unwrap(); }
        let t4 = t();
        for s in &syss { s.exec("ROLLBACK TO 'c1'").unwrap(); }
        let t5 = t();
        let qs = battery_queries();
        for (_, q) in &qs { let t0 = t(); for s in &syss { let _ = canon(&s.exec(q)); } eprintln!("  {q:35} {:.1} us", (t() - t0) * 1e6 / n as f64); }
        let t6 = t();
        drop(syss);
        let t7 = t();
        eprintln!("per router ms: new {:.3} 6 stmts {:.3} observe {:.3} checkpoint {:.3} rollback {:.3} drop {:.3}", (t1-t0)*1e3/n as f64, (t2-t1)*1e3/n as f64, (t3-t2)*1e3/n as f64, (t4-t3)*1e3/n as f64, (t5-t4)*1e3/n as f64, (t7-t6)*1e3/n as f64);
        std::process::exit(0);
    }
    if let Some(path) = rep.args.replay.clone() {
        let body: Value = serde_json::from_str(&std::fs::read_to_string(&path).expect("read replay")).expect("replay json");
        let r = &body["replay"];
        if let Some(k) = r["max_checkpoints"].as_u64() {
            set_max_cp(k as usize);
        }
        let mut n = 0;
        if r["part"] == "S" {
            n = part_s(&mut rep, 8).1;
            eprintln!("replay part S: {n} violating cases");
        } else {
            let hist = parse_hist(r);
            let cfg = Cfg {
                auto: r["auto_checkpoint"].as_bool().unwrap_or(false),
                bloom: Cfg::from_store_name(r["store"].as_str().unwrap_or("")),
                cache: r["query_cache"].as_bool().unwrap_or(false),
                entry: Cfg::from_entry_name(r["entry_point"].as_str().unwrap_or("")),
                names: Cfg::from_names_name(r["checkpoint_names"].as_str().unwrap_or("")),
            };
            eprintln!("replay: max_checkpoints={} auto_checkpoint={} store={} query_cache={} entry_point={} names: {}", max_cp(), cfg.auto, cfg.store_name(), cfg.cache, cfg.entry_name(), cfg.names_name());
            let out = run_case(&hist, cfg, false, true);
            for v in out.viols {
                n += 1;
                eprintln!("replay: {} :: {}", v.sig, v.msg);
            }
        }
        // no evidence / replay files are written in replay mode
        nvc::env::scratch_cleanup();
        if n > 0 {
            println!("VIOLATION property=C08 replay={path}");
            std::process::exit(1);
        }
        println!("replay clean");
        std::process::exit(0);
    }

    let full_depth: usize = rep.args.flag("depth").and_then(|s| s.parse().ok()).unwrap_or(if thorough { 6 } else { 5 });
    // quick: every history of <= 5 statements; thorough: <= 6, plus the histories of 7 that end in CHECKPOINT/ROLLBACK
    let extra_level = rep.args.flag("extra").map(|s| s == "1").unwrap_or(thorough);
    let alphabet = data_alphabet(thorough);
    let alphabet_a = auto_alphabet(thorough);
    let workers = rep.args.flag("threads").and_then(|s| s.parse().ok()).unwrap_or(nvc::par::worker_count());
    let only: Option<Vec<String>> = rep.args.flag("parts").map(|s| s.split(',').map(str::to_string).collect());
    let plain = Cfg::default();
    let auto = Cfg { auto: true, ..plain };
    let bloom = Cfg { bloom: 1, ..plain };
    // query cache on; everything through execute_parsed (names: newer is a prefix of older) / through execute_parsed_async
    let q_sync = Cfg { cache: true, entry: 0, names: 1, ..plain };
    let q_async = Cfg { cache: true, entry: 1, ..plain };
    // CHECKPOINT / ROLLBACK TO through the string-command entry point `execute`
    let legacy = Cfg { entry: 2, ..plain };
    let mut configs: Vec<Part> = vec![Part { name: "M", cfg: plain, k: 2, depth: full_depth, extra: extra_level, alphabet: &alphabet }];
    if rep.args.flag("depth").is_none() {
        if thorough {
            configs.push(Part { name: "M_max1", cfg: plain, k: 1, depth: 5, extra: true, alphabet: &alphabet });
            configs.push(Part { name: "M_max3", cfg: Cfg { names: 1, ..plain }, k: 3, depth: 5, extra: true, alphabet: &alphabet });
            configs.push(Part { name: "A", cfg: auto, k: 2, depth: 5, extra: true, alphabet: &alphabet_a });
            configs.push(Part { name: "A_max1", cfg: auto, k: 1, depth: 4, extra: true, alphabet: &alphabet_a });
            configs.push(Part { name: "A_max3", cfg: Cfg { names: 1, ..auto }, k: 3, depth: 4, extra: true, alphabet: &alphabet_a });
            configs.push(Part { name: "B", cfg: bloom, k: 2, depth: 5, extra: true, alphabet: &alphabet });
            configs.push(Part { name: "B_default_filter", cfg: Cfg { bloom: 2, ..plain }, k: 2, depth: 4, extra: true, alphabet: &alphabet });
            configs.push(Part { name: "AB", cfg: Cfg { auto: true, bloom: 1, ..plain }, k: 2, depth: 4, extra: true, alphabet: &alphabet_a });
            configs.push(Part { name: "Q_sync", cfg: q_sync, k: 2, depth: 4, extra: true, alphabet: &alphabet });
            configs.push(Part { name: "Q_async", cfg: q_async, k: 2, depth: 5, extra: true, alphabet: &alphabet });
            configs.push(Part { name: "Q_async_max3", cfg: Cfg { names: 1, ..q_async }, k: 3, depth: 4, extra: true, alphabet: &alphabet });
            configs.push(Part { name: "E_async", cfg: Cfg { entry: 1, ..plain }, k: 2, depth: 4, extra: true, alphabet: &alphabet });
            configs.push(Part { name: "Q_legacy", cfg: Cfg { cache: true, names: 1, ..legacy }, k: 2, depth: 4, extra: true, alphabet: &alphabet });
            configs.push(Part { name: "Q_cluster", cfg: Cfg { cache: true, entry: 3, ..plain }, k: 2, depth: 4, extra: true, alphabet: &alphabet });
        } else {
            configs.push(Part { name: "A", cfg: auto, k: 2, depth: 4, extra: true, alphabet: &alphabet_a });
            // depth 3 + the restricted level: the same histories ending in CHECKPOINT / ROLLBACK (all of <= 4 statements) as depth 4 without it
            configs.push(Part { name: "B", cfg: bloom, k: 2, depth: 3, extra: true, alphabet: &alphabet });
            configs.push(Part { name: "Q_sync", cfg: q_sync, k: 2, depth: 3, extra: true, alphabet: &alphabet });
            configs.push(Part { name: "Q_async", cfg: q_async, k: 2, depth: 3, extra: true, alphabet: &alphabet });
            configs.push(Part { name: "Q_legacy", cfg: Cfg { cache: true, names: 1, ..legacy }, k: 2, depth: 3, extra: true, alphabet: &alphabet });
        }
    }
    if let Some(only) = &only {
        configs.retain(|c| only.iter().any(|o| o == c.name));
    }
    let describe = |pred: &dyn Fn(&Part) -> bool| configs.iter().filter(|c| pred(c)).map(|c| format!("{}: K={} D={}{} {} names{} cache={} via {}", c.name, c.k, c.depth, if c.extra { "+1r" } else { "" }, c.cfg.store_name(), c.cfg.names, c.cfg.cache, c.cfg.entry_name())).collect::<Vec<_>>();
    rep.rule(&format!(
        "M: BFS over statement histories on a fresh QueryRouter(max_checkpoints=K, auto-checkpoint off, store TensorStore::new()): alphabet = {} data statements {:?} + CHECKPOINT '<name k>' + ROLLBACK TO '<name j>' for every checkpoint the reference retains; checkpoint names stand in a prefix relation: names0 = the k-th checkpoint of a history is named by k letters 'c' ('c', 'cc', 'ccc': every older name is a proper prefix of every newer one), names1 = by 13-k letters (every newer name is a proper prefix of every older one); the ROLLBACK under test addresses a manual checkpoint by its name, the tail rolls back to the same checkpoint by its full id (as listed by CHECKPOINTS), to the other retained one by name and back by name (abbreviated ids are never used: the book and the shell help document lookup by name and by id only); every history of <= D statements, '+1r' = plus every history of D+1 statements ending in CHECKPOINT or ROLLBACK; parts {:?}; a history is expanded further only if its state key (read battery, retained checkpoints with their recorded batteries (without the LIST scans), numbers of checkpoints / node creates / edge creates, min(rollbacks,2)) is new; after every statement: listed checkpoint ids == reference (the newest K created); after every ROLLBACK: battery == battery recorded before that CHECKPOINT, checkpoint list == reference, one write per engine succeeds and is readable, rollback to the same checkpoint again, to another retained one and back. non-trivial = the database differed from the checkpoint image when ROLLBACK ran",
        alphabet.len(),
        alphabet,
        describe(&|c| !c.cfg.auto && c.cfg.bloom == 0 && !c.cfg.cache && c.cfg.entry == 0)
    ));
    rep.rule("S: 3..5 CHECKPOINTs within one clock second x entropy seeds 1..8, max_checkpoints=2: the newest two must be listed");
    rep.rule(&format!(
        "A: the BFS of M on a QueryRouter with CheckpointConfig::with_auto_checkpoint(true).with_interactive_confirm(false): alphabet = {} data statements {:?} (DropTableX = `DROP TABLE t` through QueryRouter::execute, the DROP TABLE path that calls protect_destructive_op) + CHECKPOINT + ROLLBACK TO every retained checkpoint (manual by name, automatic by id); parts {:?}. The state key of A holds the retained checkpoints in creation order by kind (manual / automatic) and recorded battery, and min(checkpoints created, K+1) instead of absolute ordinals. A battery is recorded before every data statement that may reach protect_destructive_op (DELETE, UPDATE, DROP TABLE, NODE/EDGE/EMBED DELETE; machinery failure if any other kind creates a checkpoint); the checkpoints a data statement creates are learnt from CHECKPOINTS (new id, is_auto) and appended to the reference in creation order (ordinals count manual and automatic together; auto-checkpoints share the clock second of the checkpoint before them). After every statement the listed ids must be exactly the newest K of all checkpoints created so far (else c08:auto-checkpoint:retention-exceeds-limit / retention-keeps-wrong-set); ROLLBACK TO an auto-checkpoint must restore the battery recorded right before the statement that triggered it, followed by the same tail as in M. Which statements create auto-checkpoints is not demanded, only counted",
        alphabet_a.len(),
        alphabet_a,
        describe(&|c| c.cfg.auto)
    ));
    rep.rule(&format!(
        "B: the BFS of M (same alphabet, same oracle) on QueryRouter::with_shared_store(<Bloom-filtered TensorStore>), so get/exists of every engine and of the blob/checkpoint store go through the filter; parts {:?}. A violating history is re-run on TensorStore::new(): violations that show only with the filter are reported as c08:bloom-store:... (rollback-data becomes read-after-rollback-differs), the others under their part-M signature",
        describe(&|c| c.cfg.bloom != 0)
    ));
    rep.rule(&format!(
        "Q (query cache) / E (entry points): the BFS of M (same alphabet, same oracle) on a router with QueryRouter::init_cache() (Q) and/or with every statement and every read going through another entry point: execute_parsed_async driven by QueryRouter::block_on (NODE LIST / EDGE LIST, which are not cacheable and build their own runtime, stay on execute_parsed), or CHECKPOINT / ROLLBACK TO through the string-command entry point execute, or through execute_for_cluster (= QueryExecutor::execute, result bytes not decoded); parts {:?}. With the cache on, the cacheable reads of the battery (2 SELECT, 18 NEIGHBORS, 2 SIMILAR) run before the first and after every statement and once more right before every ROLLBACK, so every answer the cache accepts is cached when ROLLBACK runs; after the ROLLBACK (and after every later statement of the tail) the same statement texts must return the recorded battery; every battery asks the cacheable reads first (the router empties the cache on every successful NODE / EDGE / EMBED statement, NODE GET and NODE LIST included). A violating history is re-run without the cache, then through execute_parsed: what shows only with the cache is reported as c08:query-cache:stale-after-rollback:<sync|async|legacy-execute|cluster-execute> (other checks: c08:query-cache:<check>:<entry>), what shows only through the other entry point as c08:<async|legacy-execute|cluster-execute>-entry:<check>. If after a successful ROLLBACK every read equals the battery recorded for ANOTHER retained checkpoint (and not the target's), the violation is c08:rollback-by-name-restores-another-checkpoint / c08:rollback-by-id-restores-another-checkpoint instead of c08:rollback-data:*",
        describe(&|c| c.cfg.cache || c.cfg.entry != 0)
    ));
    rep.assume("query-cache parts use only statements that go through one entry point (execute_parsed or execute_parsed_async): writes through the string-command parser `execute` (DropTableX) are kept out of them, their cache bookkeeping is not the subject of C08; auto-checkpoints are not combined with execute_parsed_async (protect_destructive_op blocks on the router's runtime, which tokio refuses inside block_on)");
    rep.assume("reads are compared as sorted multisets; any error counts as one value 'failed' (error texts are not compared); internal row ids, checkpoint uuids and created_at are not compared");
    rep.assume("a checkpoint that the reference retains stays retained across data statements and rollbacks (the statement: retention is by count only)");
    rep.assume("checkpoints are identified by the id CHECKPOINTS lists; a listed id never seen before with is_auto=true after a data statement is a checkpoint created by that statement (auto-checkpoint names are not unique, so ROLLBACK TO uses the id); 'newest' is creation order = statement order");
    rep.assume("the battery taken before a destructive statement is what its auto-checkpoint must restore (the router snapshots in protect_destructive_op before it touches any data); reads of the battery do not change the database");
    rep.assume("state keys are 128-bit SipHash values of the canonical state; a collision would merge two states");

    // ---- part S (sequential: it needs the clock to stand still)
    set_max_cp(2);
    let (s_cases, s_bad) = part_s(&mut rep, 8);
    rep.part("S_same_second_retention", json!({"cases": s_cases, "violating": s_bad}));

    // ---- parts M, A, B
    let mut vacuous: Vec<String> = vec![];
    // the parts are explored concurrently, each in a thread of its own with its own worker processes
    // per BFS level (the first levels of a part are too small to occupy the machine; max_checkpoints
    // is per thread); their reports are applied in part order
    let sequential = rep.args.flag("sequential").is_some();
    let run_one = |c: &Part| {
        set_max_cp(c.k);
        let mut d = Deferred::default();
        let st = explore(&mut d, c, workers, selftest);
        (st, d)
    };
    let slots: Vec<Option<(Stats, Deferred)>> = if sequential {
        configs.iter().map(|c| Some(run_one(c))).collect()
    } else {
        std::thread::scope(|sc| {
            let run_one = &run_one;
            let hs: Vec<_> = configs.iter().map(|c| sc.spawn(move || run_one(c))).collect();
            hs.into_iter().map(|h| Some(h.join().expect("part thread panicked"))).collect()
        })
    };
    let results: Vec<(Stats, Deferred)> = slots.into_iter().map(|s| s.expect("every part explored")).collect();
    for (c, (st, d)) in configs.iter().zip(results) {
        d.apply(&mut rep);
        if c.name == "M" && (st.states < 200 || st.nontrivial < 50 || st.nt_added == 0 || st.nt_removed == 0 || st.purges == 0) {
            vacuous.push(format!("M: too few distinct states / non-trivial rollbacks / retention purges ({} / {} / {})", st.states, st.nontrivial, st.purges));
        }
        if c.name == "A" && (st.states < 200 || st.autos < 100 || st.auto_kinds < 3 || st.auto_purges < 20 || st.auto_nontrivial < 10 || st.mixed == 0) {
            vacuous.push(format!("A: too few states / auto-checkpoints / kinds of them / purges caused by them / non-trivial rollbacks to them / mixed retained sets ({} / {} / {} / {} / {} / {})", st.states, st.autos, st.auto_kinds, st.auto_purges, st.auto_nontrivial, st.mixed));
        }
        if c.name == "B" && (st.states < 200 || st.nontrivial < 20 || st.nt_added == 0 || st.nt_removed == 0) {
            vacuous.push(format!("B: too few distinct states / non-trivial rollbacks ({} / {})", st.states, st.nontrivial));
        }
        rep.add("states", st.states);
        rep.add("transitions", st.statements);
        rep.add("traces_validated_against_impl", st.replays);
        rep.add("evaluations", st.evaluations);
        rep.add("distinct_nontrivial", st.nontrivial);
        rep.add("auto_checkpoints_created_by_last_statement", st.autos);
        rep.add("rollback_checks_to_auto_checkpoints", st.auto_rollbacks);
        if c.cfg.bloom != 0 {
            rep.add("rollback_checks_on_bloom_filtered_store", st.rollback_checks);
        }
        if c.name == "M" && (st.by_name < 100 || st.by_id < 100 || st.name_is_prefix_of_other < 50 || st.prefix_confusable < 50) {
            vacuous.push(format!("M: too few rollbacks by name / by id / whose name is a proper prefix of another retained name / where the prefix-related checkpoint has a different image ({} / {} / {} / {})", st.by_name, st.by_id, st.name_is_prefix_of_other, st.prefix_confusable));
        }
        if c.cfg.cache && (st.states < 200 || st.nontrivial < 20 || st.nt_added == 0 || st.nt_removed == 0 || st.rollbacks_with_cache < 100 || st.cache_nontrivial < 20 || st.other_is_prefix_of_name + st.name_is_prefix_of_other < 20) {
            vacuous.push(format!("{}: too few distinct states / non-trivial rollbacks / rollbacks with a populated query cache / with a cached answer that differs from the record / prefix-related names ({} / {} / {} / {} / {})", c.name, st.states, st.nontrivial, st.rollbacks_with_cache, st.cache_nontrivial, st.other_is_prefix_of_name + st.name_is_prefix_of_other));
        }
        if c.cfg.entry >= 2 && (st.nontrivial < 5 || st.rollback_checks < 50) {
            vacuous.push(format!("{}: too few rollback checks / non-trivial ones ({} / {})", c.name, st.rollback_checks, st.nontrivial));
        }
        rep.add("rollbacks_addressed_by_name", st.by_name);
        rep.add("rollbacks_addressed_by_full_id", st.by_id);
        rep.add("rollbacks_by_name_with_prefix_related_retained_name", st.name_is_prefix_of_other + st.other_is_prefix_of_name);
        rep.add("rollbacks_by_name_where_prefix_related_checkpoint_has_another_image", st.prefix_confusable);
        if c.cfg.cache {
            rep.add("rollbacks_with_populated_query_cache", st.rollbacks_with_cache);
            rep.add("main_rollbacks_where_a_cached_answer_differs_from_the_record", st.cache_nontrivial);
        }
        match c.cfg.entry {
            0 => rep.add("rollback_checks_via_execute_parsed", st.rollback_checks),
            1 => rep.add("rollback_checks_via_execute_parsed_async", st.rollback_checks),
            2 => rep.add("rollback_checks_via_execute", st.rollback_checks),
            _ => rep.add("rollback_checks_via_execute_for_cluster", st.rollback_checks),
        }
    }
    rep.add("evaluations", s_cases);
    rep.set("cpu_s_including_workers", json!(cpu_seconds()));
    rep.set("explanation", json!("no model of the database: every statement runs on the real QueryRouter; the reference is the battery recorded when the checkpoint was taken (for an auto-checkpoint: right before the statement that triggered it) plus the list of the newest K checkpoints created"));
    if !vacuous.is_empty() {
        rep.machinery(format!("vacuous exploration: {}", vacuous.join("; ")));
    }
    if selftest {
        eprintln!("[C08] --selftest: the reference was corrupted on purpose (embedding 'z' pretended to exist at every checkpoint)");
    }
    rep.finish();
}

/// one exploration part
struct Part<'a> {
    name: &'static str,
    cfg: Cfg,
    /// max_checkpoints
    k: usize,
    depth: usize,
    /// one more level restricted to CHECKPOINT / ROLLBACK
    extra: bool,
    alphabet: &'a [St],
}

struct Stats {
    states: u64,
    statements: u64,
    replays: u64,
    evaluations: u64,
    nontrivial: u64,
    nt_added: u64,
    nt_removed: u64,
    purges: u64,
    rollback_checks: u64,
    autos: u64,
    auto_kinds: u64,
    auto_purges: u64,
    auto_rollbacks: u64,
    auto_nontrivial: u64,
    mixed: u64,
    by_name: u64,
    by_id: u64,
    name_is_prefix_of_other: u64,
    other_is_prefix_of_name: u64,
    prefix_confusable: u64,
    rollbacks_with_cache: u64,
    cache_nontrivial: u64,
}

/// what a part wants to tell the report; applied in part order once the part has finished, so that
/// parts explored concurrently leave the same evidence as parts explored one after the other
#[derive(Default)]
struct Deferred {
    acts: Vec<Act>,
}
enum Act {
    Violation(String, String, Value),
    Machinery(String),
    Sample(Value),
    Part(String, Value),
}
impl Deferred {
    fn violation(&mut self, sig: impl Into<String>, msg: impl Into<String>, replay: Value) {
        self.acts.push(Act::Violation(sig.into(), msg.into(), replay));
    }
    fn machinery(&mut self, s: impl Into<String>) {
        self.acts.push(Act::Machinery(s.into()));
    }
    fn sample(&mut self, v: Value) {
        self.acts.push(Act::Sample(v));
    }
    fn part(&mut self, name: &str, v: Value) {
        self.acts.push(Act::Part(name.to_string(), v));
    }
    fn apply(self, rep: &mut Report) {
        for a in self.acts {
            match a {
                Act::Violation(s, m, r) => rep.violation(s, m, r),
                Act::Machinery(s) => rep.machinery(s),
                Act::Sample(v) => rep.sample(v),
                Act::Part(n, v) => rep.part(&n, v),
            }
        }
    }
}

fn explore(rep: &mut Deferred, pt: &Part, workers: usize, selftest: bool) -> Stats {
    let (part, cfg, alphabet, full_depth, extra_level) = (pt.name, pt.cfg, pt.alphabet, pt.depth, pt.extra);
    let mut kept_per_sig: BTreeMap<String, u64> = BTreeMap::new();
    let mut seen: HashSet<(u64, u64)> = HashSet::new();
    let mut data_states: HashSet<u64> = HashSet::new();
    let mut nontrivial: HashSet<u64> = HashSet::new();
    let (mut nt_added, mut nt_removed, mut nt_auto) = (0u64, 0u64, 0u64);
    let mut autos_by_name: BTreeMap<String, u64> = BTreeMap::new();
    let (mut auto_purges, mut auto_rollbacks, mut mixed) = (0u64, 0u64, 0u64);
    let t_start = nvc::env::real_now_s();
    let mut frontier: Vec<(Vec<St>, Vec<u8>)> = vec![(vec![], vec![])];
    let mut tot = Outcome::default();
    let mut replays = 0u64;
    let mut levels = vec![];
    let mut sig_counts: BTreeMap<String, u64> = BTreeMap::new();
    let mut sampled = 0;
    let last_level = full_depth + usize::from(extra_level);
    for depth in 1..=last_level {
        let restricted = depth > full_depth;
        let mut tasks: Vec<Vec<St>> = vec![];
        for (h, live) in &frontier {
            let mut push = |s: St| {
                let mut t = h.clone();
                t.push(s);
                tasks.push(t);
            };
            if !restricted {
                for &s in alphabet {
                    push(s);
                }
            }
            push(St::Checkpoint);
            for &j in live {
                push(St::Rollback(j));
            }
        }
        let mut next: Vec<(Vec<St>, Vec<u8>)> = vec![];
        let mut new_states = 0u64;
        let slices = run_level(part, &tasks, workers, cfg, selftest, depth);
        let mut outs: Vec<(u32, Outcome)> = vec![];
        let mut viols: Vec<(u32, Viol)> = vec![];
        for sl in slices {
            outs.extend(sl.outs);
            viols.extend(sl.viols);
            for (k, c) in sl.sig_counts {
                *sig_counts.entry(k).or_insert(0) += c;
            }
        }
        outs.sort_by_key(|x| x.0);
        viols.sort_by_key(|x| x.0);
        if outs.len() != tasks.len() {
            rep.machinery(format!("{part} level {depth}: {} outcomes for {} tasks", outs.len(), tasks.len()));
        }
        for (_, mut v) in viols {
            kept_per_sig.entry(v.sig.clone()).and_modify(|c| *c += 1).or_insert(1u64);
            if let Some(o) = v.replay.as_object_mut() {
                o.insert("part".into(), json!(part));
            }
            rep.violation(v.sig, v.msg, v.replay);
        }
        for (idx, o) in outs {
            let h = &tasks[idx as usize];
            replays += 1;
            tot.statements += o.statements;
            tot.reads += o.reads;
            tot.rollback_checks += o.rollback_checks;
            tot.retention_checks += o.retention_checks;
            tot.purges += o.purges;
            tot.tail_writes += o.tail_writes;
            tot.tail_skipped_tainted += o.tail_skipped_tainted;
            tot.tail_rollbacks += o.tail_rollbacks;
            tot.rollbacks_by_name += o.rollbacks_by_name;
            tot.rollbacks_by_id += o.rollbacks_by_id;
            tot.name_is_prefix_of_other += o.name_is_prefix_of_other;
            tot.other_is_prefix_of_name += o.other_is_prefix_of_name;
            tot.prefix_confusable += o.prefix_confusable;
            tot.rollbacks_with_populated_cache += o.rollbacks_with_populated_cache;
            tot.cached_entries_before_rollbacks += o.cached_entries_before_rollbacks;
            tot.cache_filling_batteries += o.cache_filling_batteries;
            tot.cached_answer_differs_from_record += o.cached_answer_differs_from_record;
            for (hh, a, r, au) in &o.nontrivial {
                if nontrivial.insert(*hh) {
                    nt_added += u64::from(*a);
                    nt_removed += u64::from(*r);
                    nt_auto += u64::from(*au);
                }
            }
            for n in &o.auto_created {
                *autos_by_name.entry(n.clone()).or_insert(0) += 1;
            }
            auto_purges += o.auto_purges;
            auto_rollbacks += o.auto_rollback_checks;
            data_states.insert(o.data_fingerprint);
            if seen.insert(o.key) {
                new_states += 1;
                mixed += u64::from(o.mixed_retained);
                let want_sample = if cfg.auto { matches!(h.last(), Some(St::Rollback(_))) && o.auto_rollback_checks > 0 } else { matches!(h.last(), Some(St::Rollback(_))) && h.len() >= 4 };
                if want_sample && sampled < 2 {
                    sampled += 1;
                    // the statements as they were executed (worker processes do not send them back)
                    let texts = run_isolated(h, cfg, false, 1, false).texts;
                    rep.sample(json!({"part": part, "max_checkpoints": max_cp(), "auto_checkpoint": cfg.auto, "store": cfg.store_name(), "query_cache": cfg.cache, "entry_point": cfg.entry_name(), "history": texts}));
                }
                if depth < last_level {
                    next.push((h.clone(), o.live_ordinals));
                }
            }
        }
        levels.push(json!({"depth": depth, "restricted_to_checkpoint_rollback": restricted, "histories_run": tasks.len(), "new_states": new_states}));
        eprintln!("[C08] {part} depth {depth}: {} histories, {new_states} new states, t={:.1}s", tasks.len(), nvc::env::real_now_s() - t_start);
        frontier = next;
    }
    for (sig, c) in &sig_counts {
        for _ in kept_per_sig.get(sig).copied().unwrap_or(0)..*c {
            rep.violation(sig.clone(), "", Value::Null);
        }
    }
    let autos: u64 = autos_by_name.values().sum();
    rep.part(
        part,
        json!({
            "max_checkpoints": max_cp(), "auto_checkpoint": cfg.auto, "store": cfg.store_name(), "alphabet": format!("{alphabet:?}"),
            "query_cache": cfg.cache, "entry_point": cfg.entry_name(), "checkpoint_names": cfg.names_name(),
            "rollbacks_addressed_by_name": tot.rollbacks_by_name, "rollbacks_addressed_by_full_id": tot.rollbacks_by_id,
            "rollbacks_by_name_whose_name_is_a_proper_prefix_of_another_retained_name": tot.name_is_prefix_of_other,
            "rollbacks_by_name_with_another_retained_name_that_is_a_proper_prefix": tot.other_is_prefix_of_name,
            "rollbacks_by_name_where_the_prefix_related_checkpoint_has_another_image": tot.prefix_confusable,
            "rollbacks_with_populated_query_cache": tot.rollbacks_with_populated_cache, "cached_entries_before_those_rollbacks": tot.cached_entries_before_rollbacks,
            "cache_filling_batteries": tot.cache_filling_batteries, "main_rollbacks_where_a_cached_answer_differs_from_the_record": tot.cached_answer_differs_from_record,
            "full_depth": full_depth, "extra_restricted_level": extra_level, "levels": levels, "replays": replays,
            "distinct_states": seen.len(), "distinct_data_observations": data_states.len(),
            "rollback_checks": tot.rollback_checks, "distinct_nontrivial_rollbacks": nontrivial.len(),
            "nontrivial_with_data_added_after_checkpoint": nt_added, "nontrivial_with_data_removed_after_checkpoint": nt_removed,
            "retention_checks": tot.retention_checks, "retention_purges_expected": tot.purges,
            "auto_checkpoints_created_by_last_statement": autos_by_name, "purges_caused_by_them": auto_purges,
            "main_rollback_checks_to_auto_checkpoints": auto_rollbacks, "distinct_nontrivial_rollbacks_to_auto_checkpoints": nt_auto,
            "distinct_states_retaining_manual_and_auto_checkpoints": mixed,
            "tail_write_probes": tot.tail_writes, "tail_probes_skipped_because_already_wrong": tot.tail_skipped_tainted, "tail_rollbacks": tot.tail_rollbacks,
            "violating_checks_by_signature": sig_counts, "worker_processes": workers, "wall_s": nvc::env::real_now_s() - t_start,
        }),
    );
    Stats {
        states: seen.len() as u64,
        statements: tot.statements,
        replays,
        evaluations: tot.rollback_checks + tot.retention_checks + tot.tail_writes,
        nontrivial: nontrivial.len() as u64,
        nt_added,
        nt_removed,
        purges: tot.purges,
        rollback_checks: tot.rollback_checks,
        autos,
        auto_kinds: autos_by_name.len() as u64,
        auto_purges,
        auto_rollbacks,
        auto_nontrivial: nt_auto,
        mixed,
        by_name: tot.rollbacks_by_name,
        by_id: tot.rollbacks_by_id,
        name_is_prefix_of_other: tot.name_is_prefix_of_other,
        other_is_prefix_of_name: tot.other_is_prefix_of_name,
        prefix_confusable: tot.prefix_confusable,
        rollbacks_with_cache: tot.rollbacks_with_populated_cache,
        cache_nontrivial: tot.cached_answer_differs_from_record,
    }
}
