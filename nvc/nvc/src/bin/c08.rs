//! C08 — rolling back to a checkpoint restores exactly the checkpointed database (DESIGN §C08, engine E4).
//!
//! Real code under test: `QueryRouter::execute_parsed` with blob + checkpoint managers
//! (`max_checkpoints = 2`, auto-checkpoint off), i.e. `CheckpointManager::{create,rollback,list}`,
//! `RetentionManager::enforce`, `TensorStore::{snapshot_bytes,restore_from_bytes}`.
//!
//! Part M (main): breadth-first over statement histories from a small collision-forcing alphabet
//!   (one table with two rows, nodes 1/2 and the edge 1->2, embeddings a/b, CHECKPOINT 'c<k>',
//!   ROLLBACK TO 'c<j>' for every checkpoint the reference says is retained).  A state *is* its
//!   history: to expand it the history is replayed on a fresh router (own OS thread, fixed entropy
//!   seed) and one more statement is executed.  After every statement a fixed read battery is taken.
//!   Oracle (differential, no expected values): the battery right after `ROLLBACK TO c` equals the
//!   battery recorded right before `CHECKPOINT c` ran; the checkpoint list equals the reference
//!   (newest two created, unaffected by data statements and by rollbacks).  After each rollback a
//!   tail is run on the same router: one write of every kind must succeed and be readable, then
//!   `ROLLBACK TO c` again, then to the other retained checkpoint and back.
//! Part S: three to five checkpoints taken within the same clock second, under several hash seeds:
//!   the newest two must be the ones kept.
use nvc::Report;
use query_router::{QueryResult, QueryRouter};
use serde_json::{json, Value};
use std::collections::{BTreeMap, HashSet};
use std::hash::{Hash, Hasher};
use tensor_checkpoint::CheckpointConfig;

static MAX_CP: std::sync::atomic::AtomicUsize = std::sync::atomic::AtomicUsize::new(2);
/// the configured `max_checkpoints` of the routers built by this process
fn max_cp() -> usize {
    MAX_CP.load(std::sync::atomic::Ordering::Relaxed)
}
const NODE_IDS: u64 = 9;
const EDGE_IDS: u64 = 4;

#[derive(Clone, Copy, PartialEq, Eq, Hash, Debug, PartialOrd, Ord)]
enum St {
    CreateTable,
    Ins1,
    Ins2,
    Del1,
    Upd1,
    DropTable,
    NodeCreate,
    EdgeCreate,
    NodeDel1,
    EdgeDel1,
    EmbA1,
    EmbA2,
    EmbB,
    EmbDelA,
    Checkpoint,
    Rollback(u8),
}

#[derive(Clone, Copy, PartialEq, Eq, Debug)]
enum Fam {
    Rel,
    Graph,
    Vector,
}
impl Fam {
    fn name(self) -> &'static str {
        match self {
            Fam::Rel => "relational",
            Fam::Graph => "graph",
            Fam::Vector => "vector",
        }
    }
}

/// canonical result of one read: None = the query failed, Some = sorted multiset of items
type Res = Option<Vec<String>>;

#[derive(Clone, PartialEq, Eq, Hash, Debug, Default)]
struct Obs {
    /// (family index, query text, result)
    reads: Vec<(u8, String, Res)>,
}

fn canon(r: &Result<QueryResult, query_router::RouterError>) -> Res {
    let q = match r {
        Err(_) => return None,
        Ok(q) => q,
    };
    let mut items: Vec<String> = match q {
        QueryResult::Empty => vec![],
        QueryResult::Value(v) => vec![format!("value {v}")],
        QueryResult::Count(n) => vec![format!("count {n}")],
        QueryResult::Ids(ids) => ids.iter().map(|i| format!("id {i}")).collect(),
        // the internal row id is deliberately not part of the observation
        QueryResult::Rows(rows) => rows.iter().map(|r| format!("row {:?}", r.values)).collect(),
        QueryResult::Nodes(ns) => ns
            .iter()
            .map(|n| {
                let p: BTreeMap<_, _> = n.properties.iter().collect();
                format!("node {} {} {:?}", n.id, n.label, p)
            })
            .collect(),
        QueryResult::Edges(es) => es.iter().map(|e| format!("edge {} {}->{} {}", e.id, e.from, e.to, e.label)).collect(),
        QueryResult::Similar(ss) => ss.iter().map(|s| format!("sim {} {:.4}", s.key, s.score)).collect(),
        other => vec![format!("{other:?}")],
    };
    items.sort();
    Some(items)
}

fn battery_queries() -> Vec<(Fam, String)> {
    let mut v = vec![(Fam::Rel, "SELECT * FROM t".to_string()), (Fam::Rel, "SELECT * FROM t WHERE id = 1".to_string())];
    for i in 1..=NODE_IDS {
        v.push((Fam::Graph, format!("NODE GET {i}")));
        v.push((Fam::Graph, format!("NEIGHBORS {i}")));
        v.push((Fam::Graph, format!("NEIGHBORS {i} INCOMING")));
    }
    for i in 1..=EDGE_IDS {
        v.push((Fam::Graph, format!("EDGE GET {i}")));
    }
    v.push((Fam::Graph, "NODE LIST".to_string()));
    v.push((Fam::Graph, "EDGE LIST".to_string()));
    for k in ["a", "b", "z"] {
        v.push((Fam::Vector, format!("EMBED GET '{k}'")));
    }
    v.push((Fam::Vector, "SIMILAR [1.0, 0.0] LIMIT 10".to_string()));
    v.push((Fam::Vector, "SIMILAR 'b' LIMIT 10".to_string()));
    v
}

fn is_scan(q: &str) -> bool {
    q.contains(" LIST")
}
impl Obs {
    fn cheap(&self) -> Obs {
        Obs { reads: self.reads.iter().filter(|r| !is_scan(&r.1)).cloned().collect() }
    }
}

fn fam_of(i: u8) -> Fam {
    [Fam::Rel, Fam::Graph, Fam::Vector][i as usize]
}
fn fam_idx(f: Fam) -> u8 {
    match f {
        Fam::Rel => 0,
        Fam::Graph => 1,
        Fam::Vector => 2,
    }
}

struct Sys {
    r: QueryRouter,
    queries: Vec<(Fam, String)>,
}
impl Sys {
    fn new() -> Sys {
        let mut r = QueryRouter::new();
        r.init_blob().expect("init_blob");
        r.init_checkpoint_with_config(CheckpointConfig::default().with_max_checkpoints(max_cp()).with_auto_checkpoint(false).with_interactive_confirm(false)).expect("init_checkpoint");
        Sys { r, queries: battery_queries() }
    }
    fn exec(&self, s: &str) -> Result<QueryResult, query_router::RouterError> {
        self.r.execute_parsed(s)
    }
    /// full = including the LIST scans (each of them builds a tokio runtime inside the router: ~0.5 ms)
    fn observe(&self, full: bool) -> Obs {
        Obs { reads: self.queries.iter().filter(|(_, q)| full || !is_scan(q)).map(|(f, q)| (fam_idx(*f), q.clone(), canon(&self.exec(q)))).collect() }
    }
    /// names listed by CHECKPOINTS (None = the statement failed)
    fn listed(&self) -> Option<Vec<String>> {
        match self.exec("CHECKPOINTS LIMIT 100") {
            Ok(QueryResult::CheckpointList(l)) => Some(l.into_iter().map(|c| c.name).collect()),
            _ => None,
        }
    }
}

#[derive(Clone, Debug, serde::Serialize, serde::Deserialize)]
struct Viol {
    sig: String,
    msg: String,
    replay: Value,
}

#[derive(Default)]
struct Model {
    /// retained checkpoints per the reference, oldest first
    live: Vec<String>,
    rec: BTreeMap<String, Obs>,
    created: usize,
    node_creates: usize,
    edge_creates: usize,
    rollbacks: usize,
    /// families that an earlier rollback of this history restored wrongly (sticky): their
    /// post-rollback write probes are skipped, the cause has been reported at that earlier step
    tainted: Vec<Fam>,
}

fn text_of(s: St, m: &Model) -> String {
    match s {
        St::CreateTable => "CREATE TABLE t (id INT, name TEXT)".into(),
        St::Ins1 => "INSERT INTO t (id, name) VALUES (1, 'x')".into(),
        St::Ins2 => "INSERT INTO t (id, name) VALUES (2, 'y')".into(),
        St::Del1 => "DELETE FROM t WHERE id = 1".into(),
        St::Upd1 => "UPDATE t SET name = 'u' WHERE id = 1".into(),
        St::DropTable => "DROP TABLE t".into(),
        St::NodeCreate => format!("NODE CREATE p {{k: {}}}", m.node_creates + 1),
        St::EdgeCreate => "EDGE CREATE 1 -> 2 : e".into(),
        St::NodeDel1 => "NODE DELETE 1".into(),
        St::EdgeDel1 => "EDGE DELETE 1".into(),
        St::EmbA1 => "EMBED STORE 'a' [1.0, 0.0]".into(),
        St::EmbA2 => "EMBED STORE 'a' [0.0, 1.0]".into(),
        St::EmbB => "EMBED STORE 'b' [0.6, 0.8]".into(),
        St::EmbDelA => "EMBED DELETE 'a'".into(),
        St::Checkpoint => format!("CHECKPOINT 'c{}'", m.created + 1),
        St::Rollback(j) => format!("ROLLBACK TO 'c{j}'"),
    }
}

/// is `a` a sub-multiset of `b` (both sorted)
fn sub_multiset(a: &[String], b: &[String]) -> bool {
    let (mut i, mut j) = (0, 0);
    while i < a.len() {
        while j < b.len() && b[j] < a[i] {
            j += 1;
        }
        if j >= b.len() || b[j] != a[i] {
            return false;
        }
        i += 1;
        j += 1;
    }
    true
}

/// first differing read of one family: (query, kind, recorded, now)
fn first_diff(rec: &Obs, now: &Obs, fam: Fam) -> Option<(String, &'static str, Res, Res)> {
    for ((f, q, a), (_, _, b)) in rec.reads.iter().zip(&now.reads) {
        if fam_of(*f) != fam || a == b {
            continue;
        }
        let kind = match (a, b) {
            (Some(_), None) => "missing",
            (None, Some(_)) => "extra",
            (Some(x), Some(y)) => {
                if sub_multiset(y, x) {
                    "missing"
                } else if sub_multiset(x, y) {
                    "extra"
                } else {
                    "differs"
                }
            }
            (None, None) => unreachable!(),
        };
        return Some((q.clone(), kind, a.clone(), b.clone()));
    }
    None
}

#[derive(Default, serde::Serialize, serde::Deserialize)]
struct Outcome {
    viols: Vec<Viol>,
    key: (u64, u64),
    live_ordinals: Vec<u8>,
    statements: u64,
    reads: u64,
    rollback_checks: u64,
    /// hash of (recorded, state before the rollback) when they differ
    nontrivial: Vec<(u64, bool, bool)>,
    retention_checks: u64,
    purges: u64,
    tail_writes: u64,
    tail_skipped_tainted: u64,
    tail_rollbacks: u64,
    data_fingerprint: u64,
}

fn h64<T: Hash>(t: &T, salt: u64) -> u64 {
    #[allow(deprecated)]
    let mut h = std::hash::SipHasher::new_with_keys(0x0123_4567_89ab_cdef ^ salt, 0xfedc_ba98_7654_3210);
    t.hash(&mut h);
    h.finish()
}

struct Ctx<'a> {
    hist_text: Vec<String>,
    out: &'a mut Outcome,
    report: bool,
    selftest: bool,
}
impl Ctx<'_> {
    fn viol(&mut self, sig: &str, msg: String, extra: Value) {
        if !self.report {
            return;
        }
        let mut replay = json!({"max_checkpoints": max_cp(), "history": self.hist_text, "clock": "frozen; +1500 ms before every CHECKPOINT"});
        if let (Some(o), Some(e)) = (replay.as_object_mut(), extra.as_object()) {
            for (k, v) in e {
                o.insert(k.clone(), v.clone());
            }
        }
        self.out.viols.push(Viol { sig: sig.to_string(), msg: format!("after {:?}: {msg}", self.hist_text), replay });
    }
}

/// compare the listed checkpoints with the reference; report per category; resynchronise the
/// reference to what the system lists so that one defect is reported once per history.
/// returns true if the target (if any) is still listed
fn check_list(sys: &Sys, m: &mut Model, cx: &mut Ctx, cause: &str, target: Option<&str>) -> bool {
    let listed = match sys.listed() {
        Some(l) => l,
        None => {
            cx.viol("c08:checkpoints-statement-fails", "CHECKPOINTS returned an error".into(), json!({"phase": cause}));
            return true;
        }
    };
    let mut got: Vec<String> = listed.clone();
    got.sort();
    let mut want = m.live.clone();
    want.sort();
    let mut target_ok = true;
    if got != want {
        let missing: Vec<String> = want.iter().filter(|n| !got.contains(n)).cloned().collect();
        let extra: Vec<String> = got.iter().filter(|n| !want.contains(n)).cloned().collect();
        let ord = |n: &str| n[1..].parse::<usize>().unwrap_or(0);
        match cause {
            "rollback" => {
                let t = target.unwrap();
                let mut cats: Vec<&str> = vec![];
                for n in &missing {
                    let c = if n == t {
                        target_ok = false;
                        "target"
                    } else if ord(n) < ord(t) {
                        "older"
                    } else {
                        "newer"
                    };
                    if !cats.contains(&c) {
                        cats.push(c);
                    }
                }
                for c in cats {
                    cx.viol(&format!("c08:rollback-changes-checkpoint-list:{c}-dropped"), format!("ROLLBACK TO '{t}' succeeded; retained checkpoints before it {want:?}, listed after it {got:?} ({c} checkpoint no longer listed)"), json!({"phase": "list-after-rollback", "retained_before": want, "listed_after": got}));
                }
                if !extra.is_empty() {
                    cx.viol("c08:rollback-changes-checkpoint-list:purged-resurrected", format!("ROLLBACK TO '{t}': purged checkpoints listed again: {extra:?}"), json!({"phase": "list-after-rollback", "retained_before": want, "listed_after": got}));
                }
            }
            "checkpoint" => {
                cx.viol("c08:retention-keeps-wrong-set", format!("max_checkpoints={}: reference keeps the newest {want:?}, CHECKPOINTS lists {got:?}", max_cp()), json!({"phase": "list-after-checkpoint", "want": want, "listed": got}));
            }
            _ => {
                cx.viol("c08:data-statement-changes-checkpoint-list", format!("a {cause} statement changed the checkpoint list from {want:?} to {got:?}"), json!({"phase": "list-after-data-statement", "want": want, "listed": got}));
            }
        }
        // resynchronise (oldest first by ordinal)
        let mut l = got.clone();
        l.sort_by_key(|n| ord(n));
        m.live = l;
    }
    target_ok
}

/// compare now with the record of `name`; returns the families that differ
fn check_restored(sys: &Sys, m: &Model, cx: &mut Ctx, name: &str, phase: &str) -> (Obs, Vec<Fam>) {
    let now = sys.observe(true);
    cx.out.reads += now.reads.len() as u64;
    let mut rec = m.rec.get(name).expect("recorded observation").clone();
    if cx.selftest {
        // deliberately corrupt the reference: pretend embedding 'z' existed at the checkpoint
        for r in rec.reads.iter_mut() {
            if r.1 == "EMBED GET 'z'" {
                r.2 = Some(vec!["value [9.0, 9.0]".into()]);
            }
        }
    }
    let mut bad = vec![];
    for fam in [Fam::Rel, Fam::Graph, Fam::Vector] {
        if let Some((q, kind, a, b)) = first_diff(&rec, &now, fam) {
            bad.push(fam);
            let what = match kind {
                "missing" => "data that existed at the checkpoint is missing",
                "extra" => "data added after the checkpoint is still there",
                _ => "result differs",
            };
            cx.viol(
                &format!("c08:rollback-data:{}:{kind}", fam.name()),
                format!("ROLLBACK TO '{name}' ({phase}) succeeded but {what}: `{q}` returned {a:?} when '{name}' was taken and returns {b:?} now"),
                json!({"phase": phase, "checkpoint": name, "query": q, "at_checkpoint": a, "after_rollback": b}),
            );
        }
    }
    (now, bad)
}

fn rollback_and_check(sys: &Sys, m: &mut Model, cx: &mut Ctx, name: &str, phase: &str) -> Option<(Obs, Vec<Fam>, bool)> {
    let stmt = format!("ROLLBACK TO '{name}'");
    cx.out.statements += 1;
    match sys.exec(&stmt) {
        Err(e) => {
            let kind = if format!("{e}").contains("not found") { "not-found" } else { "error" };
            cx.viol(&format!("c08:rollback-fails:{kind}"), format!("`{stmt}` ({phase}) failed with `{e}` although '{name}' is a retained, listed checkpoint"), json!({"phase": phase, "checkpoint": name, "error": format!("{e}")}));
            None
        }
        Ok(_) => {
            m.rollbacks += 1;
            cx.out.rollback_checks += 1;
            let (now, bad) = check_restored(sys, m, cx, name, phase);
            let target_ok = check_list(sys, m, cx, "rollback", Some(name));
            Some((now, bad, target_ok))
        }
    }
}

fn expect_ok(sys: &Sys, cx: &mut Ctx, fam: Fam, stmt: &str) -> Option<QueryResult> {
    cx.out.statements += 1;
    match sys.exec(stmt) {
        Ok(r) => Some(r),
        Err(e) => {
            cx.viol(&format!("c08:post-rollback-write:{}:fails", fam.name()), format!("after the rollback `{stmt}` failed with `{e}`"), json!({"phase": "tail-writes", "statement": stmt, "error": format!("{e}")}));
            None
        }
    }
}

/// one write of every kind after a rollback; families whose restored state was already wrong are skipped
fn tail_writes(sys: &Sys, cx: &mut Ctx, after_rb: &Obs, bad: &[Fam]) {
    let get = |o: &Obs, q: &str| o.reads.iter().find(|r| r.1 == q).map(|r| r.2.clone()).unwrap();
    // relational
    if bad.contains(&Fam::Rel) {
        cx.out.tail_skipped_tainted += 1;
    } else {
        cx.out.tail_writes += 1;
        let before = get(after_rb, "SELECT * FROM t");
        let mut ok = true;
        if before.is_none() {
            ok = expect_ok(sys, cx, Fam::Rel, "CREATE TABLE t (id INT, name TEXT)").is_some();
        }
        if ok && expect_ok(sys, cx, Fam::Rel, "INSERT INTO t (id, name) VALUES (9, 'w')").is_some() {
            let mut want = before.unwrap_or_default();
            want.push(format!("row {:?}", vec![("id".to_string(), relational_engine::Value::Int(9)), ("name".to_string(), relational_engine::Value::String("w".into()))]));
            want.sort();
            let got = canon(&sys.exec("SELECT * FROM t"));
            if got.as_ref() != Some(&want) {
                cx.viol("c08:post-rollback-write:relational:not-readable", format!("after the rollback and INSERT (9,'w'), SELECT * FROM t returns {got:?}, expected {want:?}"), json!({"phase": "tail-writes", "want": want, "got": got}));
            }
        }
    }
    // graph
    if bad.contains(&Fam::Graph) {
        cx.out.tail_skipped_tainted += 1;
    } else {
        cx.out.tail_writes += 1;
        if let Some(r) = expect_ok(sys, cx, Fam::Graph, "NODE CREATE p {k: 99}") {
            let id = match r {
                QueryResult::Ids(v) if v.len() == 1 => v[0],
                _ => 0,
            };
            let existed = id >= 1 && id <= NODE_IDS && get(after_rb, &format!("NODE GET {id}")).is_some();
            let got = canon(&sys.exec(&format!("NODE GET {id}")));
            let want = Some(vec![format!("node {id} p {{\"k\": \"99\"}}")]);
            if existed {
                cx.viol("c08:post-rollback-write:graph:id-reused", format!("after the rollback NODE CREATE returned id {id}, which is the id of a restored node"), json!({"phase": "tail-writes", "id": id}));
            } else if got != want {
                cx.viol("c08:post-rollback-write:graph:not-readable", format!("after the rollback NODE CREATE returned {id} but NODE GET {id} returns {got:?}"), json!({"phase": "tail-writes", "id": id, "got": got}));
            } else {
                // an edge from the new node to a restored one
                let other = (1..=NODE_IDS).find(|i| *i != id && get(after_rb, &format!("NODE GET {i}")).is_some());
                if let Some(o) = other {
                    if expect_ok(sys, cx, Fam::Graph, &format!("EDGE CREATE {id} -> {o} : w")).is_some() {
                        let got = canon(&sys.exec(&format!("NEIGHBORS {id}")));
                        if got != Some(vec![format!("id {o}")]) {
                            cx.viol("c08:post-rollback-write:graph:not-readable", format!("after the rollback EDGE CREATE {id} -> {o} succeeded but NEIGHBORS {id} returns {got:?}"), json!({"phase": "tail-writes", "got": got}));
                        }
                    }
                }
            }
            // restored nodes are untouched
            for i in 1..=NODE_IDS {
                let q = format!("NODE GET {i}");
                if i != id {
                    let now = canon(&sys.exec(&q));
                    if now != get(after_rb, &q) {
                        cx.viol("c08:post-rollback-write:graph:clobbers", format!("a NODE CREATE after the rollback changed `{q}` from {:?} to {now:?}", get(after_rb, &q)), json!({"phase": "tail-writes", "query": q}));
                    }
                }
            }
        }
    }
    // vector
    if bad.contains(&Fam::Vector) {
        cx.out.tail_skipped_tainted += 1;
    } else {
        cx.out.tail_writes += 1;
        if expect_ok(sys, cx, Fam::Vector, "EMBED STORE 'z' [1.0, 1.0]").is_some() {
            let got = canon(&sys.exec("EMBED GET 'z'"));
            let sim = canon(&sys.exec("SIMILAR [1.0, 1.0] LIMIT 10"));
            let in_sim = sim.as_ref().is_some_and(|v| v.iter().any(|s| s.starts_with("sim z ")));
            if got != Some(vec!["value [1.0, 1.0]".to_string()]) || !in_sim {
                cx.viol("c08:post-rollback-write:vector:not-readable", format!("after the rollback EMBED STORE 'z' succeeded but EMBED GET 'z' = {got:?}, SIMILAR = {sim:?}"), json!({"phase": "tail-writes", "get": got, "similar": sim}));
            }
            for q in ["EMBED GET 'a'", "EMBED GET 'b'"] {
                let now = canon(&sys.exec(q));
                if now != get(after_rb, q) {
                    cx.viol("c08:post-rollback-write:vector:clobbers", format!("an EMBED STORE after the rollback changed `{q}` from {:?} to {now:?}", get(after_rb, q)), json!({"phase": "tail-writes", "query": q}));
                }
            }
        }
    }
}

/// replay `hist` on a fresh router; checks are reported for the last statement (and its tail) only.
/// Full batteries are taken only where they are needed: right before every CHECKPOINT (the record),
/// before and after the ROLLBACK under test, and (without the LIST scans) for the state key.
fn run(hist: &[St], selftest: bool, verbose: bool) -> Outcome {
    let mut out = Outcome::default();
    let sys = Sys::new();
    let mut m = Model::default();
    let mut texts: Vec<String> = vec![];
    for (i, &s) in hist.iter().enumerate() {
        let last = i + 1 == hist.len();
        let text = text_of(s, &m);
        texts.push(text.clone());
        let mut cx = Ctx { hist_text: texts.clone(), out: &mut out, report: last, selftest };
        match s {
            St::Checkpoint => {
                cx.out.statements += 1;
                nvc::env::clock_advance_ms(1500);
                let name = format!("c{}", m.created + 1);
                let before = sys.observe(true);
                cx.out.reads += before.reads.len() as u64;
                let res = sys.exec(&text);
                if verbose {
                    eprintln!("  {text} -> {res:?}");
                }
                match res {
                    Err(e) => cx.viol("c08:checkpoint-fails", format!("`{text}` failed with `{e}`"), json!({"phase": "checkpoint", "error": format!("{e}")})),
                    Ok(_) => {
                        m.created += 1;
                        m.live.push(name.clone());
                        if m.live.len() > max_cp() {
                            m.live.remove(0);
                            cx.out.purges += 1;
                        }
                        cx.out.retention_checks += 1;
                        check_list(&sys, &mut m, &mut cx, "checkpoint", None);
                        if last {
                            let after = sys.observe(false);
                            cx.out.reads += after.reads.len() as u64;
                            let b = before.cheap();
                            for fam in [Fam::Rel, Fam::Graph, Fam::Vector] {
                                if let Some((q, _, a, b)) = first_diff(&b, &after, fam) {
                                    cx.viol(&format!("c08:checkpoint-changes-data:{}", fam.name()), format!("`{text}` changed `{q}` from {a:?} to {b:?}"), json!({"phase": "checkpoint", "query": q, "before": a, "after": b}));
                                }
                            }
                        }
                        m.rec.insert(name, before);
                    }
                }
            }
            St::Rollback(j) => {
                let name = format!("c{j}");
                if !last {
                    // prefix replay: this rollback was checked when the prefix itself was the history
                    cx.out.statements += 1;
                    let ok = sys.exec(&text).is_ok();
                    if verbose {
                        eprintln!("  {text} -> ok={ok}");
                    }
                    if ok {
                        m.rollbacks += 1;
                        check_list(&sys, &mut m, &mut cx, "rollback", Some(&name));
                        if let Some(rec) = m.rec.get(&name) {
                            let (rec, now) = (rec.cheap(), sys.observe(false));
                            cx.out.reads += now.reads.len() as u64;
                            for fam in [Fam::Rel, Fam::Graph, Fam::Vector] {
                                if first_diff(&rec, &now, fam).is_some() && !m.tainted.contains(&fam) {
                                    m.tainted.push(fam);
                                }
                            }
                        }
                    }
                    continue;
                }
                let rec = m.rec.get(&name).cloned().unwrap_or_default();
                let cur = sys.observe(true);
                cx.out.reads += cur.reads.len() as u64;
                if rec != cur {
                    let added = [Fam::Rel, Fam::Graph, Fam::Vector].iter().any(|f| matches!(first_diff(&rec, &cur, *f), Some((_, k, _, _)) if k != "missing"));
                    let removed = [Fam::Rel, Fam::Graph, Fam::Vector].iter().any(|f| matches!(first_diff(&rec, &cur, *f), Some((_, k, _, _)) if k != "extra"));
                    cx.out.nontrivial.push((h64(&(&rec, &cur), 1), added, removed));
                }
                let r = rollback_and_check(&sys, &mut m, &mut cx, &name, "main");
                if verbose {
                    eprintln!("  {text} -> {}", if r.is_some() { "Ok" } else { "Err" });
                }
                // state key is taken here, before the tail disturbs the router
                let after = match &r {
                    Some((now, _, _)) => now.cheap(),
                    None => sys.observe(false),
                };
                finish_key(&mut out, &after, &m);
                let mut cx = Ctx { hist_text: texts.clone(), out: &mut out, report: true, selftest };
                if let Some((now, mut bad, target_ok)) = r {
                    for f in &m.tainted {
                        if !bad.contains(f) {
                            bad.push(*f);
                        }
                    }
                    tail_writes(&sys, &mut cx, &now, &bad);
                    if target_ok {
                        cx.out.tail_rollbacks += 1;
                        let again = rollback_and_check(&sys, &mut m, &mut cx, &name, "tail: same checkpoint again, after one write of every kind");
                        let other = m.live.iter().find(|n| **n != name).cloned();
                        if let (Some((_, _, true)), Some(o)) = (again, other) {
                            cx.out.tail_rollbacks += 1;
                            if rollback_and_check(&sys, &mut m, &mut cx, &o, "tail: the other retained checkpoint").is_some() && m.live.contains(&name) {
                                cx.out.tail_rollbacks += 1;
                                rollback_and_check(&sys, &mut m, &mut cx, &name, "tail: back to the first one after rolling back to the other");
                            }
                        }
                    } else {
                        cx.out.tail_skipped_tainted += 1;
                    }
                }
                return out;
            }
            _ => {
                cx.out.statements += 1;
                let res = sys.exec(&text);
                if verbose {
                    eprintln!("  {text} -> {res:?}");
                }
                if res.is_ok() {
                    match s {
                        St::NodeCreate => m.node_creates += 1,
                        St::EdgeCreate => m.edge_creates += 1,
                        _ => {}
                    }
                }
                check_list(&sys, &mut m, &mut cx, "data", None);
            }
        }
    }
    let cur = sys.observe(false);
    out.reads += cur.reads.len() as u64;
    finish_key(&mut out, &cur, &m);
    out
}

fn finish_key(out: &mut Outcome, cur: &Obs, m: &Model) {
    let live_rec: Vec<(&String, Option<&Obs>)> = m.live.iter().map(|n| (n, m.rec.get(n))).collect();
    let k = (cur, &live_rec, m.created, m.node_creates, m.edge_creates, m.rollbacks.min(2));
    out.key = (h64(&k, 2), h64(&k, 3));
    out.data_fingerprint = h64(cur, 4);
    out.live_ordinals = m.live.iter().map(|n| n[1..].parse::<u8>().unwrap()).collect();
}

/// every replay runs in its own OS thread with the same entropy label: uuids and HashMap seeds are
/// identical for every replay, whatever rayon thread hosts it
fn run_isolated(hist: &[St], selftest: bool, seed: u64, verbose: bool) -> Outcome {
    std::thread::scope(|sc| {
        std::thread::Builder::new()
            .stack_size(4 << 20)
            .spawn_scoped(sc, || {
                nvc::env::set_thread_seed(seed);
                run(hist, selftest, verbose)
            })
            .expect("spawn")
            .join()
            .expect("replay thread panicked")
    })
}

fn code(s: St) -> u8 {
    match s {
        St::CreateTable => 0,
        St::Ins1 => 1,
        St::Ins2 => 2,
        St::Del1 => 3,
        St::Upd1 => 4,
        St::DropTable => 5,
        St::NodeCreate => 6,
        St::EdgeCreate => 7,
        St::NodeDel1 => 8,
        St::EdgeDel1 => 9,
        St::EmbA1 => 10,
        St::EmbA2 => 11,
        St::EmbB => 12,
        St::EmbDelA => 13,
        St::Checkpoint => 14,
        St::Rollback(j) => 100 + j,
    }
}
fn decode(c: u8) -> St {
    const T: [St; 15] = [St::CreateTable, St::Ins1, St::Ins2, St::Del1, St::Upd1, St::DropTable, St::NodeCreate, St::EdgeCreate, St::NodeDel1, St::EdgeDel1, St::EmbA1, St::EmbA2, St::EmbB, St::EmbDelA, St::Checkpoint];
    if c >= 100 {
        St::Rollback(c - 100)
    } else {
        T[c as usize]
    }
}

/// what a worker process sends back for its slice of one BFS level
#[derive(Default, serde::Serialize, serde::Deserialize)]
struct Slice {
    /// (task index, outcome without violations)
    outs: Vec<(u32, Outcome)>,
    /// the first 3 violations per signature of this slice, with their task index
    viols: Vec<(u32, Viol)>,
    /// every violation of the slice, counted
    sig_counts: BTreeMap<String, u64>,
}

fn run_slice(tasks: &[Vec<St>], me: usize, n: usize, selftest: bool) -> Slice {
    let mut sl = Slice::default();
    for (i, h) in tasks.iter().enumerate() {
        if i % n != me {
            continue;
        }
        let mut o = run_isolated(h, selftest, 1, false);
        for v in std::mem::take(&mut o.viols) {
            let c = sl.sig_counts.entry(v.sig.clone()).or_insert(0);
            *c += 1;
            if *c <= 3 {
                sl.viols.push((i as u32, v));
            }
        }
        sl.outs.push((i as u32, o));
    }
    sl
}

fn run_level(tasks: &[Vec<St>], workers: usize, selftest: bool, level: usize) -> Vec<Slice> {
    if tasks.len() < 64 || workers <= 1 {
        return vec![run_slice(tasks, 0, 1, selftest)];
    }
    let path = format!("{}/level-{level}.tasks", nvc::env::scratch_root());
    let body: String = tasks.iter().map(|h| h.iter().map(|s| code(*s).to_string()).collect::<Vec<_>>().join(",") + "\n").collect();
    std::fs::write(&path, body).expect("write tasks");
    let r = nvc::par::spawn_workers::<Slice>(workers, &[format!("--tasks={path}"), format!("--maxcp={}", max_cp())]);
    let _ = std::fs::remove_file(&path);
    r
}

fn data_alphabet(thorough: bool) -> Vec<St> {
    let mut a = vec![St::CreateTable, St::Ins1, St::Ins2, St::Del1, St::NodeCreate, St::EdgeCreate, St::NodeDel1, St::EmbA1, St::EmbA2, St::EmbB, St::EmbDelA];
    if thorough {
        a.extend([St::Upd1, St::DropTable, St::EdgeDel1]);
    }
    a
}

fn parse_hist(v: &Value) -> Vec<St> {
    // statements are recognised by their text
    let mut out = vec![];
    for t in v.as_array().expect("history array") {
        let t = t.as_str().unwrap();
        let s = if t.starts_with("CREATE TABLE") {
            St::CreateTable
        } else if t.starts_with("INSERT") && t.contains("(1,") {
            St::Ins1
        } else if t.starts_with("INSERT") {
            St::Ins2
        } else if t.starts_with("DELETE") {
            St::Del1
        } else if t.starts_with("UPDATE") {
            St::Upd1
        } else if t.starts_with("DROP") {
            St::DropTable
        } else if t.starts_with("NODE CREATE") {
            St::NodeCreate
        } else if t.starts_with("EDGE CREATE") {
            St::EdgeCreate
        } else if t.starts_with("NODE DELETE") {
            St::NodeDel1
        } else if t.starts_with("EDGE DELETE") {
            St::EdgeDel1
        } else if t.starts_with("EMBED STORE 'a' [1.0") {
            St::EmbA1
        } else if t.starts_with("EMBED STORE 'a'") {
            St::EmbA2
        } else if t.starts_with("EMBED STORE 'b'") {
            St::EmbB
        } else if t.starts_with("EMBED DELETE") {
            St::EmbDelA
        } else if t.starts_with("CHECKPOINT") {
            St::Checkpoint
        } else if let Some(r) = t.strip_prefix("ROLLBACK TO 'c") {
            St::Rollback(r.trim_end_matches('\'').parse().unwrap())
        } else {
            panic!("unknown statement {t}")
        };
        out.push(s);
    }
    out
}

/// Part S: n checkpoints within one clock second; the newest max_checkpoints must be kept
fn part_s(rep: &mut Report, seeds: u64) -> (u64, u64) {
    let mut cases = 0;
    let mut bad = 0;
    for n in 3..=5usize {
        for seed in 1..=seeds {
            let listed = std::thread::scope(|sc| {
                sc.spawn(|| {
                    nvc::env::set_thread_seed(seed);
                    let sys = Sys::new();
                    for i in 1..=n {
                        sys.exec(&format!("CHECKPOINT 'c{i}'")).expect("checkpoint");
                    }
                    sys.listed()
                })
                .join()
                .unwrap()
            });
            cases += 1;
            let mut got = listed.unwrap_or_default();
            got.sort();
            let mc = max_cp();
            let want: Vec<String> = (n - mc + 1..=n).map(|i| format!("c{i}")).collect();
            if got != want {
                bad += 1;
                rep.violation(
                    "c08:retention-same-second",
                    format!("{n} checkpoints c1..c{n} taken within one clock second, max_checkpoints={mc}: the newest are {want:?} but CHECKPOINTS lists {got:?} (created_at has 1 s resolution; ties are purged in storage order)"),
                    json!({"part": "S", "max_checkpoints": mc, "history": (1..=n).map(|i| format!("CHECKPOINT 'c{i}'")).collect::<Vec<_>>(), "clock": "frozen, not advanced", "entropy_seed": seed, "want": want, "listed": got}),
                );
            }
        }
    }
    (cases, bad)
}

/// CPU seconds (user+sys) of this process and of the worker processes it has waited for
fn cpu_seconds() -> f64 {
    let mut t = 0.0;
    for who in [libc::RUSAGE_SELF, libc::RUSAGE_CHILDREN] {
        let mut ru: libc::rusage = unsafe { std::mem::zeroed() };
        unsafe { libc::getrusage(who, &mut ru) };
        t += ru.ru_utime.tv_sec as f64 + ru.ru_stime.tv_sec as f64 + (ru.ru_utime.tv_usec + ru.ru_stime.tv_usec) as f64 * 1e-6;
    }
    t
}

fn main() {
    let mut rep = Report::new("C08", "model_checking");
    nvc::env::require();
    let thorough = rep.thorough();
    let selftest = rep.args.rest.iter().any(|a| a == "--selftest");
    // one tokio worker per router instead of one per core: behaviour is unchanged (all checkpoint
    // work runs inside block_on on the calling thread), construction is 2x cheaper
    std::env::set_var("TOKIO_WORKER_THREADS", "1");
    nvc::env::clock_freeze(1_700_000_000);

    if let Some(k) = rep.args.flag("maxcp").and_then(|s| s.parse().ok()) {
        MAX_CP.store(k, std::sync::atomic::Ordering::Relaxed);
    }
    if let (Some((me, n)), Some(path)) = (rep.args.worker, rep.args.flag("tasks")) {
        let tasks: Vec<Vec<St>> = std::fs::read_to_string(&path).expect("read tasks").lines().map(|l| l.split(',').filter(|x| !x.is_empty()).map(|x| decode(x.parse().unwrap())).collect()).collect();
        nvc::par::emit_result(&run_slice(&tasks, me, n, selftest));
        std::process::exit(0);
    }
    if rep.args.rest.iter().any(|a| a == "--profile") {
        let t = nvc::env::real_now_s;
        let n = 200;
        let t0 = t();
        let mut syss = vec![];
        for _ in 0..n { syss.push(Sys::new()); }
        let t1 = t();
        for s in &syss { for st in ["CREATE TABLE t (id INT, name TEXT)", "INSERT INTO t (id, name) VALUES (1, 'x')", "NODE CREATE p {k: 1}", "NODE CREATE p {k: 2}", "EDGE CREATE 1 -> 2 : e", "EMBED STORE 'a' [1.0, 0.0]"] { s.exec(st).unwrap(); } }
        let t2 = t();
        for s in &syss { s.observe(true); }
        let t3 = t();
        for s in &syss { s.exec("CHECKPOINT 'c1'").unwrap(); }
        let t4 = t();
        for s in &syss { s.exec("ROLLBACK TO 'c1'").unwrap(); }
        let t5 = t();
        let qs = battery_queries();
        for (_, q) in &qs { let t0 = t(); for s in &syss { let _ = canon(&s.exec(q)); } eprintln!("  {q:35} {:.1} us", (t() - t0) * 1e6 / n as f64); }
        let t6 = t();
        drop(syss);
        let t7 = t();
        eprintln!("per router ms: new {:.3} 6 stmts {:.3} observe {:.3} checkpoint {:.3} rollback {:.3} drop {:.3}", (t1-t0)*1e3/n as f64, (t2-t1)*1e3/n as f64, (t3-t2)*1e3/n as f64, (t4-t3)*1e3/n as f64, (t5-t4)*1e3/n as f64, (t7-t6)*1e3/n as f64);
        std::process::exit(0);
    }
    if let Some(path) = rep.args.replay.clone() {
        let body: Value = serde_json::from_str(&std::fs::read_to_string(&path).expect("read replay")).expect("replay json");
        let r = &body["replay"];
        if let Some(k) = r["max_checkpoints"].as_u64() {
            MAX_CP.store(k as usize, std::sync::atomic::Ordering::Relaxed);
        }
        let mut n = 0;
        if r["part"] == "S" {
            n = part_s(&mut rep, 8).1;
            eprintln!("replay part S: {n} violating cases");
        } else {
            let hist = parse_hist(&r["history"]);
            let out = run_isolated(&hist, false, 1, true);
            for v in out.viols {
                n += 1;
                eprintln!("replay: {} :: {}", v.sig, v.msg);
            }
        }
        // no evidence / replay files are written in replay mode
        nvc::env::scratch_cleanup();
        if n > 0 {
            println!("VIOLATION property=C08 replay={path}");
            std::process::exit(1);
        }
        println!("replay clean");
        std::process::exit(0);
    }

    let full_depth: usize = rep.args.flag("depth").and_then(|s| s.parse().ok()).unwrap_or(if thorough { 6 } else { 5 });
    // quick: every history of <= 5 statements; thorough: <= 6, plus the histories of 7 that end in CHECKPOINT/ROLLBACK
    let extra_level = rep.args.flag("extra").map(|s| s == "1").unwrap_or(thorough);
    let alphabet = data_alphabet(thorough);
    let workers = rep.args.flag("threads").and_then(|s| s.parse().ok()).unwrap_or(nvc::par::worker_count());
    // (part name, max_checkpoints, full depth)
    let mut configs: Vec<(&str, usize, usize)> = vec![("M", 2, full_depth)];
    if thorough && rep.args.flag("depth").is_none() {
        configs.push(("M_max1", 1, full_depth - 1));
        configs.push(("M_max3", 3, full_depth - 1));
    }
    rep.rule(&format!(
        "M: BFS over statement histories on a fresh QueryRouter(max_checkpoints=K, auto-checkpoint off): alphabet = {} data statements {:?} + CHECKPOINT 'c<k>' + ROLLBACK TO 'c<j>' for every checkpoint the reference retains; every history of <= D statements{}; (K,D) in {:?}; a history is expanded further only if its state key (read battery, retained checkpoints with their recorded batteries, numbers of checkpoints / node creates / edge creates, min(rollbacks,2)) is new; after every ROLLBACK: battery == battery recorded before that CHECKPOINT, checkpoint list == reference, one write per engine succeeds and is readable, rollback to the same checkpoint again, to another retained one and back. non-trivial = the database differed from the checkpoint image when ROLLBACK ran",
        alphabet.len(),
        alphabet,
        if extra_level { ", plus every history of D+1 statements ending in CHECKPOINT or ROLLBACK" } else { "" },
        configs.iter().map(|c| (c.1, c.2)).collect::<Vec<_>>()
    ));
    rep.rule("S: 3..5 CHECKPOINTs within one clock second x entropy seeds 1..8, max_checkpoints=2: the newest two must be listed");
    rep.assume("reads are compared as sorted multisets; any error counts as one value 'failed' (error texts are not compared); internal row ids, checkpoint uuids and created_at are not compared");
    rep.assume("a checkpoint that the reference retains stays retained across data statements and rollbacks (the statement: retention is by count only)");
    rep.assume("state keys are 128-bit SipHash values of the canonical state; a collision would merge two states");

    // ---- part S (sequential: it needs the clock to stand still)
    let (s_cases, s_bad) = part_s(&mut rep, 8);
    rep.part("S_same_second_retention", json!({"cases": s_cases, "violating": s_bad}));

    // ---- part M
    let mut vacuous = false;
    for (name, k, d) in configs {
        MAX_CP.store(k, std::sync::atomic::Ordering::Relaxed);
        let st = explore(&mut rep, name, &alphabet, d, extra_level, workers, selftest);
        if name == "M" && (st.states < 200 || st.nontrivial < 50 || st.nt_added == 0 || st.nt_removed == 0 || st.purges == 0) {
            vacuous = true;
        }
        rep.add("states", st.states);
        rep.add("transitions", st.statements);
        rep.add("traces_validated_against_impl", st.replays);
        rep.add("evaluations", st.evaluations);
        rep.add("distinct_nontrivial", st.nontrivial);
    }
    rep.add("evaluations", s_cases);
    rep.set("cpu_s_including_workers", json!(cpu_seconds()));
    rep.set("explanation", json!("no model of the database: every statement runs on the real QueryRouter; the reference is the battery recorded when the checkpoint was taken plus a list of the newest K checkpoint names"));
    if vacuous {
        rep.machinery("vacuous exploration: too few distinct states / non-trivial rollbacks / retention purges");
    }
    if selftest {
        eprintln!("[C08] --selftest: the reference was corrupted on purpose (embedding 'z' pretended to exist at every checkpoint)");
    }
    rep.finish();
}

struct Stats {
    states: u64,
    statements: u64,
    replays: u64,
    evaluations: u64,
    nontrivial: u64,
    nt_added: u64,
    nt_removed: u64,
    purges: u64,
}

fn explore(rep: &mut Report, part: &str, alphabet: &[St], full_depth: usize, extra_level: bool, workers: usize, selftest: bool) -> Stats {
    let mut kept_per_sig: BTreeMap<String, u64> = BTreeMap::new();
    let mut seen: HashSet<(u64, u64)> = HashSet::new();
    let mut data_states: HashSet<u64> = HashSet::new();
    let mut nontrivial: HashSet<u64> = HashSet::new();
    let (mut nt_added, mut nt_removed) = (0u64, 0u64);
    let t_start = nvc::env::real_now_s();
    let mut frontier: Vec<(Vec<St>, Vec<u8>)> = vec![(vec![], vec![])];
    let mut tot = Outcome::default();
    let mut replays = 0u64;
    let mut levels = vec![];
    let mut sig_counts: BTreeMap<String, u64> = BTreeMap::new();
    let mut sampled = 0;
    let last_level = full_depth + usize::from(extra_level);
    for depth in 1..=last_level {
        let restricted = depth > full_depth;
        let mut tasks: Vec<Vec<St>> = vec![];
        for (h, live) in &frontier {
            let mut push = |s: St| {
                let mut t = h.clone();
                t.push(s);
                tasks.push(t);
            };
            if !restricted {
                for &s in alphabet {
                    push(s);
                }
            }
            push(St::Checkpoint);
            for &j in live {
                push(St::Rollback(j));
            }
        }
        let mut next: Vec<(Vec<St>, Vec<u8>)> = vec![];
        let mut new_states = 0u64;
        let slices = run_level(&tasks, workers, selftest, depth);
        let mut outs: Vec<(u32, Outcome)> = vec![];
        let mut viols: Vec<(u32, Viol)> = vec![];
        for sl in slices {
            outs.extend(sl.outs);
            viols.extend(sl.viols);
            for (k, c) in sl.sig_counts {
                *sig_counts.entry(k).or_insert(0) += c;
            }
        }
        outs.sort_by_key(|x| x.0);
        viols.sort_by_key(|x| x.0);
        if outs.len() != tasks.len() {
            rep.machinery(format!("{part} level {depth}: {} outcomes for {} tasks", outs.len(), tasks.len()));
        }
        for (_, v) in viols {
            kept_per_sig.entry(v.sig.clone()).and_modify(|c| *c += 1).or_insert(1u64);
            rep.violation(v.sig, v.msg, v.replay);
        }
        for (idx, o) in outs {
            let h = &tasks[idx as usize];
            replays += 1;
            tot.statements += o.statements;
            tot.reads += o.reads;
            tot.rollback_checks += o.rollback_checks;
            tot.retention_checks += o.retention_checks;
            tot.purges += o.purges;
            tot.tail_writes += o.tail_writes;
            tot.tail_skipped_tainted += o.tail_skipped_tainted;
            tot.tail_rollbacks += o.tail_rollbacks;
            for (hh, a, r) in &o.nontrivial {
                if nontrivial.insert(*hh) {
                    nt_added += u64::from(*a);
                    nt_removed += u64::from(*r);
                }
            }
            data_states.insert(o.data_fingerprint);
            if seen.insert(o.key) {
                new_states += 1;
                if matches!(h.last(), Some(St::Rollback(_))) && sampled < 3 && h.len() >= 4 {
                    sampled += 1;
                    let mut m = Model::default();
                    let texts: Vec<String> = h
                        .iter()
                        .map(|s| {
                            let t = text_of(*s, &m);
                            match s {
                                St::Checkpoint => m.created += 1,
                                St::NodeCreate => m.node_creates += 1,
                                _ => {}
                            }
                            t
                        })
                        .collect();
                    rep.sample(json!({"part": part, "max_checkpoints": max_cp(), "history": texts, "note": "node property k is the ordinal of successful creates; shown here assuming all succeeded"}));
                }
                if depth < last_level {
                    next.push((h.clone(), o.live_ordinals));
                }
            }
        }
        levels.push(json!({"depth": depth, "restricted_to_checkpoint_rollback": restricted, "histories_run": tasks.len(), "new_states": new_states}));
        eprintln!("[C08] {part} depth {depth}: {} histories, {new_states} new states, t={:.1}s", tasks.len(), nvc::env::real_now_s() - t_start);
        frontier = next;
    }
    for (sig, c) in &sig_counts {
        for _ in kept_per_sig.get(sig).copied().unwrap_or(0)..*c {
            rep.violation(sig.clone(), "", Value::Null);
        }
    }
    rep.part(
        part,
        json!({
            "max_checkpoints": max_cp(), "full_depth": full_depth, "extra_restricted_level": extra_level, "levels": levels, "replays": replays,
            "distinct_states": seen.len(), "distinct_data_observations": data_states.len(),
            "rollback_checks": tot.rollback_checks, "distinct_nontrivial_rollbacks": nontrivial.len(),
            "nontrivial_with_data_added_after_checkpoint": nt_added, "nontrivial_with_data_removed_after_checkpoint": nt_removed,
            "retention_checks": tot.retention_checks, "retention_purges_expected": tot.purges,
            "tail_write_probes": tot.tail_writes, "tail_probes_skipped_because_already_wrong": tot.tail_skipped_tainted, "tail_rollbacks": tot.tail_rollbacks,
            "violating_checks_by_signature": sig_counts, "worker_processes": workers, "wall_s": nvc::env::real_now_s() - t_start,
        }),
    );
    Stats {
        states: seen.len() as u64,
        statements: tot.statements,
        replays,
        evaluations: tot.rollback_checks + tot.retention_checks + tot.tail_writes,
        nontrivial: nontrivial.len() as u64,
        nt_added,
        nt_removed,
        purges: tot.purges,
    }
}
