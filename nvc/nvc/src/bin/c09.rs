//! C09 — relational transactions are all-or-nothing and writers exclude each other (DESIGN §4, C09).
//!
//! One table t(h Int, o Int); `h` carries a hash index, `o` an ordered (B-tree) index (config 0);
//! config 1: both kinds on h, o and the system column `_id`; config 2: config 0 + hash index on `_id`;
//! config 3: config 0 + ordered index on `_id`. 2-3 pre-existing rows sharing index keys. Everything runs on the
//! real RelationalEngine; sequential cases get a fresh table each (the engine itself is replaced
//! whenever a case does not end with every transaction finished and every lock gone).
//!
//! Part S1 (one transaction): every script of <= L statements from a 12-letter alphabet of
//!   tx_insert / tx_update / tx_delete, ended by commit or rollback, alone and with one
//!   non-transactional statement placed at every position.
//! Part S2 (statement-level interleavings): every pair (thorough: also triple) of transaction
//!   scripts over overlapping rows, every merge order of their statements and their ends.
//! Part S3 (expiry): holder statement, virtual clock advanced by 0 / 29 s / 31 s / 61 s, second
//!   writer. (31 s = lock timeout passed, transaction timeout not: information only.)
//! Part S4 (taken-over lock): tx0 writes, +31 s, tx1 writes the same rows (admitted: information),
//!   tx0 ends, +0/+29 s, a third writer must be refused by tx1's fresh lock; tx1, tx2 end both ways.
//! Part S5 (expiry entry points): holder statement, clock +0/29/31/61 s, cleanup_expired_locks() +
//!   cleanup_expired(), second writer, ends; thorough: also inside the S4 shape.
//! Part T (lock-level): 2-3 real threads under vsched, every schedule with <= bound preemptions;
//!   judged from the call results: two open transactions never both write a row, the final table
//!   is the committed transactions' writes in some order (rolled-back ones leave nothing), indexed
//!   reads agree with it, no lock is left, finished ids are refused.
//!
//! Oracle (S): a sequential reference table with per-transaction held rows and undo images. After
//!   every event the slab is compared with the reference; at the end of a case every query of a
//!   battery goes through every read strategy and must return the reference rows, every finished
//!   transaction must be refused by every tx_* call, and no row lock may be left.
//! Information only (never a verdict): a non-transactional statement on a row an open transaction
//!   holds; a second writer admitted after the 30 s lock timeout while the holder is still open.
//! Flags: --selftest (corrupted reference: must print VIOLATION), --replay <file>, --only=S1|S2|S3|S4|S5|T,
//!   --repro (standalone reproductions of the findings), --probe-cost.
use nvc::{env, par, Report};
use relational_engine::{Column, ColumnType, ColumnarScanOptions, Condition, CursorOptions, RelationalEngine, RelationalError, Row, Schema, Value};
use serde::{Deserialize, Serialize};
use serde_json::json;
use std::collections::{BTreeMap, BTreeSet, HashMap};
use std::sync::{Arc, Mutex};
use tensor_store::relational_slab::ColumnValue;
use vsched::{Body, ExploreCfg, RunResult, Verdict};

const T: &str = "t";
type RowV = (i64, i64);
type Table = BTreeMap<u64, RowV>;
const INIT: [RowV; 3] = [(1, 1), (1, 2), (2, 2)];
const LOCK_TIMEOUT_MS: i64 = 30_000;
const TX_TIMEOUT_MS: i64 = 60_000;

// ------------------------------------------------------------------ statements
#[derive(Clone, Copy, Debug, PartialEq, Eq, Serialize, Deserialize)]
enum Cx {
    Id(u64),
    H(i64),
    OGe(i64),
    All,
}
impl Cx {
    fn cond(&self) -> Condition {
        match *self {
            Cx::Id(k) => Condition::Eq("_id".into(), Value::Int(k as i64)),
            Cx::H(v) => Condition::Eq("h".into(), Value::Int(v)),
            Cx::OGe(v) => Condition::Ge("o".into(), Value::Int(v)),
            Cx::All => Condition::True,
        }
    }
    fn matches(&self, id: u64, r: &RowV) -> bool {
        match *self {
            Cx::Id(k) => id == k,
            Cx::H(v) => r.0 == v,
            Cx::OGe(v) => r.1 >= v,
            Cx::All => true,
        }
    }
    fn show(&self) -> String {
        match *self {
            Cx::Id(k) => format!("_id={k}"),
            Cx::H(v) => format!("h={v}"),
            Cx::OGe(v) => format!("o>={v}"),
            Cx::All => "TRUE".into(),
        }
    }
}
#[derive(Clone, Copy, Debug, PartialEq, Eq, Serialize, Deserialize)]
enum Set {
    H(i64),
    O(i64),
    HO(i64, i64),
}
impl Set {
    fn map(&self) -> HashMap<String, Value> {
        match *self {
            Set::H(v) => HashMap::from([("h".to_string(), Value::Int(v))]),
            Set::O(v) => HashMap::from([("o".to_string(), Value::Int(v))]),
            Set::HO(a, b) => HashMap::from([("h".to_string(), Value::Int(a)), ("o".to_string(), Value::Int(b))]),
        }
    }
    fn apply(&self, r: &mut RowV) {
        match *self {
            Set::H(v) => r.0 = v,
            Set::O(v) => r.1 = v,
            Set::HO(a, b) => *r = (a, b),
        }
    }
    fn show(&self) -> String {
        match *self {
            Set::H(v) => format!("h:={v}"),
            Set::O(v) => format!("o:={v}"),
            Set::HO(a, b) => format!("h:={a},o:={b}"),
        }
    }
}
#[derive(Clone, Copy, Debug, PartialEq, Eq, Serialize, Deserialize)]
enum Stmt {
    Ins(i64, i64),
    Upd(Cx, Set),
    Del(Cx),
}
impl Stmt {
    fn show(&self, who: &str) -> String {
        match self {
            Stmt::Ins(h, o) => format!("{who}insert(h={h},o={o})"),
            Stmt::Upd(c, s) => format!("{who}update({} SET {})", c.show(), s.show()),
            Stmt::Del(c) => format!("{who}delete({})", c.show()),
        }
    }
    fn kind(&self) -> &'static str {
        match self {
            Stmt::Ins(..) => "insert",
            Stmt::Upd(..) => "update",
            Stmt::Del(..) => "delete",
        }
    }
}
#[derive(Clone, Copy, Debug, PartialEq, Eq, Serialize, Deserialize)]
enum Ev {
    Tx(u8, Stmt),
    Commit(u8),
    Rollback(u8),
    NonTx(Stmt),
    Advance(i64),
    /// the expiry entry points: tx_manager().cleanup_expired_locks() then tx_manager().cleanup_expired()
    Cleanup,
}
fn show_ev(e: &Ev) -> String {
    match e {
        Ev::Tx(k, s) => s.show(&format!("tx{k}.tx_")),
        Ev::Commit(k) => format!("commit(tx{k})"),
        Ev::Rollback(k) => format!("rollback(tx{k})"),
        Ev::NonTx(s) => s.show(""),
        Ev::Advance(ms) => format!("clock+{ms}ms"),
        Ev::Cleanup => "cleanup_expired_locks(); cleanup_expired()".into(),
    }
}
#[derive(Clone, Debug, Serialize, Deserialize)]
struct Case {
    part: String,
    cfg: u8,
    rows0: u8,
    ntx: u8,
    events: Vec<Ev>,
}

// ------------------------------------------------------------------ engine helpers
fn vals(h: i64, o: i64) -> HashMap<String, Value> {
    HashMap::from([("h".to_string(), Value::Int(h)), ("o".to_string(), Value::Int(o))])
}
/// index configurations: 0 = hash(h), ordered(o); 1 = hash and ordered on each of h, o, `_id`;
/// 2 = config 0 + hash(`_id`); 3 = config 0 + ordered(`_id`)
fn id_hash(cfg: u8) -> bool {
    cfg == 1 || cfg == 2
}
fn id_ordered(cfg: u8) -> bool {
    cfg == 1 || cfg == 3
}
fn cfg_text(cfg: u8) -> &'static str {
    match cfg {
        0 => "hash(h)+ordered(o)",
        1 => "hash+ordered on h, o and _id",
        2 => "hash(h)+ordered(o)+hash(_id)",
        _ => "hash(h)+ordered(o)+ordered(_id)",
    }
}
fn setup(cfg: u8, rows0: u8) -> RelationalEngine {
    let e = RelationalEngine::new();
    setup_in(&e, T, cfg, rows0);
    e
}
fn setup_in(e: &RelationalEngine, t: &str, cfg: u8, rows0: u8) {
    e.create_table(t, Schema::new(vec![Column::new("h", ColumnType::Int), Column::new("o", ColumnType::Int)])).expect("create_table");
    if cfg == 1 {
        for c in ["h", "o", "_id"] {
            e.create_index(t, c).expect("create_index");
            e.create_btree_index(t, c).expect("create_btree_index");
        }
    } else {
        e.create_index(t, "h").expect("create_index h");
        e.create_btree_index(t, "o").expect("create_btree_index o");
        if cfg == 2 {
            e.create_index(t, "_id").expect("create_index _id");
        }
        if cfg == 3 {
            e.create_btree_index(t, "_id").expect("create_btree_index _id");
        }
    }
    for r in &INIT[..rows0 as usize] {
        e.insert(t, vals(r.0, r.1)).expect("initial insert");
    }
}
fn teardown(e: &RelationalEngine, t: &str) {
    for c in ["h", "o", "_id"] {
        if e.has_btree_index(t, c) {
            let _ = e.drop_btree_index(t, c);
        }
        if e.has_index(t, c) {
            let _ = e.drop_index(t, c);
        }
    }
    let _ = e.drop_table(t);
}
/// One engine per worker process, one fresh table per case; the engine is replaced whenever a case
/// did not end with every transaction finished and every lock gone (so no state leaks between cases).
struct Pool {
    e: Option<RelationalEngine>,
    used: usize,
}
impl Pool {
    fn take(&mut self) -> (RelationalEngine, String) {
        if self.used >= 2048 {
            self.e = None;
        }
        let e = self.e.take().unwrap_or_else(|| {
            self.used = 0;
            RelationalEngine::new()
        });
        self.used += 1;
        (e, format!("t{}", self.used))
    }
}
fn init_table(rows0: u8) -> Table {
    INIT[..rows0 as usize].iter().enumerate().map(|(i, r)| (i as u64 + 1, *r)).collect()
}
/// authoritative rows read straight from the slab (not through any query path)
fn raw(e: &RelationalEngine, t: &str) -> Result<Table, String> {
    let rows = e.store().router().relations.scan_all(t).map_err(|x| x.to_string())?;
    let mut out = Table::new();
    for (rid, r) in rows {
        match (r.first(), r.get(1)) {
            (Some(ColumnValue::Int(h)), Some(ColumnValue::Int(o))) => {
                out.insert(rid.as_u64() + 1, (*h, *o));
            }
            other => return Err(format!("unexpected slab row {other:?}")),
        }
    }
    Ok(out)
}
#[derive(Clone, Debug, PartialEq, Eq, Serialize, Deserialize)]
enum Got {
    Ok(u64),
    Conflict(String),
    Err(String),
}
fn classify<Tv: Into<u64>>(r: Result<Tv, RelationalError>) -> Got {
    match r {
        Ok(n) => Got::Ok(n.into()),
        Err(e @ RelationalError::LockConflict { .. }) => Got::Conflict(e.to_string()),
        Err(e) => Got::Err(e.to_string()),
    }
}
fn exec_stmt(e: &RelationalEngine, t: &str, tx: Option<u64>, s: &Stmt) -> Got {
    match (tx, s) {
        (Some(x), Stmt::Ins(h, o)) => classify(e.tx_insert(x, t, vals(*h, *o))),
        (Some(x), Stmt::Upd(c, s)) => classify(e.tx_update(x, t, c.cond(), s.map()).map(|n| n as u64)),
        (Some(x), Stmt::Del(c)) => classify(e.tx_delete(x, t, c.cond()).map(|n| n as u64)),
        (None, Stmt::Ins(h, o)) => classify(e.insert(t, vals(*h, *o))),
        (None, Stmt::Upd(c, s)) => classify(e.update(t, c.cond(), s.map()).map(|n| n as u64)),
        (None, Stmt::Del(c)) => classify(e.delete_rows(t, c.cond()).map(|n| n as u64)),
    }
}

// ------------------------------------------------------------------ query battery
#[derive(Clone, Debug)]
enum Q {
    All,
    HEq(i64),
    HGe(i64),
    OEq(i64),
    OLt(i64),
    OLe(i64),
    OGt(i64),
    OGe(i64),
    IdEq(u64),
    IdLt(u64),
    IdLe(u64),
    IdGt(u64),
    IdGe(u64),
    And(Box<Q>, Box<Q>),
    Or(Box<Q>, Box<Q>),
}
impl Q {
    fn cond(&self) -> Condition {
        let i = |v: i64| Value::Int(v);
        match self {
            Q::All => Condition::True,
            Q::HEq(v) => Condition::Eq("h".into(), i(*v)),
            Q::HGe(v) => Condition::Ge("h".into(), i(*v)),
            Q::OEq(v) => Condition::Eq("o".into(), i(*v)),
            Q::OLt(v) => Condition::Lt("o".into(), i(*v)),
            Q::OLe(v) => Condition::Le("o".into(), i(*v)),
            Q::OGt(v) => Condition::Gt("o".into(), i(*v)),
            Q::OGe(v) => Condition::Ge("o".into(), i(*v)),
            Q::IdEq(k) => Condition::Eq("_id".into(), i(*k as i64)),
            Q::IdLt(k) => Condition::Lt("_id".into(), i(*k as i64)),
            Q::IdLe(k) => Condition::Le("_id".into(), i(*k as i64)),
            Q::IdGt(k) => Condition::Gt("_id".into(), i(*k as i64)),
            Q::IdGe(k) => Condition::Ge("_id".into(), i(*k as i64)),
            Q::And(a, b) => a.cond().and(b.cond()),
            Q::Or(a, b) => a.cond().or(b.cond()),
        }
    }
    fn eval(&self, id: u64, r: &RowV) -> bool {
        match self {
            Q::All => true,
            Q::HEq(v) => r.0 == *v,
            Q::HGe(v) => r.0 >= *v,
            Q::OEq(v) => r.1 == *v,
            Q::OLt(v) => r.1 < *v,
            Q::OLe(v) => r.1 <= *v,
            Q::OGt(v) => r.1 > *v,
            Q::OGe(v) => r.1 >= *v,
            Q::IdEq(k) => id == *k,
            Q::IdLt(k) => id < *k,
            Q::IdLe(k) => id <= *k,
            Q::IdGt(k) => id > *k,
            Q::IdGe(k) => id >= *k,
            Q::And(a, b) => a.eval(id, r) && b.eval(id, r),
            Q::Or(a, b) => a.eval(id, r) || b.eval(id, r),
        }
    }
    fn show(&self) -> String {
        match self {
            Q::All => "TRUE".into(),
            Q::HEq(v) => format!("h = {v}"),
            Q::HGe(v) => format!("h >= {v}"),
            Q::OEq(v) => format!("o = {v}"),
            Q::OLt(v) => format!("o < {v}"),
            Q::OLe(v) => format!("o <= {v}"),
            Q::OGt(v) => format!("o > {v}"),
            Q::OGe(v) => format!("o >= {v}"),
            Q::IdEq(k) => format!("_id = {k}"),
            Q::IdLt(k) => format!("_id < {k}"),
            Q::IdLe(k) => format!("_id <= {k}"),
            Q::IdGt(k) => format!("_id > {k}"),
            Q::IdGe(k) => format!("_id >= {k}"),
            Q::And(a, b) => format!("({} AND {})", a.show(), b.show()),
            Q::Or(a, b) => format!("({} OR {})", a.show(), b.show()),
        }
    }
    /// which access path answers the query in index config `cfg` (Eq is served by a hash index only,
    /// Lt/Le/Gt/Ge by an ordered index only, AND by its first index-served arm, everything else scans)
    fn path(&self, cfg: u8) -> &'static str {
        match self {
            Q::All | Q::Or(..) => "scan",
            Q::HEq(_) => "hash-index(h)-eq",
            Q::HGe(_) => {
                if cfg == 1 {
                    "ordered-index(h)-range"
                } else {
                    "scan"
                }
            }
            Q::OEq(_) => {
                if cfg == 1 {
                    "hash-index(o)-eq"
                } else {
                    "scan(o)-eq"
                }
            }
            Q::OLt(_) | Q::OLe(_) | Q::OGt(_) | Q::OGe(_) => "ordered-index(o)-range",
            Q::IdEq(_) => {
                if id_hash(cfg) {
                    "hash-index(_id)-eq"
                } else {
                    "scan(_id)"
                }
            }
            Q::IdLt(_) | Q::IdLe(_) | Q::IdGt(_) | Q::IdGe(_) => {
                if id_ordered(cfg) {
                    "ordered-index(_id)-range"
                } else {
                    "scan(_id)"
                }
            }
            Q::And(a, b) => {
                let pa = a.path(cfg);
                if pa.starts_with("scan") {
                    b.path(cfg)
                } else {
                    pa
                }
            }
        }
    }
}
fn battery_queries(max_id: u64, cfg: u8) -> Vec<Q> {
    let mut v = vec![Q::All];
    for x in 1..=5 {
        v.push(Q::HEq(x));
    }
    for x in 1..=5 {
        v.push(Q::OEq(x));
    }
    for x in 2..=4 {
        v.push(Q::OLt(x));
        v.push(Q::OLe(x));
        v.push(Q::OGt(x));
        v.push(Q::OGe(x));
    }
    v.push(Q::HGe(2));
    for k in 1..=max_id {
        v.push(Q::IdEq(k));
    }
    v.push(Q::IdGe(2));
    v.push(Q::And(Box::new(Q::HEq(1)), Box::new(Q::OGe(2))));
    v.push(Q::And(Box::new(Q::OGe(2)), Box::new(Q::HEq(1))));
    v.push(Q::And(Box::new(Q::OLe(2)), Box::new(Q::HGe(2))));
    v.push(Q::Or(Box::new(Q::HEq(1)), Box::new(Q::HEq(3))));
    if id_hash(cfg) || id_ordered(cfg) {
        // conditions on the system column served by its index: every bound around the initial rows
        // (row k is in `_id <= k`, `_id >= k`, out of `_id < k`, `_id > k`), all rows, none
        for k in 1..=3 {
            v.push(Q::IdLt(k));
            v.push(Q::IdLe(k));
            v.push(Q::IdGt(k));
            if k != 2 {
                v.push(Q::IdGe(k));
            }
        }
        v.push(Q::IdLe(max_id));
        v.push(Q::IdGt(max_id));
        // `_id` as the index-served arm of a conjunction, first and second
        v.push(Q::And(Box::new(Q::IdEq(1)), Box::new(Q::OGe(1))));
        v.push(Q::And(Box::new(Q::IdGe(1)), Box::new(Q::HEq(1))));
        v.push(Q::And(Box::new(Q::HGe(1)), Box::new(Q::IdLe(2))));
    }
    v
}
fn row_pair(r: &Row) -> Option<RowV> {
    match (r.get("h"), r.get("o")) {
        (Some(Value::Int(h)), Some(Value::Int(o))) => Some((*h, *o)),
        _ => None,
    }
}
struct BatteryFail {
    sig: String,
    msg: String,
}
/// every query through every read strategy must return exactly the reference rows
fn battery(e: &RelationalEngine, t: &str, m: &Table, max_id: u64, cfg: u8, level: u8, evals: &mut u64) -> Option<BatteryFail> {
    // the reading transaction is begun through the manager (TransactionManager::begin is what begin_transaction calls)
    let probe = e.tx_manager().begin();
    let mut fail = None;
    'outer: for q in battery_queries(max_id, cfg) {
        let exp: Vec<u64> = m.iter().filter(|(id, r)| q.eval(**id, r)).map(|(id, _)| *id).collect();
        let c = q.cond();
        let mut runs: Vec<(&'static str, Result<Vec<u64>, String>, Option<Vec<Row>>)> = vec![];
        let r = e.select(t, c.clone());
        runs.push(("select", r.as_ref().map(|x| x.iter().map(|r| r.id).collect()).map_err(|x| x.to_string()), r.ok()));
        runs.push(("count", e.count(t, c.clone()).map(|n| (0..n).collect()).map_err(|x| x.to_string()), None));
        let r = e.select_columnar(t, c.clone(), ColumnarScanOptions { projection: None, prefer_columnar: true });
        runs.push(("select_columnar", r.as_ref().map(|x| x.iter().map(|r| r.id).collect()).map_err(|x| x.to_string()), r.ok()));
        let r = e.tx_select(probe, t, c.clone());
        runs.push(("tx_select", r.as_ref().map(|x| x.iter().map(|r| r.id).collect()).map_err(|x| x.to_string()), r.ok()));
        if level >= 1 {
            let r = e.select_streaming(t, c.clone()).map(|x| x.map(|r| r.id).map_err(|e| e.to_string())).collect::<Result<Vec<u64>, String>>();
            runs.push(("select_streaming", r, None));
            let r = e.select_iter(t, c.clone(), CursorOptions::default()).map_err(|x| x.to_string()).and_then(|cur| cur.map(|x| x.map(|r| r.id).map_err(|e| e.to_string())).collect::<Result<Vec<u64>, String>>());
            runs.push(("select_iter", r, None));
            let r = e.select_with_limit(t, c.clone(), 1000, 0);
            runs.push(("select_with_limit(1000,0)", r.as_ref().map(|x| x.iter().map(|r| r.id).collect()).map_err(|x| x.to_string()), r.ok()));
        }
        for (name, ids, rows) in runs {
            *evals += 1;
            let path = q.path(cfg);
            match ids {
                Err(x) => {
                    fail = Some(BatteryFail { sig: format!("{path}:{name}:error"), msg: format!("{name}({}) failed: {x}", q.show()) });
                    break 'outer;
                }
                Ok(mut got) => {
                    if name == "count" {
                        if got.len() != exp.len() {
                            fail = Some(BatteryFail { sig: format!("{path}:count-differs"), msg: format!("count({}) = {}; the table holds {} such rows {:?}", q.show(), got.len(), exp.len(), exp) });
                            break 'outer;
                        }
                        continue;
                    }
                    got.sort_unstable();
                    if got != exp {
                        let kind = if exp.iter().any(|x| !got.contains(x)) { "row-missing" } else { "row-extra" };
                        fail = Some(BatteryFail { sig: format!("{path}:{kind}"), msg: format!("{name}({}) returned ids {got:?}; the rows satisfying it are {exp:?} (table {m:?})", q.show()) });
                        break 'outer;
                    }
                    if let Some(rows) = rows {
                        for r in &rows {
                            if row_pair(r) != m.get(&r.id).copied() {
                                fail = Some(BatteryFail { sig: format!("{path}:row-content"), msg: format!("{name}({}) returned row {} as {:?}; the table holds {:?}", q.show(), r.id, row_pair(r), m.get(&r.id)) });
                                break 'outer;
                            }
                        }
                    }
                }
            }
        }
    }
    let _ = e.commit(probe);
    fail
}

// ------------------------------------------------------------------ reference model
#[derive(Clone, Copy, Debug, PartialEq, Eq)]
enum TxSt {
    NotBegun,
    Active,
    Committed,
    RolledBack,
}
#[derive(Clone, Debug)]
struct TxM {
    st: TxSt,
    /// rows this transaction has inserted / modified / deleted while open -> (how, when its row lock was last taken)
    held: BTreeMap<u64, (&'static str, i64)>,
    /// rows whose expired lock another writer took over while this transaction was still open
    lost: BTreeSet<u64>,
    undo: Vec<(u64, Option<RowV>)>,
    began: i64,
    real_id: u64,
}
/// what a holder's claim on a row is worth at the current virtual time
#[derive(Clone, Copy, Debug, PartialEq, Eq)]
enum Hold {
    /// lock younger than the lock timeout, holder younger than the transaction timeout: must exclude
    Hard,
    /// exactly one of the two timeouts has passed (documented lock expiry): information only
    Soft,
    /// both have passed: the lock must be gone
    Vanished,
}
#[derive(Clone, Debug)]
struct Model {
    rows: Table,
    next_id: u64,
    tx: Vec<TxM>,
    /// virtual milliseconds since the case started
    now: i64,
}
impl Model {
    fn new(rows0: u8, ntx: u8) -> Model {
        Model { rows: init_table(rows0), next_id: u64::from(rows0) + 1, tx: (0..ntx).map(|_| TxM { st: TxSt::NotBegun, held: BTreeMap::new(), lost: BTreeSet::new(), undo: vec![], began: 0, real_id: 0 }).collect(), now: 0 }
    }
    fn matched(&self, cx: &Cx) -> Vec<u64> {
        self.rows.iter().filter(|(id, r)| cx.matches(**id, r)).map(|(id, _)| *id).collect()
    }
    fn tx_expired(&self, k: usize) -> bool {
        self.now - self.tx[k].began > TX_TIMEOUT_MS
    }
    fn hold(&self, k: usize, id: u64) -> Option<(&'static str, Hold)> {
        let t = &self.tx[k];
        if t.st != TxSt::Active {
            return None;
        }
        let (how, at) = *t.held.get(&id)?;
        let lock_expired = self.now - at > LOCK_TIMEOUT_MS;
        Some((how, match (lock_expired, self.tx_expired(k)) {
            (false, false) => Hold::Hard,
            (true, true) => Hold::Vanished,
            _ => Hold::Soft,
        }))
    }
    /// (row, holder tx, how, worth) for every matched row another open transaction holds
    fn blockers(&self, me: Option<usize>, ids: &[u64]) -> Vec<(u64, usize, &'static str, Hold)> {
        let mut v = vec![];
        for k in 0..self.tx.len() {
            if Some(k) == me {
                continue;
            }
            for id in ids {
                if let Some((how, h)) = self.hold(k, *id) {
                    v.push((*id, k, how, h));
                }
            }
        }
        v
    }
    /// an admitted writer takes the (expired) locks of the other holders of these rows over
    fn take_over(&mut self, me: Option<usize>, ids: &[u64]) -> bool {
        let mut any = false;
        for k in 0..self.tx.len() {
            if Some(k) == me || self.tx[k].st != TxSt::Active {
                continue;
            }
            for id in ids {
                if self.tx[k].held.remove(id).is_some() {
                    self.tx[k].lost.insert(*id);
                    any = true;
                }
            }
        }
        any
    }
    fn apply(&mut self, me: Option<usize>, s: &Stmt, ids: &[u64]) {
        let now = self.now;
        let mut hold = |t: &mut TxM, id: u64, how: &'static str| {
            // the engine re-takes the row lock with the current time on every write
            let how = t.held.get(&id).map_or(how, |x| x.0);
            t.held.insert(id, (how, now));
        };
        match s {
            Stmt::Ins(h, o) => {
                let id = self.next_id;
                self.next_id += 1;
                self.rows.insert(id, (*h, *o));
                if let Some(k) = me {
                    hold(&mut self.tx[k], id, "inserted");
                    self.tx[k].undo.push((id, None));
                }
            }
            Stmt::Upd(_, set) => {
                for id in ids {
                    let old = self.rows[id];
                    if let Some(k) = me {
                        hold(&mut self.tx[k], *id, "updated");
                        self.tx[k].undo.push((*id, Some(old)));
                    }
                    set.apply(self.rows.get_mut(id).unwrap());
                }
            }
            Stmt::Del(_) => {
                for id in ids {
                    let old = self.rows.remove(id).unwrap();
                    if let Some(k) = me {
                        hold(&mut self.tx[k], *id, "deleted");
                        self.tx[k].undo.push((*id, Some(old)));
                    }
                }
            }
        }
    }
    fn end(&mut self, k: usize, commit: bool, selftest: bool) {
        let undo = std::mem::take(&mut self.tx[k].undo);
        if !commit {
            // --selftest: the corrupted reference forgets the oldest undo image
            let skip = usize::from(selftest);
            for (id, old) in undo.into_iter().skip(skip).rev() {
                match old {
                    Some(v) => {
                        self.rows.insert(id, v);
                    }
                    None => {
                        self.rows.remove(&id);
                    }
                }
            }
        }
        self.tx[k].held.clear();
        self.tx[k].st = if commit { TxSt::Committed } else { TxSt::RolledBack };
    }
}

#[derive(Default, Clone, Debug, Serialize, Deserialize)]
struct Info {
    nontx_refused_on_held_row: u64,
    nontx_admitted_on_held_row: u64,
    lock_expired_holder_open_second_writer_admitted: u64,
    lock_expired_holder_open_second_writer_refused: u64,
    rollback_returned_error: u64,
    cases_cut_at_first_violation: u64,
    /// a writer was refused because of a lock another transaction had taken over after its expiry (judged)
    refused_by_lock_taken_over_after_expiry: u64,
    /// cases in which a transaction rolled back rows it had lost to a later writer: table adopted, not judged
    cases_with_table_undefined_after_expiry_takeover: u64,
    /// non-vacuity of the `_id`-index configurations: cases in which a transactional delete / update / insert
    /// that changed the table was rolled back and the `_id`-index queries were then compared
    #[serde(default)]
    id_index_cases_rolled_back_delete_then_queried: u64,
    #[serde(default)]
    id_index_cases_rolled_back_insert_then_queried: u64,
    #[serde(default)]
    id_index_cases_committed_delete_or_insert_then_queried: u64,
}
impl Info {
    fn add(&mut self, o: &Info) {
        self.nontx_refused_on_held_row += o.nontx_refused_on_held_row;
        self.nontx_admitted_on_held_row += o.nontx_admitted_on_held_row;
        self.lock_expired_holder_open_second_writer_admitted += o.lock_expired_holder_open_second_writer_admitted;
        self.lock_expired_holder_open_second_writer_refused += o.lock_expired_holder_open_second_writer_refused;
        self.rollback_returned_error += o.rollback_returned_error;
        self.cases_cut_at_first_violation += o.cases_cut_at_first_violation;
        self.refused_by_lock_taken_over_after_expiry += o.refused_by_lock_taken_over_after_expiry;
        self.cases_with_table_undefined_after_expiry_takeover += o.cases_with_table_undefined_after_expiry_takeover;
        self.id_index_cases_rolled_back_delete_then_queried += o.id_index_cases_rolled_back_delete_then_queried;
        self.id_index_cases_rolled_back_insert_then_queried += o.id_index_cases_rolled_back_insert_then_queried;
        self.id_index_cases_committed_delete_or_insert_then_queried += o.id_index_cases_committed_delete_or_insert_then_queried;
    }
}
#[derive(Default)]
struct CaseOut {
    viol: Option<(String, String)>,
    steps: u64,
    evals: u64,
    effective: bool,
    conflicts: u64,
    final_state: String,
    info: Info,
    /// reached the end with every transaction finished and no lock left
    clean: bool,
}

fn diff(got: &Table, exp: &Table) -> String {
    let mut v = vec![];
    for id in got.keys().chain(exp.keys()).collect::<BTreeSet<_>>() {
        if got.get(id) != exp.get(id) {
            v.push(format!("row {id}: table has {:?}, must be {:?}", got.get(id), exp.get(id)));
        }
    }
    v.join("; ")
}

fn run_case(pool: &mut Pool, case: &Case, level: u8, selftest: bool) -> CaseOut {
    let (e, t) = pool.take();
    setup_in(&e, &t, case.cfg, case.rows0);
    let out = run_case_in(&e, &t, case, level, selftest);
    if out.clean {
        teardown(&e, &t);
        pool.e = Some(e);
    }
    out
}
fn run_case_in(e: &RelationalEngine, tn: &str, case: &Case, level: u8, selftest: bool) -> CaseOut {
    let mut out = CaseOut::default();
    let mut m = Model::new(case.rows0, case.ntx);
    let hist = |i: usize| case.events[..=i].iter().map(show_ev).collect::<Vec<_>>().join("; ");
    macro_rules! fail {
        ($sig:expr, $msg:expr) => {{
            out.viol = Some(($sig, $msg));
            out.info.cases_cut_at_first_violation += 1;
            return out;
        }};
    }
    let mut any_rollback = false;
    // per transaction: did one of its statements delete / insert a row
    let mut tx_deleted = vec![false; case.ntx as usize];
    let mut tx_inserted = vec![false; case.ntx as usize];
    let (mut rb_del, mut rb_ins, mut co_any) = (false, false, false);
    // rows whose expired lock was taken over while the first holder was open; once such a holder rolls
    // back, the table is no longer defined by the property (documented lock expiry): it is adopted
    let mut contested: BTreeSet<u64> = BTreeSet::new();
    let mut tainted = false;
    for (i, ev) in case.events.iter().enumerate() {
        out.steps += 1;
        // lazily begin the transaction an event refers to
        if let Ev::Tx(k, _) | Ev::Commit(k) | Ev::Rollback(k) = ev {
            let now = m.now;
            let t = &mut m.tx[*k as usize];
            if t.st == TxSt::NotBegun {
                t.real_id = e.begin_transaction();
                t.st = TxSt::Active;
                t.began = now;
            }
        }
        let mut after = "statement";
        let mut adopt = false;
        match ev {
            Ev::Advance(ms) => {
                env::clock_advance_ms(*ms);
                m.now += ms;
                after = "clock";
            }
            Ev::Cleanup => {
                // removes what has timed out and nothing else: the reference does not change, so every
                // check below (table, row locks, later admissions, later commit) judges its effect
                let tm = e.tx_manager();
                let _ = tm.cleanup_expired_locks();
                let _ = tm.cleanup_expired();
                after = "cleanup";
                for k in 0..m.tx.len() {
                    if m.tx[k].st == TxSt::Active && !m.tx_expired(k) && !e.is_transaction_active(m.tx[k].real_id) {
                        fail!("c09:cleanup:open-unexpired-tx-removed".to_string(), format!("after [{}]: is_transaction_active(tx{k}) is false although tx{k} is open and younger than the transaction timeout", hist(i)));
                    }
                }
            }
            Ev::Tx(_, s) | Ev::NonTx(s) => {
                let me = if let Ev::Tx(k, _) = ev { Some(*k as usize) } else { None };
                let real = me.map(|k| m.tx[k].real_id);
                let ids = match s {
                    Stmt::Ins(..) => vec![],
                    Stmt::Upd(c, _) | Stmt::Del(c) => m.matched(c),
                };
                let blockers = m.blockers(me, &ids);
                let hard: Vec<_> = blockers.iter().filter(|b| b.3 == Hold::Hard).collect();
                let soft = blockers.iter().any(|b| b.3 == Hold::Soft);
                let got = exec_stmt(e, tn, real, s);
                if !hard.is_empty() {
                    match got {
                        Got::Conflict(_) => {
                            out.conflicts += 1;
                            if me.is_none() {
                                out.info.nontx_refused_on_held_row += 1;
                            }
                            if hard.iter().any(|b| contested.contains(&b.0)) {
                                out.info.refused_by_lock_taken_over_after_expiry += 1;
                            }
                            after = "refused statement";
                        }
                        Got::Ok(_) if me.is_none() => {
                            // scope note: the statement promises exclusion between transactions only
                            out.info.nontx_admitted_on_held_row += 1;
                            return out;
                        }
                        Got::Ok(n) => {
                            let (row, holder, how, _) = hard[0];
                            let took = if contested.contains(row) { " (its lock on the row, taken over after the previous holder's lock expired, is fresh)" } else { "" };
                            fail!(
                                format!("c09:exclusion:second-writer-admitted:row-{how}-by-open-tx"),
                                format!("after [{}]: {} returned Ok({n}) although row {row} was {how} by tx{holder}, which is still open{took} (expected LockConflict)", hist(i), show_ev(ev))
                            );
                        }
                        Got::Err(x) => fail!(format!("c09:statement:unexpected-error:tx_{}", s.kind()), format!("after [{}]: {} failed with {x} (expected LockConflict)", hist(i), show_ev(ev))),
                    }
                } else {
                    if soft {
                        // lock timeout passed, holder still open and not timed out (or the reverse):
                        // whether the writer is admitted is information only (documented lock expiry)
                        match got {
                            Got::Conflict(_) => {
                                out.info.lock_expired_holder_open_second_writer_refused += 1;
                                after = "refused statement";
                            }
                            Got::Ok(_) => out.info.lock_expired_holder_open_second_writer_admitted += 1,
                            Got::Err(_) => return out,
                        }
                    }
                    if after != "refused statement" {
                        match (s, got) {
                            (Stmt::Ins(..), Got::Ok(id)) if id == m.next_id => {}
                            (Stmt::Ins(..), Got::Ok(id)) => fail!("c09:statement:insert-id".to_string(), format!("after [{}]: inserted row got id {id}, the next id is {}", hist(i), m.next_id)),
                            (_, Got::Ok(n)) if n as usize == ids.len() => {}
                            (_, Got::Ok(n)) => fail!(format!("c09:statement:count-differs:tx_{}", s.kind()), format!("after [{}]: {} returned {n}; {} rows match ({ids:?})", hist(i), show_ev(ev), ids.len())),
                            (_, Got::Conflict(x)) => {
                                let ended: Vec<String> = (0..m.tx.len()).filter(|k| matches!(m.tx[*k].st, TxSt::Committed | TxSt::RolledBack) || (m.tx[*k].st == TxSt::Active && m.tx_expired(*k))).map(|k| format!("tx{k}")).collect();
                                fail!(
                                    format!("c09:lock:conflict-without-open-holder:tx_{}", s.kind()),
                                    format!("after [{}]: {} was refused ({x}) although no open, unexpired transaction holds a matching row {ids:?} (ended or timed out: {ended:?})", hist(i), show_ev(ev))
                                );
                            }
                            (_, Got::Err(x)) => fail!(format!("c09:statement:unexpected-error:tx_{}", s.kind()), format!("after [{}]: {} failed with {x}", hist(i), show_ev(ev))),
                        }
                        if !matches!(s, Stmt::Ins(..)) && ids.is_empty() {
                            // nothing matched: no effect
                        } else {
                            out.effective = true;
                        }
                        if m.take_over(me, &ids) {
                            contested.extend(ids.iter().copied());
                        }
                        if let Some(k) = me {
                            tx_deleted[k] |= matches!(s, Stmt::Del(_)) && !ids.is_empty();
                            tx_inserted[k] |= matches!(s, Stmt::Ins(..));
                        }
                        m.apply(me, s, &ids);
                    }
                }
            }
            Ev::Commit(k) | Ev::Rollback(k) => {
                let commit = matches!(ev, Ev::Commit(_));
                let k = *k as usize;
                let id = m.tx[k].real_id;
                let r = if commit { e.commit(id) } else { e.rollback(id) };
                after = if commit { "commit" } else { "rollback" };
                if m.tx_expired(k) {
                    return out; // the end of a timed-out transaction is not defined by the property
                }
                if let Err(x) = r {
                    if commit {
                        fail!("c09:commit:refused".to_string(), format!("after [{}]: commit of the open tx{k} failed: {x}", hist(i)));
                    }
                    out.info.rollback_returned_error += 1;
                }
                any_rollback |= !commit;
                rb_del |= !commit && tx_deleted[k];
                rb_ins |= !commit && tx_inserted[k];
                co_any |= commit && (tx_deleted[k] || tx_inserted[k]);
                if !commit && !m.tx[k].lost.is_empty() && !tainted {
                    tainted = true;
                    out.info.cases_with_table_undefined_after_expiry_takeover += 1;
                }
                adopt = tainted;
                m.end(k, commit, selftest);
                let n = e.tx_manager().locks_held_by(id);
                out.evals += 1;
                if n != 0 {
                    fail!("c09:lock:left-behind-after-end".to_string(), format!("after [{}]: locks_held_by(tx{k}) = {n} after its {after}", hist(i)));
                }
            }
        }
        match raw(e, tn) {
            Err(x) => fail!("c09:table:unreadable".to_string(), format!("after [{}]: {x}", hist(i))),
            Ok(t) if adopt => m.rows = t,
            Ok(t) if t != m.rows => {
                let sig = match after {
                    "rollback" => "c09:rollback:table-differs".to_string(),
                    "commit" => "c09:commit:table-differs".to_string(),
                    "refused statement" => "c09:refused-statement:table-changed".to_string(),
                    "clock" => "c09:clock:table-changed".to_string(),
                    "cleanup" => "c09:cleanup:table-changed".to_string(),
                    _ => format!("c09:statement:effect-differs:{}", if let Ev::Tx(_, s) | Ev::NonTx(s) = ev { s.kind() } else { "" }),
                };
                fail!(sig, format!("after [{}]: {}", hist(i), diff(&t, &m.rows)));
            }
            Ok(_) => {}
        }
        // row locks: a row an open transaction holds with a fresh lock is locked; a row nobody holds
        // (or whose holders are past both timeouts) is not
        for id in 1..m.next_id {
            let holds: Vec<(usize, Hold)> = (0..m.tx.len()).filter_map(|k| m.hold(k, id).map(|h| (k, h.1))).collect();
            let locked = e.tx_manager().is_row_locked(tn, id);
            if let Some((k, _)) = holds.iter().find(|h| h.1 == Hold::Hard) {
                if !locked {
                    fail!("c09:lock:missing-for-row-held-by-open-tx".to_string(), format!("after [{}]: is_row_locked(row {id}) is false although the open tx{k} wrote the row and its lock is younger than the lock timeout", hist(i)));
                }
                let holder = e.tx_manager().row_lock_holder(tn, id);
                out.evals += 1;
                if holds.len() == 1 && holder != Some(m.tx[*k].real_id) {
                    fail!("c09:lock:holder-is-not-the-writer".to_string(), format!("after [{}]: row_lock_holder(row {id}) = {holder:?}; the only open transaction that wrote the row is tx{k} (id {})", hist(i), m.tx[*k].real_id));
                }
            } else if holds.is_empty() && locked {
                fail!("c09:lock:left-behind-after-end".to_string(), format!("after [{}]: row {id} is locked although no open transaction holds it", hist(i)));
            } else if !holds.is_empty() && holds.iter().all(|h| h.1 == Hold::Vanished) && locked {
                fail!("c09:lock:survives-timeout".to_string(), format!("after [{}]: row {id} is still locked although its holder is older than the lock and the transaction timeout", hist(i)));
            }
        }
    }
    let all = case.events.iter().map(show_ev).collect::<Vec<_>>().join("; ");
    if m.tx.iter().any(|t| t.st == TxSt::Active) {
        return out; // S3 cases end with an open (expired) holder: nothing more is defined
    }
    if !tainted {
        out.final_state = format!("{:?}", m.rows);
    }
    // locks must be gone, nothing may be active
    let tm = e.tx_manager();
    let left: Vec<u64> = (1..m.next_id).filter(|id| tm.is_row_locked(tn, *id)).collect();
    if tm.active_lock_count() != 0 || !left.is_empty() {
        fail!("c09:lock:left-behind-after-end".to_string(), format!("after [{all}]: every transaction has ended but active_lock_count() = {} and rows {left:?} are still locked", tm.active_lock_count()));
    }
    if e.active_transaction_count() != 0 {
        fail!("c09:tx:still-active-after-end".to_string(), format!("after [{all}]: active_transaction_count() = {}", e.active_transaction_count()));
    }
    // indexed reads
    let phase = if any_rollback { "after-rollback" } else { "after-commit" };
    if !tainted {
        if id_hash(case.cfg) || id_ordered(case.cfg) {
            // counted when the comparison is made, whatever its result
            out.info.id_index_cases_rolled_back_delete_then_queried += u64::from(rb_del);
            out.info.id_index_cases_rolled_back_insert_then_queried += u64::from(rb_ins);
            out.info.id_index_cases_committed_delete_or_insert_then_queried += u64::from(co_any);
        }
        if let Some(f) = battery(e, tn, &m.rows, m.next_id, case.cfg, level, &mut out.evals) {
            fail!(format!("c09:query-{phase}:{}", f.sig), format!("after [{all}] (indexes: {}): {}", cfg_text(case.cfg), f.msg));
        }
    }
    // finished transactions are refused by every tx_* call and change nothing
    for (k, t) in m.tx.iter().enumerate() {
        if t.st == TxSt::NotBegun {
            continue;
        }
        let id = t.real_id;
        let calls: Vec<(&str, bool)> = vec![
            ("tx_insert", e.tx_insert(id, tn, vals(5, 5)).is_err()),
            ("tx_update", e.tx_update(id, tn, Condition::True, Set::H(5).map()).is_err()),
            ("tx_delete", e.tx_delete(id, tn, Condition::True).is_err()),
            ("tx_select", e.tx_select(id, tn, Condition::True).is_err()),
            ("commit", e.commit(id).is_err()),
            ("rollback", e.rollback(id).is_err()),
        ];
        out.evals += calls.len() as u64;
        if let Some((name, _)) = calls.iter().find(|(_, refused)| !refused) {
            fail!(format!("c09:finished-tx:{name}-accepted"), format!("after [{all}]: {name} on the finished tx{k} returned Ok"));
        }
        if e.is_transaction_active(id) || e.tx_manager().is_active(id) || e.tx_manager().get(id) == Some(relational_engine::TxPhase::Active) {
            fail!("c09:finished-tx:reported-active".to_string(), format!("after [{all}]: is_transaction_active(tx{k}) = {}, tx_manager().get(tx{k}) = {:?}", e.is_transaction_active(id), e.tx_manager().get(id)));
        }
    }
    match raw(e, tn) {
        Ok(t) if t == m.rows => {}
        Ok(t) => fail!("c09:finished-tx:call-changed-table".to_string(), format!("after [{all}] and the refused calls on finished transactions: {}", diff(&t, &m.rows))),
        Err(x) => fail!("c09:table:unreadable".to_string(), x),
    }
    // a new transaction can write every row (no lock survived), and its rollback restores the table
    let p = e.begin_transaction();
    let r = classify(e.tx_update(p, tn, Condition::True, Set::HO(5, 5).map()).map(|n| n as u64));
    out.evals += 1;
    if r != Got::Ok(m.rows.len() as u64) {
        fail!("c09:lock:left-behind-after-end".to_string(), format!("after [{all}]: a new transaction updating every row got {r:?}, expected Ok({})", m.rows.len()));
    }
    let _ = e.rollback(p);
    match raw(e, tn) {
        Ok(t) if t == m.rows => {}
        Ok(t) => fail!("c09:rollback:table-differs".to_string(), format!("after [{all}] then a new transaction updating every row and rolling back: {}", diff(&t, &m.rows))),
        Err(x) => fail!("c09:table:unreadable".to_string(), x),
    }
    out.clean = true;
    out
}

// ------------------------------------------------------------------ case enumeration
fn s1_alphabet() -> Vec<Stmt> {
    vec![
        Stmt::Upd(Cx::Id(1), Set::H(3)),
        Stmt::Del(Cx::Id(1)),
        Stmt::Ins(1, 3),
        Stmt::Upd(Cx::H(1), Set::O(3)),
        Stmt::Del(Cx::OGe(2)),
        Stmt::Upd(Cx::Id(2), Set::O(1)),
        Stmt::Ins(3, 1),
        Stmt::Upd(Cx::All, Set::HO(2, 2)),
        Stmt::Del(Cx::H(1)),
        Stmt::Upd(Cx::OGe(2), Set::H(1)),
        Stmt::Upd(Cx::H(3), Set::O(2)),
        Stmt::Del(Cx::All),
    ]
}
fn s1_nontx(len: usize) -> Vec<Stmt> {
    // scripts of length 4 get the two letters that interact most (id allocation, shared hash key)
    if len >= 4 {
        vec![Stmt::Ins(3, 3), Stmt::Upd(Cx::H(1), Set::O(2))]
    } else {
        vec![Stmt::Ins(3, 3), Stmt::Upd(Cx::Id(2), Set::HO(3, 3)), Stmt::Del(Cx::Id(2)), Stmt::Upd(Cx::H(1), Set::O(2))]
    }
}
/// statements of transaction `g` (0-based) in the interleaving parts: values are tagged by the writer
fn s2_alphabet(g: u8) -> Vec<Stmt> {
    let v = 3 + i64::from(g);
    vec![Stmt::Upd(Cx::Id(1), Set::H(v)), Stmt::Del(Cx::Id(1)), Stmt::Upd(Cx::H(1), Set::O(v)), Stmt::Ins(1, v), Stmt::Upd(Cx::Id(2), Set::HO(v, v)), Stmt::Del(Cx::OGe(2))]
}
fn product<Tv: Clone>(alpha: &[Tv], len: usize) -> Vec<Vec<Tv>> {
    let mut out: Vec<Vec<Tv>> = vec![vec![]];
    for _ in 0..len {
        out = out.into_iter().flat_map(|p| alpha.iter().map(move |a| { let mut q = p.clone(); q.push(a.clone()); q })).collect();
    }
    out
}
/// every merge of the given sequences that keeps each sequence's own order
fn merges(seqs: &[Vec<Ev>]) -> Vec<Vec<Ev>> {
    fn rec(seqs: &[Vec<Ev>], pos: &mut Vec<usize>, cur: &mut Vec<Ev>, out: &mut Vec<Vec<Ev>>) {
        let mut done = true;
        for k in 0..seqs.len() {
            if pos[k] < seqs[k].len() {
                done = false;
                cur.push(seqs[k][pos[k]]);
                pos[k] += 1;
                rec(seqs, pos, cur, out);
                pos[k] -= 1;
                cur.pop();
            }
        }
        if done {
            out.push(cur.clone());
        }
    }
    let mut out = vec![];
    rec(seqs, &mut vec![0; seqs.len()], &mut vec![], &mut out);
    out
}
fn tx_script(k: u8, stmts: &[Stmt], commit: bool) -> Vec<Ev> {
    let mut v: Vec<Ev> = stmts.iter().map(|s| Ev::Tx(k, *s)).collect();
    v.push(if commit { Ev::Commit(k) } else { Ev::Rollback(k) });
    v
}

struct Plan {
    s1: Vec<(u8, u8, usize)>, // (cfg, rows0, max script length)
    s2_pairs: Vec<(u8, usize, usize)>, // (cfg, script length of tx0, of tx1)
    s2_triples: bool,
    /// S5 also runs the taken-over-lock shape of S4 with the cleanup calls before the second writer
    s5_takeover: bool,
    level: u8,
    bound: usize,
}
fn plan(thorough: bool, selftest: bool) -> Plan {
    if selftest {
        Plan { s1: vec![(0, 2, 2)], s2_pairs: vec![(0, 1, 1)], s2_triples: false, s5_takeover: false, level: 0, bound: 1 }
    } else if thorough {
        Plan { s1: vec![(0, 2, 4), (2, 2, 3), (3, 2, 3), (1, 3, 3)], s2_pairs: vec![(0, 1, 1), (0, 1, 2), (0, 2, 1), (0, 2, 2), (1, 1, 1), (1, 1, 2), (1, 2, 1)], s2_triples: true, s5_takeover: true, level: 1, bound: 3 }
    } else {
        Plan { s1: vec![(0, 2, 3), (2, 2, 2), (3, 2, 2), (1, 3, 2)], s2_pairs: vec![(0, 1, 1), (0, 1, 2), (0, 2, 1), (1, 1, 1)], s2_triples: false, s5_takeover: false, level: 0, bound: 2 }
    }
}
/// calls `f(index, case)` for every case of the sequential parts, simplest first
fn for_each_case(pl: &Plan, only: Option<&str>, f: &mut dyn FnMut(u64, Case)) {
    let mut idx = 0u64;
    let mut emit = |c: Case| {
        f(idx, c);
        idx += 1;
    };
    let want = |p: &str| only.is_none_or(|o| o == p);
    if want("S1") {
        for &(cfg, rows0, maxlen) in &pl.s1 {
            for len in 1..=maxlen {
                for script in product(&s1_alphabet(), len) {
                    for commit in [false, true] {
                        let base = tx_script(0, &script, commit);
                        emit(Case { part: "S1".into(), cfg, rows0, ntx: 1, events: base.clone() });
                        for pos in 0..=len {
                            for n in s1_nontx(len) {
                                let mut ev = base.clone();
                                ev.insert(pos, Ev::NonTx(n));
                                emit(Case { part: "S1".into(), cfg, rows0, ntx: 1, events: ev });
                            }
                        }
                    }
                }
            }
        }
    }
    if want("S2") {
        for &(cfg, l0, l1) in &pl.s2_pairs {
            for s0 in product(&s2_alphabet(0), l0) {
                for s1 in product(&s2_alphabet(1), l1) {
                    for c0 in [false, true] {
                        for c1 in [false, true] {
                            for events in merges(&[tx_script(0, &s0, c0), tx_script(1, &s1, c1)]) {
                                emit(Case { part: "S2".into(), cfg, rows0: 2, ntx: 2, events });
                            }
                        }
                    }
                }
            }
        }
        if pl.s2_triples {
            for s0 in s2_alphabet(0) {
                for s1 in s2_alphabet(1) {
                    for s2 in s2_alphabet(2) {
                        for ends in 0..8u8 {
                            for events in merges(&[tx_script(0, &[s0], ends & 1 != 0), tx_script(1, &[s1], ends & 2 != 0), tx_script(2, &[s2], ends & 4 != 0)]) {
                                emit(Case { part: "S2".into(), cfg: 0, rows0: 2, ntx: 3, events });
                            }
                        }
                    }
                }
            }
        }
    }
    if want("S3") {
        for s0 in s2_alphabet(0) {
            for s1 in s2_alphabet(1) {
                for adv in [0, 29_000, 31_000, 61_000] {
                    let mut events = vec![Ev::Tx(0, s0)];
                    if adv > 0 {
                        events.push(Ev::Advance(adv));
                    }
                    events.push(Ev::Tx(1, s1));
                    if adv <= 29_000 {
                        // both still hold their locks: end them in both orders
                        for ends in [[Ev::Rollback(1), Ev::Commit(0)], [Ev::Rollback(0), Ev::Commit(1)]] {
                            let mut ev = events.clone();
                            ev.extend(ends);
                            emit(Case { part: "S3".into(), cfg: 0, rows0: 2, ntx: 2, events: ev });
                        }
                    } else {
                        emit(Case { part: "S3".into(), cfg: 0, rows0: 2, ntx: 2, events });
                    }
                }
            }
        }
    }
    // S4: the lock taken over after an expiry is a live lock. Holder tx0 writes; +31 s (its lock
    // expires, it stays open); tx1 writes (admission is information only); tx0 commits or rolls back;
    // optionally +29 s (tx1's lock still fresh); a third writer tx2 must be refused wherever tx1 holds
    // the row; then tx1 and tx2 end in both orders, both ways.
    if want("S4") {
        for s0 in s2_alphabet(0) {
            for s1 in s2_alphabet(1) {
                for commit0 in [true, false] {
                    for adv in [0, 29_000] {
                        for s2 in s2_alphabet(2) {
                            let mut head = vec![Ev::Tx(0, s0), Ev::Advance(31_000), Ev::Tx(1, s1), if commit0 { Ev::Commit(0) } else { Ev::Rollback(0) }];
                            if adv > 0 {
                                head.push(Ev::Advance(adv));
                            }
                            head.push(Ev::Tx(2, s2));
                            for ends in 0..4u8 {
                                let e1 = if ends & 1 != 0 { Ev::Commit(1) } else { Ev::Rollback(1) };
                                let e2 = if ends & 2 != 0 { Ev::Commit(2) } else { Ev::Rollback(2) };
                                for order in [[e1, e2], [e2, e1]] {
                                    let mut events = head.clone();
                                    events.extend(order);
                                    emit(Case { part: "S4".into(), cfg: 0, rows0: 2, ntx: 3, events });
                                }
                            }
                        }
                    }
                }
            }
        }
    }
    // S5: the expiry entry points. Shape A: holder statement by tx0, clock +0/29/31/61 s,
    // cleanup_expired_locks() + cleanup_expired(), second writer tx1, ends. Within both timeouts the
    // calls must change nothing (rows stay locked, the writer is refused, the holder can still commit);
    // past both, the holder's locks must be gone. Shape B (thorough): S4 with the calls placed between
    // the lock expiry and the second writer.
    if want("S5") {
        for s0 in s2_alphabet(0) {
            for s1 in s2_alphabet(1) {
                for adv in [0, 29_000, 31_000, 61_000] {
                    let mut events = vec![Ev::Tx(0, s0)];
                    if adv > 0 {
                        events.push(Ev::Advance(adv));
                    }
                    events.push(Ev::Cleanup);
                    events.push(Ev::Tx(1, s1));
                    if adv <= 29_000 {
                        for ends in [[Ev::Rollback(1), Ev::Commit(0)], [Ev::Rollback(0), Ev::Commit(1)], [Ev::Commit(0), Ev::Commit(1)]] {
                            let mut ev = events.clone();
                            ev.extend(ends);
                            emit(Case { part: "S5".into(), cfg: 0, rows0: 2, ntx: 2, events: ev });
                        }
                    } else {
                        for end1 in [Ev::Commit(1), Ev::Rollback(1)] {
                            let mut ev = events.clone();
                            ev.push(end1);
                            emit(Case { part: "S5".into(), cfg: 0, rows0: 2, ntx: 2, events: ev });
                        }
                    }
                }
            }
        }
        if pl.s5_takeover {
            for s0 in s2_alphabet(0) {
                for s1 in s2_alphabet(1) {
                    for commit0 in [true, false] {
                        for s2 in s2_alphabet(2) {
                            let head = vec![Ev::Tx(0, s0), Ev::Advance(31_000), Ev::Cleanup, Ev::Tx(1, s1), if commit0 { Ev::Commit(0) } else { Ev::Rollback(0) }, Ev::Cleanup, Ev::Tx(2, s2)];
                            for ends in 0..4u8 {
                                let e1 = if ends & 1 != 0 { Ev::Commit(1) } else { Ev::Rollback(1) };
                                let e2 = if ends & 2 != 0 { Ev::Commit(2) } else { Ev::Rollback(2) };
                                let mut events = head.clone();
                                events.extend([e1, e2]);
                                emit(Case { part: "S5".into(), cfg: 0, rows0: 2, ntx: 3, events });
                            }
                        }
                    }
                }
            }
        }
    }
}

// ------------------------------------------------------------------ Part T
#[derive(Clone, Debug, Serialize, Deserialize)]
enum TOp {
    S(u8, Stmt),
    Auto(Stmt),
    Commit(u8),
    Rollback(u8),
}
fn show_top(o: &TOp) -> String {
    match o {
        TOp::S(k, s) => s.show(&format!("tx{k}.tx_")),
        TOp::Auto(s) => s.show(""),
        TOp::Commit(k) => format!("commit(tx{k})"),
        TOp::Rollback(k) => format!("rollback(tx{k})"),
    }
}
#[derive(Clone, Debug, Serialize, Deserialize)]
struct Program {
    name: String,
    cfg: u8,
    rows0: u8,
    ntx: u8,
    /// executed before the threads start
    pre: Vec<TOp>,
    threads: Vec<Vec<TOp>>,
    /// executed by the checker after all threads have finished
    post: Vec<TOp>,
    /// the contending statements all stay open until `post`: exactly one must be admitted
    one_winner_on: Option<u64>,
}
fn programs(thorough: bool) -> Vec<Program> {
    let upd = |k: u8, row: u64, set: Set| TOp::S(k, Stmt::Upd(Cx::Id(row), set));
    let del = |k: u8, row: u64| TOp::S(k, Stmt::Del(Cx::Id(row)));
    let p = |name: &str, ntx: u8, pre: Vec<TOp>, threads: Vec<Vec<TOp>>, post: Vec<TOp>, one: Option<u64>| Program { name: name.into(), cfg: 0, rows0: 2, ntx, pre, threads, post, one_winner_on: one };
    let mut v = vec![
        p("tx_update(r1) || tx_update(r1), both open", 2, vec![], vec![vec![upd(0, 1, Set::H(3))], vec![upd(1, 1, Set::H(4))]], vec![TOp::Rollback(0), TOp::Commit(1)], Some(1)),
        p("tx_delete(r1) || tx_update(r1), both open", 2, vec![], vec![vec![del(0, 1)], vec![upd(1, 1, Set::O(4))]], vec![TOp::Rollback(0), TOp::Commit(1)], Some(1)),
        p("commit(holder of r1) || tx_update(r1)", 2, vec![upd(0, 1, Set::H(3))], vec![vec![TOp::Commit(0)], vec![upd(1, 1, Set::O(4))]], vec![TOp::Rollback(1)], None),
        p("rollback(holder of r1) || tx_update(r1)", 2, vec![upd(0, 1, Set::H(3))], vec![vec![TOp::Rollback(0)], vec![upd(1, 1, Set::O(4))]], vec![TOp::Rollback(1)], None),
        p("tx_update(r1);commit || tx_update(r1);rollback", 2, vec![], vec![vec![upd(0, 1, Set::H(3)), TOp::Commit(0)], vec![upd(1, 1, Set::O(4)), TOp::Rollback(1)]], vec![], None),
        p("tx_update(r1);commit || tx_delete(r1);rollback", 2, vec![], vec![vec![upd(0, 1, Set::H(3)), TOp::Commit(0)], vec![del(1, 1), TOp::Rollback(1)]], vec![], None),
        p("tx_update(all rows) || tx_update(r2), both open", 2, vec![], vec![vec![TOp::S(0, Stmt::Upd(Cx::All, Set::H(3)))], vec![upd(1, 2, Set::H(4))]], vec![TOp::Rollback(0), TOp::Commit(1)], Some(2)),
        p("update(r1) || update(r1), non-transactional", 0, vec![], vec![vec![TOp::Auto(Stmt::Upd(Cx::Id(1), Set::H(3)))], vec![TOp::Auto(Stmt::Upd(Cx::Id(1), Set::O(4)))]], vec![], None),
    ];
    if thorough {
        v.push(p("tx_update(r1);commit || tx_update(r1);commit", 2, vec![], vec![vec![upd(0, 1, Set::H(3)), TOp::Commit(0)], vec![upd(1, 1, Set::HO(4, 4)), TOp::Commit(1)]], vec![], None));
        v.push(p("tx_delete(r1);commit || tx_update(r1);rollback", 2, vec![], vec![vec![del(0, 1), TOp::Commit(0)], vec![upd(1, 1, Set::O(4)), TOp::Rollback(1)]], vec![], None));
        v.push(p("tx_insert;rollback || tx_update(r1);commit", 2, vec![], vec![vec![TOp::S(0, Stmt::Ins(1, 3)), TOp::Rollback(0)], vec![upd(1, 1, Set::O(4)), TOp::Commit(1)]], vec![], None));
        v.push(p("3 threads: tx_update(r1) x3, all open", 3, vec![], vec![vec![upd(0, 1, Set::H(3))], vec![upd(1, 1, Set::H(4))], vec![upd(2, 1, Set::H(5))]], vec![TOp::Rollback(0), TOp::Rollback(1), TOp::Rollback(2)], Some(1)));
        v.push(p("3 threads: commit(holder) || tx_update(r1) || tx_delete(r1)", 3, vec![upd(0, 1, Set::H(3))], vec![vec![TOp::Commit(0)], vec![upd(1, 1, Set::O(4))], vec![del(2, 1)]], vec![TOp::Rollback(1), TOp::Rollback(2)], None));
    }
    v
}
#[derive(Clone, Debug)]
struct Rec {
    phase: u8,
    op: TOp,
    call: u64,
    ret: u64,
    got: Got,
}
fn exec_top(e: &RelationalEngine, tx: &[u64], op: &TOp) -> Got {
    match op {
        TOp::S(k, s) => exec_stmt(e, T, Some(tx[*k as usize]), s),
        TOp::Auto(s) => exec_stmt(e, T, None, s),
        TOp::Commit(k) => classify(e.commit(tx[*k as usize]).map(|()| 0u64)),
        TOp::Rollback(k) => classify(e.rollback(tx[*k as usize]).map(|()| 0u64)),
    }
}
/// rows a statement changed, from what it returned (None = cannot be told)
fn targets(s: &Stmt, got: &Got, rows0: u8) -> Option<Vec<u64>> {
    let Got::Ok(n) = got else { return Some(vec![]) };
    match s {
        Stmt::Ins(..) => Some(vec![*n]),
        Stmt::Upd(c, _) | Stmt::Del(c) => match c {
            _ if *n == 0 => Some(vec![]),
            Cx::Id(k) if *n == 1 => Some(vec![*k]),
            Cx::All if *n == u64::from(rows0) => Some((1..=u64::from(rows0)).collect()),
            _ => None,
        },
    }
}
fn permutations(n: usize) -> Vec<Vec<usize>> {
    if n == 0 {
        return vec![vec![]];
    }
    let mut out = vec![];
    for p in permutations(n - 1) {
        for i in 0..=p.len() {
            let mut q = p.clone();
            q.insert(i, n - 1);
            out.push(q);
        }
    }
    out
}
/// judge one finished execution; returns (outcome, Some("signature|message"))
fn judge(p: &Program, e: &RelationalEngine, tx: &[u64], mut recs: Vec<Rec>, selftest: bool) -> (String, Option<String>) {
    let unit_of = |op: &TOp, i: usize| match op {
        TOp::S(k, _) | TOp::Commit(k) | TOp::Rollback(k) => *k as usize,
        TOp::Auto(_) => 100 + i,
    };
    // (1) two open transactions never both write one row
    let end_call = |unit: usize, recs: &[Rec]| recs.iter().find(|r| matches!(&r.op, TOp::Commit(k) | TOp::Rollback(k) if *k as usize == unit)).map_or(u64::MAX, |r| if r.phase == 0 { 0 } else { r.call });
    let mut writes: Vec<(usize, u64, u64, u64, String)> = vec![]; // unit, row, call, ret, text
    // units whose statements failed half way or touched a row set that cannot be told from the result
    let mut undefined_units: BTreeSet<usize> = BTreeSet::new();
    for (i, r) in recs.iter().enumerate() {
        if let TOp::S(_, s) | TOp::Auto(s) = &r.op {
            if let Got::Err(_) = &r.got {
                undefined_units.insert(unit_of(&r.op, i));
            }
            match targets(s, &r.got, p.rows0) {
                None => {
                    undefined_units.insert(unit_of(&r.op, i));
                }
                Some(rows) => {
                    for row in rows {
                        let (call, ret) = if r.phase == 0 { (0, 0) } else { (r.call, r.ret) };
                        writes.push((unit_of(&r.op, i), row, call, ret, show_top(&r.op)));
                    }
                }
            }
        }
    }
    let results = |recs: &[Rec]| recs.iter().map(|r| format!("{} -> {:?}", show_top(&r.op), r.got)).collect::<Vec<_>>().join("; ");
    for a in &writes {
        for b in &writes {
            if a.0 != b.0 && a.1 == b.1 && a.0 < 100 && a.3 < b.2 && b.3 < end_call(a.0, &recs) {
                return ("<exclusion>".into(), Some(format!("c09:conc:exclusion:two-open-transactions-wrote-one-row|row {} was written by [{}] and then by [{}] while the first transaction was still open; results: {}", a.1, a.4, b.4, results(&recs))));
            }
        }
    }
    if let Some(row) = p.one_winner_on {
        let n = writes.iter().filter(|w| w.1 == row).count();
        if n == 0 {
            return ("<no-winner>".into(), Some(format!("c09:conc:no-writer-admitted|every contending statement on row {row} was refused although none of the transactions had written it; results: {}", results(&recs))));
        }
    }
    // (2) ends performed after the threads
    for op in &p.post {
        let got = exec_top(e, tx, op);
        recs.push(Rec { phase: 2, op: op.clone(), call: u64::MAX, ret: u64::MAX, got });
    }
    let res_text = results(&recs);
    let table = match raw(e, T) {
        Ok(t) => t,
        Err(x) => return ("<unreadable>".into(), Some(format!("c09:table:unreadable|{x}"))),
    };
    let outcome = format!("{:?} | {:?}", recs.iter().map(|r| match &r.got { Got::Ok(n) => format!("ok{n}"), Got::Conflict(_) => "conflict".into(), Got::Err(_) => "err".into() }).collect::<Vec<_>>(), table);
    for r in &recs {
        if let (TOp::Commit(_), Got::Conflict(x) | Got::Err(x)) = (&r.op, &r.got) {
            return (outcome, Some(format!("c09:commit:refused|commit of an open transaction failed: {x}; results: {res_text}")));
        }
    }
    // a rolled-back transaction must leave nothing whatever its statements did; the effect of a
    // half-failed statement in a *committed* unit is not defined by the property: not judged
    let rolled_units: BTreeSet<usize> = recs.iter().filter_map(|r| if let TOp::Rollback(k) = &r.op { Some(*k as usize) } else { None }).collect();
    if undefined_units.iter().any(|u| !rolled_units.contains(u)) {
        return (format!("{outcome} (not judged)"), None);
    }
    // (3) final table = committed units' writes in some order; rolled-back units leave nothing
    let mut units: Vec<usize> = vec![];
    for (i, r) in recs.iter().enumerate() {
        let committed = match &r.op {
            TOp::Commit(_) => matches!(r.got, Got::Ok(_)),
            TOp::Auto(_) => matches!(r.got, Got::Ok(_)),
            TOp::Rollback(_) => selftest, // --selftest: corrupted reference counts rolled-back work
            TOp::S(..) => false,
        };
        if committed {
            units.push(unit_of(&r.op, i));
        }
    }
    let mut expected: Vec<Table> = vec![];
    for perm in permutations(units.len()) {
        let mut t = init_table(p.rows0);
        for &ui in &perm {
            for (i, r) in recs.iter().enumerate() {
                if let TOp::S(_, s) | TOp::Auto(s) = &r.op {
                    if unit_of(&r.op, i) != units[ui] {
                        continue;
                    }
                    for row in targets(s, &r.got, p.rows0).unwrap_or_default() {
                        match s {
                            Stmt::Ins(h, o) => {
                                t.insert(row, (*h, *o));
                            }
                            Stmt::Upd(_, set) => {
                                if let Some(v) = t.get_mut(&row) {
                                    set.apply(v);
                                }
                            }
                            Stmt::Del(_) => {
                                t.remove(&row);
                            }
                        }
                    }
                }
            }
        }
        if !expected.contains(&t) {
            expected.push(t);
        }
    }
    if !expected.contains(&table) {
        // name the symptom: a value written by a rolled-back transaction is visible, or a committed write is gone
        let rolled: Vec<usize> = recs.iter().filter(|r| matches!((&r.op, &r.got), (TOp::Rollback(_), Got::Ok(_) | Got::Err(_)))).map(|r| if let TOp::Rollback(k) = &r.op { *k as usize } else { 0 }).collect();
        let mut rolled_vals: BTreeSet<i64> = BTreeSet::new();
        for (i, r) in recs.iter().enumerate() {
            if let TOp::S(_, Stmt::Upd(_, set)) = &r.op {
                if rolled.contains(&unit_of(&r.op, i)) {
                    match set {
                        Set::H(v) | Set::O(v) => {
                            rolled_vals.insert(*v);
                        }
                        Set::HO(a, b) => {
                            rolled_vals.insert(*a);
                            rolled_vals.insert(*b);
                        }
                    }
                }
            }
        }
        let e0 = &expected[0];
        let symptom = if table.iter().any(|(id, r)| e0.get(id) != Some(r) && (rolled_vals.contains(&r.0) || rolled_vals.contains(&r.1)) && e0.get(id).is_some_and(|x| (x.0 != r.0 && rolled_vals.contains(&r.0)) || (x.1 != r.1 && rolled_vals.contains(&r.1)))) {
            "rolled-back-write-visible"
        } else if table.len() > e0.len() {
            "rolled-back-row-present"
        } else {
            "committed-write-lost"
        };
        return (outcome, Some(format!("c09:conc:final-table:{symptom}|final table {table:?}; committed work explains only {expected:?}; results: {res_text}")));
    }
    // (4) locks gone, indexed reads agree with the table, finished transactions refused
    let tm = e.tx_manager();
    if tm.active_lock_count() != 0 || e.active_transaction_count() != 0 {
        return (outcome, Some(format!("c09:lock:left-behind-after-end|all transactions ended but active_lock_count() = {}, active_transaction_count() = {}; results: {res_text}", tm.active_lock_count(), e.active_transaction_count())));
    }
    let mut evals = 0;
    if let Some(f) = battery(e, T, &table, u64::from(p.rows0) + 2, p.cfg, 0, &mut evals) {
        return (outcome, Some(format!("c09:conc:query:{}|{}; results: {res_text}", f.sig, f.msg)));
    }
    for (k, id) in tx.iter().enumerate() {
        if e.tx_update(*id, T, Condition::True, Set::H(5).map()).is_ok() || e.commit(*id).is_ok() || e.rollback(*id).is_ok() || e.tx_insert(*id, T, vals(5, 5)).is_ok() {
            return (outcome, Some(format!("c09:finished-tx:call-accepted|a call on the finished tx{k} returned Ok; results: {res_text}")));
        }
    }
    (outcome, None)
}

#[derive(Default, Serialize, Deserialize)]
struct WStats {
    // sequential parts
    cases: BTreeMap<String, u64>,
    #[serde(default)]
    cases_by_config: BTreeMap<String, u64>,
    steps: u64,
    evals: u64,
    effective_cases: u64,
    conflicts_observed: u64,
    final_states: BTreeSet<String>,
    info: Info,
    s_sample: Option<serde_json::Value>,
    // threaded part
    tasks: u64,
    executions: u64,
    sched_points: u64,
    max_points: usize,
    by_preemptions: BTreeMap<usize, u64>,
    outcomes: BTreeMap<String, BTreeSet<String>>,
    not_judged: u64,
    t_sample: Option<serde_json::Value>,
    violations: Vec<nvc::report::ViolationRec>,
    by_signature: BTreeMap<String, u64>,
    machinery: Option<String>,
}
impl WStats {
    fn viol(&mut self, sig: String, msg: String, replay: serde_json::Value) {
        *self.by_signature.entry(sig.clone()).or_default() += 1;
        if self.violations.iter().filter(|v| v.signature == sig).count() < 3 {
            self.violations.push(nvc::report::ViolationRec { signature: sig, message: msg, replay });
        }
    }
}

fn mk_execution(p: &Program, log: &Arc<Mutex<Vec<Rec>>>, selftest: bool) -> (Vec<Body>, Box<dyn FnOnce(&RunResult) -> Verdict>) {
    log.lock().unwrap().clear();
    let e = Arc::new(setup(p.cfg, p.rows0));
    let tx: Vec<u64> = (0..p.ntx).map(|_| e.begin_transaction()).collect();
    let pre: Vec<Rec> = p.pre.iter().map(|op| Rec { phase: 0, op: op.clone(), call: 0, ret: 0, got: exec_top(&e, &tx, op) }).collect();
    let mut bodies: Vec<Body> = vec![];
    for ops in &p.threads {
        let (e, ops, log, tx) = (e.clone(), ops.clone(), log.clone(), tx.clone());
        bodies.push(Box::new(move || {
            for op in &ops {
                let call = vsched::stamp() + 1; // 0 is "before the threads started"
                let got = exec_top(&e, &tx, op);
                let ret = vsched::stamp() + 1;
                log.lock().unwrap().push(Rec { phase: 1, op: op.clone(), call, ret, got });
            }
        }));
    }
    let (log2, prog) = (log.clone(), p.clone());
    let check = Box::new(move |_r: &RunResult| {
        let mut recs = pre;
        let mut l = log2.lock().unwrap().clone();
        l.sort_by_key(|r| r.call);
        recs.extend(l);
        let (outcome, violation) = judge(&prog, &e, &tx, recs, selftest);
        Verdict { outcome, violation }
    });
    (bodies, check as Box<dyn FnOnce(&RunResult) -> Verdict>)
}

fn explore_program(p: &Program, bound: usize, part: (usize, usize), selftest: bool, st: &mut WStats) {
    let log: Arc<Mutex<Vec<Rec>>> = Arc::new(Mutex::new(vec![]));
    let stats = vsched::explore(&ExploreCfg { bound, part, max_execs: 4_000_000 }, || mk_execution(p, &log, selftest));
    st.tasks += 1;
    st.executions += stats.executions;
    st.sched_points += stats.sched_points;
    st.max_points = st.max_points.max(stats.max_points);
    for (k, v) in &stats.by_preemptions {
        *st.by_preemptions.entry(*k).or_default() += v;
    }
    let set = st.outcomes.entry(p.name.clone()).or_default();
    for (o, n) in &stats.outcomes {
        if o.ends_with("(not judged)") {
            st.not_judged += n;
        }
        set.insert(o.clone());
    }
    if let Some(m) = stats.machinery {
        st.machinery.get_or_insert(format!("{}: {m}", p.name));
    }
    if stats.capped {
        st.machinery.get_or_insert(format!("{}: execution cap hit", p.name));
    }
    let extra = stats.violation_count.saturating_sub(stats.violations.len() as u64);
    for v in stats.violations {
        let (sig, msg) = if v.message.starts_with("deadlock") {
            ("c09:conc:deadlock".to_string(), v.message.clone())
        } else if v.message.starts_with("panic") {
            ("c09:conc:panic".to_string(), v.message.clone())
        } else {
            v.message.split_once('|').map_or(("c09:conc:thread-failure".to_string(), v.message.clone()), |(a, b)| (a.to_string(), b.to_string()))
        };
        st.viol(sig, format!("{}: {msg} (schedule {:?}, {} preemptions)", p.name, v.threads, v.preemptions), json!({"part": "T", "program": p, "bound": bound, "choices": v.choices, "thread_schedule": v.threads}));
    }
    if extra > 0 {
        *st.by_signature.entry(format!("(further violating schedules of '{}')", p.name)).or_default() += extra;
    }
    if st.t_sample.is_none() && part.0 == 0 {
        st.t_sample = Some(json!({"part": "T", "program": p, "schedules": stats.executions, "first_schedule": stats.sample_schedule, "outcomes": stats.outcomes.keys().take(4).collect::<Vec<_>>()}));
    }
}

const T_SPLIT: usize = 16;
fn program_bound(p: &Program, bound: usize) -> usize {
    if p.threads.len() > 2 || p.threads.iter().any(|t| t.len() > 1) {
        bound.min(2)
    } else {
        bound
    }
}

fn worker(i: usize, n: usize, thorough: bool, selftest: bool, only: Option<&str>) {
    vsched::quiet_panics();
    vsched::set_thread_init(|t| env::set_thread_seed(t as u64 + 1));
    let pl = plan(thorough, selftest);
    let mut st = WStats::default();
    let mut pool = Pool { e: None, used: 0 };
    for_each_case(&pl, only, &mut |idx, case| {
        if idx % n as u64 != i as u64 {
            return;
        }
        let out = run_case(&mut pool, &case, pl.level, selftest);
        *st.cases.entry(case.part.clone()).or_default() += 1;
        *st.cases_by_config.entry(format!("{} cfg{} ({})", case.part, case.cfg, cfg_text(case.cfg))).or_default() += 1;
        st.steps += out.steps;
        st.evals += out.evals;
        st.effective_cases += u64::from(out.effective);
        st.conflicts_observed += out.conflicts;
        st.info.add(&out.info);
        if !out.final_state.is_empty() && st.final_states.len() < 20_000 {
            st.final_states.insert(out.final_state);
        }
        if let Some((sig, msg)) = out.viol {
            st.viol(sig, msg, json!({"part": case.part, "case": case, "events": case.events.iter().map(show_ev).collect::<Vec<_>>()}));
        } else if st.s_sample.is_none() && out.conflicts > 0 && out.effective {
            st.s_sample = Some(json!({"part": case.part, "events": case.events.iter().map(show_ev).collect::<Vec<_>>(), "lock_conflicts_observed": out.conflicts, "held": true}));
        }
    });
    if only.is_none_or(|o| o == "T") {
        let mut tidx = 0;
        for p in programs(thorough) {
            for part in 0..T_SPLIT {
                if tidx % n == i {
                    // the full bound for two threads of one call each; longer or three-thread
                    // programs stay at two preemptions (their schedule count explodes)
                    let bound = program_bound(&p, pl.bound);
                    explore_program(&p, bound, (part, T_SPLIT), selftest, &mut st);
                }
                tidx += 1;
            }
        }
    }
    par::emit_result(&st);
}

fn replay(path: &str, rep: &mut Report, selftest: bool) {
    let body: serde_json::Value = serde_json::from_str(&std::fs::read_to_string(path).expect("read replay")).expect("parse replay");
    let r = &body["replay"];
    if r["part"] == "T" {
        vsched::quiet_panics();
        vsched::set_thread_init(|t| env::set_thread_seed(t as u64 + 1));
        let p: Program = serde_json::from_value(r["program"].clone()).expect("program");
        let choices: Vec<usize> = serde_json::from_value(r["choices"].clone()).expect("choices");
        let log = Arc::new(Mutex::new(vec![]));
        let (bodies, check) = mk_execution(&p, &log, selftest);
        let res = vsched::run(&choices, bodies);
        let verdict = if res.deadlock {
            Some("c09:conc:deadlock|deadlock".to_string())
        } else if let Some((t, m)) = res.panics.first() {
            Some(format!("c09:conc:panic|panic in thread {t}: {m}"))
        } else {
            check(&res).violation
        };
        if let Some(m) = res.machinery.clone() {
            rep.machinery(m);
        }
        if let Some(v) = verdict {
            let (sig, msg) = v.split_once('|').map_or(("c09:conc".to_string(), v.clone()), |(a, b)| (a.to_string(), b.to_string()));
            rep.violation(sig, format!("{}: {msg}", p.name), r.clone());
        }
        rep.sample(json!({"replayed": "T", "program": p.name, "schedule": res.thread_schedule()}));
        rep.add("traces_validated_against_impl", 1);
    } else {
        let case: Case = serde_json::from_value(r["case"].clone()).expect("case");
        let out = run_case(&mut Pool { e: None, used: 0 }, &case, 1, selftest);
        if let Some((sig, msg)) = out.viol {
            rep.violation(sig, msg, r.clone());
        }
        rep.sample(json!({"replayed": case.part, "events": case.events.iter().map(show_ev).collect::<Vec<_>>()}));
        rep.add("traces_validated_against_impl", out.steps);
    }
}


/// standalone reproductions of the findings on the unchanged tree (prints what the engine does)
fn repro() {
    println!("-- R1: a row inserted by an open transaction is not locked");
    let e = setup(0, 2);
    let (a, b) = (e.begin_transaction(), e.begin_transaction());
    println!("table before: {:?}", raw(&e, T).unwrap());
    println!("tx_a.tx_insert(h=1,o=3) -> {:?}", e.tx_insert(a, T, vals(1, 3)));
    println!("tx_b.tx_delete(o>=2)    -> {:?}   (row 3 belongs to the open tx_a: LockConflict expected)", e.tx_delete(b, T, Cx::OGe(2).cond()));
    println!("rollback(tx_a) -> {:?}", e.rollback(a));
    println!("rollback(tx_b) -> {:?}", e.rollback(b));
    println!("table after both rollbacks: {:?}   (row 3 never existed outside rolled-back transactions)", raw(&e, T).unwrap());
    println!("select(h = 1) -> ids {:?}", e.select(T, Cx::H(1).cond()).unwrap().iter().map(|r| r.id).collect::<Vec<_>>());
    println!("-- R2: committed update of such a row disappears");
    let e = setup(0, 2);
    let (a, b) = (e.begin_transaction(), e.begin_transaction());
    println!("tx_a.tx_insert(h=1,o=3) -> {:?}", e.tx_insert(a, T, vals(1, 3)));
    println!("tx_b.tx_update(_id=3 SET o:=4) -> {:?}", e.tx_update(b, T, Cx::Id(3).cond(), Set::O(4).map()));
    println!("commit(tx_b) -> {:?}", e.commit(b));
    println!("rollback(tx_a) -> {:?}", e.rollback(a));
    println!("table: {:?}", raw(&e, T).unwrap());
    println!("-- R3: tx_update reads the row before it locks it (needs the scheduler): run the replay files of c09:conc:final-table:*");
}

fn probe_cost() {
    let t0 = env::real_now_s();
    for _ in 0..2000 {
        let e = setup(0, 2);
        std::hint::black_box(&e);
    }
    let t1 = env::real_now_s();
    let e = setup(0, 2);
    let m = init_table(2);
    let mut n = 0;
    for _ in 0..2000 {
        let _ = battery(&e, T, &m, 4, 0, 0, &mut n);
    }
    let t2 = env::real_now_s();
    for _ in 0..2000 {
        let _ = battery(&e, T, &m, 4, 0, 1, &mut n);
    }
    let t3 = env::real_now_s();
    let mut pool = Pool { e: None, used: 0 };
    let c = Case { part: "S1".into(), cfg: 0, rows0: 2, ntx: 1, events: vec![Ev::Tx(0, Stmt::Upd(Cx::Id(1), Set::H(3))), Ev::Tx(0, Stmt::Ins(1, 3)), Ev::Tx(0, Stmt::Del(Cx::OGe(2))), Ev::Rollback(0)] };
    for _ in 0..2000 {
        let _ = run_case(&mut pool, &c, 0, false);
    }
    let t4 = env::real_now_s();
    println!("setup {:.3} ms, battery L0 {:.3} ms, battery L1 {:.3} ms, case(L0) {:.3} ms", (t1 - t0) / 2.0, (t2 - t1) / 2.0, (t3 - t2) / 2.0, (t4 - t3) / 2.0);
}

fn main() {
    env::require();
    env::clock_freeze(1_700_000_000);
    let args = nvc::Args::parse();
    let selftest = std::env::args().any(|a| a == "--selftest");
    let only = args.flag("only");
    if std::env::args().any(|a| a == "--probe-cost") {
        probe_cost();
        return;
    }
    if std::env::args().any(|a| a == "--repro") {
        repro();
        return;
    }
    if let Some((i, n)) = args.worker {
        worker(i, n, args.thorough(), selftest, only.as_deref());
        return;
    }
    let mut rep = Report::new(if selftest { "C09_selftest" } else { "C09" }, "model_checking");
    let thorough = rep.thorough();
    let pl = plan(thorough, selftest);
    if let Some(path) = rep.args.replay.clone() {
        replay(&path, &mut rep, selftest);
        rep.finish();
    }
    rep.rule(&format!(
        "S1: every script of <= L statements over a 12-letter alphabet of tx_insert/tx_update/tx_delete (conditions through _id, the hash-indexed column, the ordered-indexed column, TRUE) ended by commit or rollback, alone and with each of 4 (length-4 scripts: 2) non-transactional statements at every position; (index config, initial rows, L) = {:?}; index configs: 0 = hash(h)+ordered(o), 1 = hash and ordered on each of h, o and the system column _id, 2 = config 0 + create_index(t, \"_id\"), 3 = config 0 + create_btree_index(t, \"_id\"). S2: every pair of scripts ((index config, length of tx0, length of tx1) = {:?}{}) of two transactions writing tagged values to overlapping rows, both ends each, every merge order of statements and ends. S3: holder statement, clock +0/29/31/61 s, second writer. S4: holder statement by tx0, clock +31 s, second writer tx1 on overlapping rows (admission = information), tx0 commits or rolls back, clock +0/+29 s, third writer tx2 (must be refused wherever tx1 holds the row with its fresh lock; is_row_locked must be true), then tx1 and tx2 end both ways in both orders; after a rollback of a transaction that lost rows to a later writer the table is adopted instead of judged. S5 (expiry entry points): holder statement, clock +0/29/31/61 s, tx_manager().cleanup_expired_locks() + cleanup_expired(), second writer, ends (within both timeouts the calls must change nothing: table, locks, refusal of the second writer, the holder stays active and commits; past both the holder's locks must be gone){}. After every event of every case is_row_locked must be true for rows an open transaction holds with a fresh lock (and row_lock_holder must name that transaction) and false for rows nobody holds; after every commit/rollback locks_held_by(tx) must be 0. T: {} programs of 2-3 real threads, every schedule with <= {} preemptions (<= 2 for three threads or two calls per thread). Each case runs on a fresh table of a real RelationalEngine (one engine per worker process, replaced whenever a case does not end with all transactions finished and all locks gone); after every event the slab is compared with a sequential reference (held rows, undo images); at the end a battery of {} queries (configs with an index on _id: {} queries, adding _id <,<=,>,>= k for every k around the initial rows, _id <= / > the largest id, and _id conditions as first and second arm of AND, which the hash / ordered index on _id serves) goes through select/count/select_columnar/tx_select{} and must return the reference rows (the same battery is checked against the initial table of every configuration before any transaction runs), finished ids must be refused by every tx_* call, no lock may remain. non-trivial = cases in which at least one statement changed the table + schedules with >= 1 preemption",
        pl.s1,
        pl.s2_pairs,
        if pl.s2_triples { ", and every triple of one-statement transactions" } else { "" },
        if pl.s5_takeover { "; and the S4 shape with the two calls placed after the lock expiry and after the first holder's end" } else { "" },
        programs(thorough).len(),
        pl.bound,
        battery_queries(4, 0).len(),
        battery_queries(4, 1).len(),
        if pl.level >= 1 { "/select_streaming/select_iter/select_with_limit" } else { "" }
    ));
    rep.assume("values are non-null integers (NULL / float index defects belong to C04); reads inside a transaction see other transactions' uncommitted in-place changes (that is how the engine matches rows; the statement promises nothing about reads)");
    rep.assume("T: interleavings at lock-acquisition granularity; relational_engine, its TransactionManager/RowLockManager, RelationalSlab and TensorStore use only parking_lot and dashmap locks on the driven paths; atomics (TX_COUNTER, row counters, btree_entry_count) are not scheduling points");
    rep.assume("a transaction older than transaction_timeout_secs that cleanup_expired() removes is neither committed nor rolled back: its in-place changes stay and are not judged (only that its locks are gone and that live transactions and their locks are untouched); TransactionManager::{set_phase, remove, release_locks} are raw internals whose direct use is outside the statement and are not driven");
    rep.assume("a second writer admitted after lock_timeout_secs (30 s) while the holder is open and younger than transaction_timeout_secs (60 s) is recorded as information, not judged (documented lock expiry); likewise a non-transactional statement on a row an open transaction holds");
    // the battery must agree with the reference before any transaction runs (otherwise C04's business)
    let mut cfgs: BTreeSet<(u8, u8)> = pl.s1.iter().map(|x| (x.0, x.1)).collect();
    cfgs.extend(pl.s2_pairs.iter().map(|x| (x.0, 2)));
    for &(cfg, rows0) in &cfgs {
        let e = setup(cfg, rows0);
        let mut n = 0;
        if let Some(f) = battery(&e, T, &init_table(rows0), u64::from(rows0) + 1, cfg, pl.level, &mut n) {
            rep.machinery(format!("query battery disagrees with the reference on the initial table (config {cfg} = {}): {}", cfg_text(cfg), f.msg));
        }
    }
    let results: Vec<WStats> = par::spawn_workers(par::worker_count(), &[]);
    let mut t = WStats::default();
    for w in results {
        for (k, v) in w.cases {
            *t.cases.entry(k).or_default() += v;
        }
        for (k, v) in w.cases_by_config {
            *t.cases_by_config.entry(k).or_default() += v;
        }
        t.steps += w.steps;
        t.evals += w.evals;
        t.effective_cases += w.effective_cases;
        t.conflicts_observed += w.conflicts_observed;
        t.final_states.extend(w.final_states);
        t.info.add(&w.info);
        if t.s_sample.is_none() {
            t.s_sample = w.s_sample;
        }
        t.tasks += w.tasks;
        t.executions += w.executions;
        t.sched_points += w.sched_points;
        t.max_points = t.max_points.max(w.max_points);
        for (k, v) in w.by_preemptions {
            *t.by_preemptions.entry(k).or_default() += v;
        }
        for (k, v) in w.outcomes {
            t.outcomes.entry(k).or_default().extend(v);
        }
        t.not_judged += w.not_judged;
        if t.t_sample.is_none() {
            t.t_sample = w.t_sample;
        }
        for (k, v) in w.by_signature {
            *t.by_signature.entry(k).or_default() += v;
        }
        for v in w.violations {
            rep.violation(v.signature, v.message, v.replay);
        }
        if let Some(m) = w.machinery {
            rep.machinery(m);
        }
    }
    let s_cases: u64 = t.cases.values().sum();
    let preempted: u64 = t.by_preemptions.iter().filter(|(k, _)| **k > 0).map(|(_, v)| *v).sum();
    rep.add("states", t.final_states.len() as u64 + t.executions);
    rep.add("transitions", t.steps + t.sched_points);
    rep.add("traces_validated_against_impl", s_cases + t.executions);
    rep.add("evaluations", t.evals + t.steps + t.executions);
    rep.add("distinct_nontrivial", t.effective_cases + preempted);
    rep.part("S", json!({"cases": t.cases, "cases_by_part_and_index_config": t.cases_by_config, "events_executed": t.steps, "query_and_refusal_checks": t.evals, "cases_with_an_effective_statement": t.effective_cases, "lock_conflicts_observed": t.conflicts_observed, "distinct_final_tables": t.final_states.len(), "information_not_judged": t.info}));
    let single: Vec<&String> = t.outcomes.iter().filter(|(_, v)| v.len() < 2).map(|(k, _)| k).collect();
    rep.part("T", json!({"programs": t.outcomes.len(), "preemption_bound": pl.bound, "preemption_bound_per_program": programs(thorough).iter().map(|p| (p.name.clone(), program_bound(p, pl.bound))).collect::<BTreeMap<_, _>>(), "schedules_executed": t.executions, "scheduling_points": t.sched_points, "max_points_per_execution": t.max_points, "schedules_by_preemptions": t.by_preemptions, "distinct_outcomes_per_program": t.outcomes.iter().map(|(k, v)| (k.clone(), v.len())).collect::<BTreeMap<_, _>>(), "programs_with_a_single_outcome": single, "schedules_not_judged_because_a_statement_failed_half_way": t.not_judged}));
    rep.set("violating_cases_by_signature", json!(t.by_signature));
    if let Some(x) = t.s_sample {
        rep.sample(x);
    }
    if let Some(x) = t.t_sample {
        rep.sample(x);
    }
    if only.is_none() {
        if !single.is_empty() {
            rep.machinery(format!("vacuous: programs with a single outcome: {single:?}"));
        }
        if t.conflicts_observed == 0 || t.effective_cases < s_cases / 4 || t.final_states.len() < 10 {
            rep.machinery("vacuous: sequential parts saw no lock conflict / too few effective cases / too few final tables");
        }
        if !selftest && (t.info.id_index_cases_rolled_back_delete_then_queried < 100 || t.info.id_index_cases_rolled_back_insert_then_queried < 100 || t.info.id_index_cases_committed_delete_or_insert_then_queried < 100) {
            rep.machinery("vacuous: the configurations with an index on _id saw too few rolled-back / committed deletes and inserts followed by the _id-index queries");
        }
    }
    rep.finish();
}
