//! C16 — the chain is tamper-evident, commits are atomic and deterministic (DESIGN §4, C16).
//! Part S  (E4): BFS over every sequence of begin/put/delete/commit/rollback (+ raw append_block) over two
//!               workspace slots on a real TensorChain; after every step chain + store == reference.
//!               Two of the configurations run under a NON-EMPTY global codebook, so that auto-merge asks the
//!               transition validator: codebook {e0} (every merge of the orthogonal e0/e1 workspaces is
//!               rejected, the candidate ends Failed and must leave no trace) and {e0, e1, e0+e1} (accepted).
//!               Restart pass: every distinct durable shape reached by the BFS (and every distinct block-creating
//!               step) is followed by a re-open of the chain on the same store — clean, or after a crash inside
//!               the last commit / append_block / initialize at every prefix of its store-write sequence — and by
//!               every bounded continuation of further commits, with the same battery after every step.
//! Part X  (E4): tamper enumeration on a genesis+3-block chain with validator keys registered: every header
//!               field / transaction-list mutation, removal, swap, forgery, every single-bit flip of the
//!               stored bytes — verify() must fail.
//! Part R  (E4): every commit-built block sequence of Part S replayed on two fresh TensorStateMachines at
//!               different virtual times — same accept/reject decisions, same state roots.
//! Part T  (E1): 2-3 real threads committing concurrently under vsched, every schedule with <= bound
//!               preemptions; at quiescence chain verifies, holds each committed workspace once, store ==
//!               reference application of the chain.
use graph_engine::GraphEngine;
use nvc::{env, par, Report};
use rayon::prelude::*;
use serde::{Deserialize, Serialize};
use serde_json::json;
use std::collections::{BTreeMap, BTreeSet, HashSet};
use std::sync::{Arc, Mutex};
use tensor_chain::network::MemoryTransport;
use tensor_chain::signing::{Identity, ValidatorRegistry};
use tensor_chain::transaction::{apply_transaction_to_store, TransactionState, TransactionWorkspace};
use tensor_chain::{compute_state_root, Block, Chain, ChainConfig, CodebookConfig, GlobalCodebook, RaftConfig, RaftNode, TensorChain, TensorStateMachine, Transaction, ValidationConfig, ValidatorSignature};
use tensor_store::{ScalarValue, SparseVector, TensorData, TensorStore, TensorValue};
use vsched::{Body, ExploreCfg, RunResult, Verdict};

const T0: i64 = 1_700_000_000;
const HOUR_MS: i64 = 3_600_000;

static SELFTEST: std::sync::atomic::AtomicBool = std::sync::atomic::AtomicBool::new(false);
fn selftest() -> bool {
    SELFTEST.load(std::sync::atomic::Ordering::Relaxed)
}

// per-thread virtual time (envshim exports it; nvc::env has no wrapper)
fn thread_clock(name: &str) -> *mut libc::c_void {
    let c = std::ffi::CString::new(name).unwrap();
    let p = unsafe { libc::dlsym(libc::RTLD_DEFAULT, c.as_ptr()) };
    if p.is_null() {
        eprintln!("MACHINERY envshim symbol {name} missing");
        std::process::exit(2);
    }
    p
}
fn thread_clock_advance_ms(ms: i64) {
    let f: extern "C" fn(i64) = unsafe { std::mem::transmute(thread_clock("verifenv_clock_thread_advance_ms")) };
    f(ms)
}
fn thread_clock_reset() {
    let f: extern "C" fn() = unsafe { std::mem::transmute(thread_clock("verifenv_clock_thread_reset")) };
    f()
}

#[derive(Clone, Debug)]
struct Viol {
    sig: String,
    msg: String,
}
fn viol<T>(sig: impl Into<String>, msg: impl Into<String>) -> Result<T, Viol> {
    Err(Viol { sig: sig.into(), msg: msg.into() })
}

// ------------------------------------------------------------------------------------------ reference
type RefStore = BTreeMap<String, Vec<u8>>;

fn is_user_key(k: &str) -> bool {
    !(k.starts_with("chain:") || k.starts_with("node:") || k.starts_with("edge:") || k.starts_with("_graph_idx:"))
}
/// what the store holds under user keys
fn user_store(store: &TensorStore) -> RefStore {
    let mut m = RefStore::new();
    for k in store.scan("") {
        if !is_user_key(&k) {
            continue;
        }
        match store.get(&k) {
            Ok(d) => match d.get("data") {
                Some(TensorValue::Scalar(ScalarValue::Bytes(b))) => {
                    m.insert(k, b.clone());
                }
                _ => {
                    m.insert(k, format!("<not a data record: {d:?}>").into_bytes());
                }
            },
            Err(e) => {
                m.insert(k, format!("<scan lists it, get fails: {e}>").into_bytes());
            }
        }
    }
    m
}
fn apply_ref(m: &mut RefStore, tx: &Transaction) {
    match tx {
        Transaction::Put { key, data } => {
            if selftest() && key == "b" {
                return; // deliberately wrong reference (oracle must alarm)
            }
            m.insert(key.clone(), data.clone());
        }
        Transaction::Delete { key } => {
            m.remove(key);
        }
        _ => {}
    }
}
fn one_hot(i: usize) -> Vec<f32> {
    let mut v = vec![0.0f32; 128];
    v[i] = 1.0;
    v
}

/// chain-structure checks shared by S and T: every height present, linked, rooted; returns the blocks 1..=height
fn chain_structure(chain: &TensorChain) -> Result<Vec<Block>, Viol> {
    let height = chain.height();
    let mut blocks = vec![];
    let mut prev: Option<Block> = None;
    for h in 0..=height {
        let b = match chain.get_block(h) {
            Ok(Some(b)) => b,
            Ok(None) => return viol("block-missing", format!("height() = {height} but get_block({h}) = None")),
            Err(e) => return viol("block-unreadable", format!("height() = {height} but get_block({h}) fails: {e}")),
        };
        if b.header.height != h {
            return viol("block-height-field", format!("get_block({h}) has header.height {}", b.header.height));
        }
        if let Some(p) = &prev {
            if b.header.prev_hash != p.hash() {
                return viol("prev-hash", format!("block {h} does not name the hash of block {}", h - 1));
            }
        }
        if !b.verify_tx_root() {
            return viol("tx-root", format!("block {h}: tx_root is not the root of its transactions"));
        }
        prev = Some(b.clone());
        if h > 0 {
            blocks.push(b);
        }
    }
    match chain.get_block(height + 1) {
        Ok(None) => {}
        other => return viol("block-beyond-tip", format!("get_block(height+1) = {:?}", other.map(|o| o.map(|b| b.header.height)))),
    }
    if let Some(p) = &prev {
        if chain.tip_hash() != p.hash() {
            return viol("tip-hash", format!("tip_hash() is not the hash of block {height}"));
        }
    }
    Ok(blocks)
}

// ------------------------------------------------------------------------------------------ Part S
#[derive(Clone, Copy, Debug, PartialEq, Eq, Hash, Serialize, Deserialize)]
enum Op {
    Begin(u8),
    /// put(slot, key index)
    Put(u8, u8),
    Del(u8, u8),
    Commit(u8),
    Rollback(u8),
    AppendSigned,
    AppendUnsigned,
    /// restart: the process goes away (workspaces with it); a new TensorChain with the same identity is built on
    /// the same store and initialize()d
    Reopen,
    /// crash inside the operation just before it (a commit / append_block that created a block, or the first
    /// initialize) after the first k steps of its store-write sequence, then Reopen. With n = number of
    /// user-key writes of the commit: k <= n: the first k writes applied, block not stored; k = n+1: + block
    /// record stored; k = n+2: + chain-link graph records; (k = n+3 would be the height record = completed)
    CrashReopen(u8),
}
/// every chain of the restart-capable configurations signs with this key, in every life
const ID_SEED: [u8; 32] = [7u8; 32];
const KEYS: [&str; 2] = ["a", "b"];

#[derive(Clone, Copy, Debug, PartialEq, Eq, Hash, Serialize, Deserialize)]
struct Cfg {
    merge: bool,
    /// 0: workspaces carry no delta embedding, 1: both slots the same direction, 2: orthogonal directions
    dirs: u8,
    /// global codebook of the chain: 0 = empty ("learning mode", the transition validator is never asked),
    /// 1 = {e0}: the validator rejects every merge of an e0 with an e1 workspace (target e0+e1 resp. source e1
    /// is no known state), 2 = {e0, e1, e0+e1}: the validator is asked and accepts
    #[serde(default)]
    cb: u8,
}
fn configs() -> Vec<Cfg> {
    vec![
        Cfg { merge: false, dirs: 0, cb: 0 },
        Cfg { merge: true, dirs: 2, cb: 0 },
        Cfg { merge: true, dirs: 2, cb: 1 },
        Cfg { merge: true, dirs: 1, cb: 0 },
        Cfg { merge: false, dirs: 2, cb: 0 },
        Cfg { merge: false, dirs: 1, cb: 0 },
        Cfg { merge: true, dirs: 0, cb: 0 },
        Cfg { merge: true, dirs: 2, cb: 2 },
    ]
}
/// configurations explored one operation deeper: plain workspaces; orthogonal embeddings with auto-merge, under
/// the empty codebook and under the rejecting one (thorough: also under the accepting one)
fn deep(cfg: &Cfg, thorough: bool) -> bool {
    (!cfg.merge && cfg.dirs == 0 && cfg.cb == 0) || (cfg.merge && cfg.dirs == 2 && (cfg.cb <= 1 || thorough))
}
fn centroids(cb: u8) -> Vec<Vec<f32>> {
    let both: Vec<f32> = one_hot(0).iter().zip(one_hot(1)).map(|(a, b)| a + b).collect();
    match cb {
        0 => vec![],
        1 => vec![one_hot(0)],
        _ => vec![one_hot(0), one_hot(1), both],
    }
}
fn alphabet() -> Vec<Op> {
    let mut v = vec![];
    for w in 0..2u8 {
        v.push(Op::Begin(w));
    }
    for w in 0..2u8 {
        for k in 0..2u8 {
            v.push(Op::Put(w, k));
        }
    }
    for w in 0..2u8 {
        v.push(Op::Commit(w));
    }
    for w in 0..2u8 {
        v.push(Op::Rollback(w));
    }
    for w in 0..2u8 {
        v.push(Op::Del(w, 0));
    }
    v.push(Op::AppendSigned);
    v.push(Op::AppendUnsigned);
    v
}

struct Slot {
    ws: Arc<TransactionWorkspace>,
    ops: Vec<Transaction>,
    begin_height: u64,
}
struct Seq {
    cfg: Cfg,
    chain: TensorChain,
    store: TensorStore,
    slots: [Option<Slot>; 2],
    gens: [u8; 2],
    ref_store: RefStore,
    ref_blocks: Vec<Vec<Transaction>>,
    /// every block came from commit (replayable by a state machine)
    commit_only: bool,
    nops: u8,
    /// what the last commit did to the *other* slot: (merged into the block, picked as candidate and failed)
    last_merge: (u8, u8),
    /// the store writes of the operation just executed, if it created a block (or was the first initialize)
    last_write: Option<LastWrite>,
    /// number of Reopen / CrashReopen steps so far
    restarts: u8,
    /// what the last restart step saw
    last_restart: RestartObs,
}
/// Store image before and after one block-creating operation. The order of its writes is read off the code
/// (lib.rs commit: apply_operations_to_store, in operation order -> chain.rs append: store_block ->
/// add_chain_edge [graph records] -> save_height); the images tell which records those writes produced.
struct LastWrite {
    before: BTreeMap<String, TensorData>,
    after: BTreeMap<String, TensorData>,
    /// user-key writes in the order commit applies them (none for append_block / initialize)
    txs: Vec<Transaction>,
    ref_store_before: RefStore,
    /// height of the block record written
    new_height: u64,
}
#[derive(Clone, Copy, Default, Debug)]
struct RestartObs {
    /// 0 clean, 1 crash before the block record, 2 crash after the block record and before the height record,
    /// 3 crash in the first initialize after the genesis record
    kind: u8,
    /// the height record was behind the stored blocks and initialize adopted the stored block
    walked_forward: bool,
    /// the interrupted operation counts as committed / as not committed after the re-open
    committed: bool,
    not_committed: bool,
    /// the crash image held user-key writes of the interrupted commit without its block, and they were kept
    uncommitted_writes_kept: bool,
}
/// Would a re-open have to undo user-key writes of an interrupted commit whose block record never reached the
/// store? The property statement speaks of commits that return, not of crashes, and commit keeps its undo image in
/// memory only; such images are counted (part S, "restart") and not reported. `true` turns them into violations.
const CRASH_UNDO_REQUIRED: bool = false;
fn restart_kind(kind: u8) -> &'static str {
    ["clean-reopen", "crash-before-block-stored", "crash-block-stored-height-not-saved", "crash-in-initialize-genesis-stored"][kind as usize]
}
fn dump(store: &TensorStore) -> BTreeMap<String, TensorData> {
    store.scan("").into_iter().filter_map(|k| store.get(&k).ok().map(|d| (k, d))).collect()
}
/// (re-)open a chain on `store` with the fixed identity
fn open_chain(store: &TensorStore, merge: bool) -> TensorChain {
    TensorChain::with_identity(store.clone(), ChainConfig::new("p").with_auto_merge(merge), Identity::from_bytes(&ID_SEED).expect("identity"))
}
fn mk_chain(merge: bool, cb: u8) -> (TensorChain, TensorStore) {
    let store = TensorStore::new();
    let config = ChainConfig::new("p").with_auto_merge(merge);
    let chain = if cb == 0 { TensorChain::with_config(store.clone(), config) } else { TensorChain::with_codebook(store.clone(), config, GlobalCodebook::from_centroids(centroids(cb)), CodebookConfig::default(), ValidationConfig::default()) };
    chain.initialize().expect("initialize");
    (chain, store)
}
/// multiset difference a - b
fn minus(a: &[Transaction], b: &[Transaction]) -> Vec<Transaction> {
    let mut rest: Vec<&Transaction> = b.iter().collect();
    let mut out = vec![];
    for t in a {
        if let Some(i) = rest.iter().position(|x| *x == t) {
            rest.swap_remove(i);
        } else {
            out.push(t.clone());
        }
    }
    out
}
impl Seq {
    fn fresh(cfg: Cfg) -> Seq {
        // restart-capable configurations (default codebook) sign with a fixed key, so that a later life can be
        // given the same identity; with_codebook has no such constructor (those chains are never re-opened)
        let (chain, store) = if cfg.cb == 0 {
            let store = TensorStore::new();
            let chain = open_chain(&store, cfg.merge);
            chain.initialize().expect("initialize");
            (chain, store)
        } else {
            mk_chain(cfg.merge, cfg.cb)
        };
        let last_write = Some(LastWrite { before: BTreeMap::new(), after: dump(&store), txs: vec![], ref_store_before: RefStore::new(), new_height: 0 });
        Seq { cfg, chain, store, slots: [None, None], gens: [0, 0], ref_store: RefStore::new(), ref_blocks: vec![], commit_only: true, nops: 0, last_merge: (0, 0), last_write, restarts: 0, last_restart: RestartObs::default() }
    }
    /// durable part of the state, up to the payload bytes: what a restart can depend on
    fn shape(&self) -> String {
        let blocks: Vec<Vec<String>> = self
            .ref_blocks
            .iter()
            .map(|b| {
                b.iter()
                    .map(|t| match t {
                        Transaction::Put { key, .. } => format!("put {key}"),
                        Transaction::Delete { key } => format!("del {key}"),
                        _ => "?".to_string(),
                    })
                    .collect()
            })
            .collect();
        format!("{blocks:?}|{:?}", self.ref_store.keys().collect::<Vec<_>>())
    }
    fn states(&self) -> Vec<Option<TransactionState>> {
        self.slots.iter().map(|s| s.as_ref().map(|s| s.ws.state())).collect()
    }
    /// Ok(false) = not applicable. Err = the step itself already contradicts the statement.
    fn step(&mut self, op: Op) -> Result<bool, Viol> {
        self.nops += 1;
        let last_write = self.last_write.take();
        match op {
            Op::Begin(w) => {
                let w = w as usize;
                if let Some(s) = &self.slots[w] {
                    if matches!(s.ws.state(), TransactionState::Active | TransactionState::Committing) {
                        return Ok(false);
                    }
                }
                let ws = match self.chain.begin() {
                    Ok(ws) => ws,
                    Err(e) => return viol("begin-fails", format!("begin() fails: {e}")),
                };
                match self.cfg.dirs {
                    1 => ws.compute_delta(&one_hot(0)),
                    2 => ws.compute_delta(&one_hot(w)),
                    _ => {}
                }
                self.gens[w] += 1;
                self.slots[w] = Some(Slot { ws, ops: vec![], begin_height: self.chain.height() });
            }
            Op::Put(w, k) | Op::Del(w, k) => {
                let gen = self.gens[w as usize];
                let nops = self.nops;
                let Some(s) = self.slots[w as usize].as_mut() else { return Ok(false) };
                let tx = if matches!(op, Op::Put(..)) { Transaction::Put { key: KEYS[k as usize].into(), data: vec![w, gen, nops] } } else { Transaction::Delete { key: KEYS[k as usize].into() } };
                if s.ws.add_operation(tx.clone()).is_ok() {
                    s.ops.push(tx);
                }
            }
            Op::Commit(w) => {
                let w = w as usize;
                let Some(s) = self.slots[w].as_ref() else { return Ok(false) };
                let ws = s.ws.clone();
                let before = self.states();
                let h0 = self.chain.height();
                let (img_before, ref_before) = (dump(&self.store), self.ref_store.clone());
                let r = self.chain.commit(&ws);
                let after = self.states();
                let h1 = self.chain.height();
                let newly: Vec<usize> = (0..2).filter(|&i| before[i] != Some(TransactionState::Committed) && after[i] == Some(TransactionState::Committed)).collect();
                // another workspace that this commit picked as a merge candidate and gave up (validator said no,
                // or the whole commit failed): it did not commit, so none of its writes may show anywhere
                let rejected: Vec<usize> = (0..2).filter(|&i| i != w && before[i] == Some(TransactionState::Active) && after[i] == Some(TransactionState::Failed)).collect();
                // selftest: pretend the validator had refused the candidate this commit merged (oracle must alarm)
                let (newly, rejected) = if selftest() && self.cfg.cb == 2 { (newly.iter().copied().filter(|&i| i == w).collect::<Vec<_>>(), (0..2).filter(|&i| i != w && newly.contains(&i)).collect::<Vec<_>>()) } else { (newly, rejected) };
                self.last_merge = (newly.iter().filter(|&&i| i != w).count() as u8, rejected.len() as u8);
                match r {
                    Ok(hash) => {
                        if !newly.contains(&w) {
                            return viol("commit-ok-not-committed", format!("commit returned Ok but the workspace went {:?} -> {:?}", before[w], after[w]));
                        }
                        let mut expected: Vec<Transaction> = self.slots[w].as_ref().unwrap().ops.clone();
                        for &i in newly.iter().filter(|&&i| i != w) {
                            expected.extend(self.slots[i].as_ref().unwrap().ops.clone());
                        }
                        if h1 == h0 {
                            if !expected.is_empty() {
                                return viol("commit-no-block", format!("commit returned Ok for {} writes but no block was added", expected.len()));
                            }
                        } else if h1 == h0 + 1 {
                            let b = match self.chain.get_block(h1) {
                                Ok(Some(b)) => b,
                                other => return viol("commit-block-missing", format!("commit returned Ok, height {h0}->{h1}, get_block({h1}) = {:?}", other.map(|o| o.is_some()))),
                            };
                            let extra = minus(&b.transactions, &expected);
                            let of_rejected: Vec<Transaction> = rejected.iter().flat_map(|&i| self.slots[i].as_ref().unwrap().ops.clone()).collect();
                            if !extra.is_empty() && minus(&expected, &b.transactions).is_empty() && minus(&extra, &of_rejected).is_empty() {
                                return viol("rejected-merge-candidate-left-writes", format!("commit of slot {w} returned Ok; slot {} was picked as merge candidate and rejected (state {:?} -> {:?}), yet its writes {extra:?} are in the new block {:?} (and applied to the store: {:?})", rejected[0], before[rejected[0]], after[rejected[0]], b.transactions, user_store(&self.store)));
                            }
                            if b.transactions != expected {
                                return viol("commit-block-content", format!("the new block holds {:?}, the committed workspaces wrote {:?}", b.transactions, expected));
                            }
                            if b.hash() != hash || self.chain.tip_hash() != hash {
                                return viol("commit-hash", "commit's returned hash is not the new tip".to_string());
                            }
                            for tx in &expected {
                                apply_ref(&mut self.ref_store, tx);
                            }
                            self.last_write = Some(LastWrite { before: img_before, after: dump(&self.store), txs: expected.clone(), ref_store_before: ref_before, new_height: h1 });
                            self.ref_blocks.push(expected);
                        } else {
                            return viol("commit-height-jump", format!("one commit moved height {h0} -> {h1}"));
                        }
                    }
                    Err(e) => {
                        if !newly.is_empty() {
                            return viol("commit-err-but-committed", format!("commit failed ({e}) but workspaces {newly:?} became Committed"));
                        }
                    }
                }
            }
            Op::Rollback(w) => {
                let Some(s) = self.slots[w as usize].as_ref() else { return Ok(false) };
                let _ = self.chain.rollback(&s.ws.clone());
            }
            Op::AppendSigned | Op::AppendUnsigned => {
                let n = self.ref_blocks.len() as u8;
                if n >= 3 && self.restarts == 0 {
                    return Ok(false); // bounds the BFS; the continuations after a restart are bounded by their length
                }
                let txs = vec![Transaction::Put { key: "x".into(), data: vec![9, n] }];
                let bb = self.chain.new_block().add_transactions(txs.clone());
                let block = if op == Op::AppendSigned { bb.sign_and_build(self.chain.identity()) } else { bb.build() };
                let img_before = dump(&self.store);
                match self.chain.append_block(block) {
                    Ok(_) => {
                        // append_block records the block only: nothing is applied to the user keys
                        self.last_write = Some(LastWrite { before: img_before, after: dump(&self.store), txs: vec![], ref_store_before: self.ref_store.clone(), new_height: self.chain.height() });
                        self.ref_blocks.push(txs);
                        self.commit_only = false;
                    }
                    Err(e) => {
                        if op == Op::AppendSigned {
                            return viol("append-signed-refused", format!("append_block of a block built by new_block()..sign_and_build(own identity) fails: {e}"));
                        }
                    }
                }
            }
            Op::Reopen | Op::CrashReopen(_) => {
                if self.cfg.cb != 0 {
                    return Ok(false);
                }
                let mut obs = RestartObs::default();
                // (k, n, height of the interrupted block, reference store before the operation, user keys of the image)
                let mut crash: Option<(usize, usize, u64, RefStore, RefStore)> = None;
                if let Op::CrashReopen(k) = op {
                    let Some(lw) = last_write else { return Ok(false) };
                    let (k, n) = (k as usize, lw.txs.len());
                    if k == 0 || k > n + 2 {
                        return Ok(false);
                    }
                    let block_rec = block_key(lw.new_height);
                    let changed: BTreeSet<String> = lw.before.keys().chain(lw.after.keys()).filter(|key| lw.before.get(*key) != lw.after.get(*key)).cloned().collect();
                    let links: Vec<&String> = changed.iter().filter(|key| !is_user_key(key) && **key != block_rec && *key != "chain:meta").collect();
                    assert!(changed.contains(&block_rec) && changed.contains("chain:meta"), "MACHINERY write model: the operation did not write {block_rec} and chain:meta (changed: {changed:?})");
                    if k == n + 2 && links.is_empty() {
                        return Ok(false); // no link records (initialize): same image as k = n+1
                    }
                    let store = self.store.clone();
                    let set = |key: &str, to: Option<&TensorData>| match to {
                        Some(d) => store.put(key, d.clone()).expect("image put"),
                        None => {
                            let _ = store.delete(key);
                        }
                    };
                    // everything the operation wrote goes back to the pre-image; then the first k steps of its
                    // write sequence are re-issued in the real order
                    for key in &changed {
                        set(key, lw.before.get(key));
                    }
                    for tx in lw.txs.iter().take(k.min(n)) {
                        apply_transaction_to_store(&store, tx).expect("image write");
                    }
                    if k >= n && !selftest() {
                        assert!(user_store(&store) == self.ref_store, "MACHINERY write model: pre-image + the commit's writes != post-image on the user keys");
                    }
                    if k > n {
                        set(&block_rec, lw.after.get(&block_rec));
                    }
                    if k > n + 1 {
                        for key in &links {
                            set(key, lw.after.get(*key));
                        }
                    }
                    obs.kind = if lw.new_height == 0 { 3 } else if k <= n { 1 } else { 2 };
                    let mut img = lw.ref_store_before.clone();
                    for tx in lw.txs.iter().take(k.min(n)) {
                        apply_ref(&mut img, tx);
                    }
                    crash = Some((k, n, lw.new_height, lw.ref_store_before, img));
                }
                // the process is gone, its workspaces with it
                self.last_restart = obs;
                self.slots = [None, None];
                let chain = open_chain(&self.store, self.cfg.merge);
                if let Err(e) = chain.initialize() {
                    return viol("initialize-fails", format!("initialize() of the re-opened chain fails: {e}"));
                }
                self.chain = chain;
                self.restarts += 1;
                if let Some((k, n, new_height, before, img)) = crash {
                    let h = self.chain.height();
                    if new_height == 0 {
                        obs.committed = true; // a chain with its genesis block, whichever initialize wrote it
                    } else if k > n {
                        // the block record is in the image, and so are all the commit's writes (they precede it):
                        // committed = block + writes, not committed = neither; check() decides which holds fully
                        obs.walked_forward = h == new_height;
                        if h + 1 == new_height || selftest() {
                            self.ref_blocks.pop();
                            self.ref_store = before;
                            obs.not_committed = true;
                        } else {
                            obs.committed = true;
                        }
                    } else {
                        // no block record in the image: the commit never happened for the chain. The image holds
                        // the first k of its writes; the statement has no crash clause that would oblige a re-open
                        // to undo them without any record of the commit: undone and untouched are both accepted
                        self.ref_blocks.pop();
                        obs.not_committed = true;
                        let got = user_store(&self.store);
                        if got != before && img != before {
                            obs.uncommitted_writes_kept = got == img;
                            if CRASH_UNDO_REQUIRED {
                                return viol("uncommitted-writes-in-store", format!("the crash image held {k} of the {n} writes of a commit whose block was never stored; after the re-open the store holds {got:?}, before the commit it held {before:?}"));
                            }
                            self.ref_store = img;
                        } else {
                            self.ref_store = before;
                        }
                    }
                }
                self.last_restart = obs;
            }
        }
        Ok(true)
    }
    /// the statement's invariant, evaluated after every step
    fn check(&self) -> Result<(), Viol> {
        let blocks = chain_structure(&self.chain)?;
        if blocks.len() != self.ref_blocks.len() {
            return viol("height-differs", format!("height() = {}, {} blocks were added through the interface", blocks.len(), self.ref_blocks.len()));
        }
        for (i, b) in blocks.iter().enumerate() {
            if b.transactions != self.ref_blocks[i] {
                return viol("block-content-changed", format!("block {} now holds {:?}, it was created with {:?}", i + 1, b.transactions, self.ref_blocks[i]));
            }
        }
        if let Err(e) = self.chain.verify() {
            return viol("verify-fails", format!("verify() fails on a chain built through the public interface: {e}"));
        }
        let got = user_store(&self.store);
        if got != self.ref_store {
            return viol("store-differs", format!("store holds {got:?}, the committed blocks imply {:?}", self.ref_store));
        }
        for key in ["a", "b", "x"] {
            let want: Vec<(u64, Transaction)> = self.ref_blocks.iter().enumerate().flat_map(|(i, txs)| txs.iter().filter(|t| t.affected_key() == key).map(move |t| (i as u64 + 1, t.clone()))).collect();
            match self.chain.history(key) {
                Ok(h) if h == want => {}
                Ok(h) => return viol("history-differs", format!("history({key}) = {h:?}, blocks imply {want:?}")),
                Err(e) => return viol("history-fails", format!("history({key}) fails: {e}")),
            }
        }
        Ok(())
    }
    fn canon(&self) -> String {
        let slots: Vec<String> = self.slots.iter().map(|s| s.as_ref().map_or("-".to_string(), |s| format!("{:?}/{:?}/{}", s.ws.state(), s.ops, s.begin_height))).collect();
        format!("{:?}|{:?}|{:?}|{:?}|{}|{}", self.cfg, self.ref_blocks, self.ref_store, slots, self.commit_only, self.restarts)
    }
}

/// a commit-built block sequence together with what a replica needs to accept it
#[derive(Clone)]
struct BlockSeq {
    hist: Vec<Op>,
    cfg: Cfg,
    proposer: String,
    pubkey: [u8; 32],
    blocks: Vec<Block>,
}

fn replay(cfg: Cfg, hist: &[Op]) -> Result<Seq, (usize, Viol)> {
    thread_clock_reset();
    let mut s = Seq::fresh(cfg);
    for (i, op) in hist.iter().enumerate() {
        match s.step(*op) {
            Ok(true) => {}
            Ok(false) => return Err((i, Viol { sig: "inapplicable".into(), msg: String::new() })),
            Err(v) => return Err((i, v)),
        }
    }
    Ok(s)
}
fn op_kind(op: &Op) -> &'static str {
    match op {
        Op::Begin(_) => "begin",
        Op::Put(..) => "put",
        Op::Del(..) => "delete",
        Op::Commit(_) => "commit",
        Op::Rollback(_) => "rollback",
        Op::AppendSigned => "append_block(signed)",
        Op::AppendUnsigned => "append_block(unsigned)",
        Op::Reopen | Op::CrashReopen(_) => "reopen",
    }
}

#[derive(Default, Serialize, Deserialize)]
struct SeqOut {
    /// hashes of the canonical renderings of the distinct states reached (merged by the parent)
    state_hashes: Vec<u64>,
    transitions: u64,
    violating: u64,
    violations: Vec<nvc::report::ViolationRec>,
    deepest: Vec<Op>,
    /// commit-built block sequences: (configuration, history, dedup key)
    seqs: Vec<(Cfg, Vec<Op>, String)>,
    commits_ok: u64,
    commits_err: u64,
    /// commits that took the other workspace into their block: under an empty codebook / with the validator's consent
    merges_unvalidated: u64,
    merges_validated: u64,
    /// commits whose merge candidate was rejected by the validator (candidate Failed): all / candidate had writes
    merges_rejected: u64,
    merges_rejected_with_writes: u64,
    tasks: Vec<serde_json::Value>,
    #[serde(default)]
    restart: RestartOut,
    /// restart bases: (configuration, shape key, first history) / (configuration, step key, first history, number
    /// of user-key writes of its last step)
    #[serde(default)]
    bases_clean: Vec<(Cfg, String, Vec<Op>)>,
    #[serde(default)]
    bases_crash: Vec<(Cfg, String, Vec<Op>, u8)>,
}
#[derive(Default, Serialize, Deserialize)]
struct RestartOut {
    /// hashes of the distinct states reached at or after a restart step
    state_hashes: Vec<u64>,
    /// (history, restart step) pairs by kind of restart (see restart_kind)
    restarts_by_kind: BTreeMap<String, u64>,
    /// continuation paths run / dropped because a step was not applicable
    paths: u64,
    paths_inapplicable: u64,
    /// steps executed at or after the restart step, each followed by the full battery
    steps: u64,
    violating_paths: u64,
    /// crash re-opens whose height record was behind the stored blocks and initialize adopted the stored block
    walked_forward: u64,
    interrupted_counts_as_committed: u64,
    interrupted_counts_as_not_committed: u64,
    /// crash images holding writes of a commit whose block was never stored, kept by the re-open (not a violation)
    uncommitted_writes_kept: u64,
    /// blocks created after a restart
    blocks_after_restart: u64,
    blocks_after_walk_forward: u64,
    /// summed over the restart tasks (they run on idle workers, concurrently)
    wall_s_sum: f64,
}
fn restart_macros(thorough: bool) -> Vec<Vec<Op>> {
    let t0 = vec![Op::Begin(0), Op::Put(0, 0), Op::Commit(0)];
    let a = vec![Op::AppendSigned];
    if !thorough {
        return vec![t0, a];
    }
    let t1 = vec![Op::Begin(1), Op::Del(1, 0), Op::Put(1, 1), Op::Commit(1)];
    // a second clean restart; a further commit interrupted after its block record was stored (height record
    // behind) resp. after its write was applied and before its block record
    let (mut x2, mut x1) = (t0.clone(), t0.clone());
    x2.push(Op::CrashReopen(2));
    x1.push(Op::CrashReopen(1));
    vec![t0, a, t1, vec![Op::Reopen], x2, x1]
}
fn restart_len(_thorough: bool) -> usize {
    2
}
/// all sequences of exactly `len` macros, flattened. A crash image without the block record (kind 1) holds exactly
/// the chain records of the state before the commit, whose clean re-open gets the full continuation set: such
/// images get the continuations of length 1 only
fn restart_paths(thorough: bool, kind: u8) -> Vec<Vec<Op>> {
    let macros = restart_macros(thorough);
    let mut paths: Vec<Vec<Op>> = vec![vec![]];
    for _ in 0..(if kind == 1 { 1 } else { restart_len(thorough) }) {
        paths = paths.iter().flat_map(|p| macros.iter().map(move |m| p.iter().chain(m.iter()).copied().collect())).collect();
    }
    paths
}
struct RestartJob {
    steps: u64,
    hashes: Vec<u64>,
    paths: u64,
    inapplicable: u64,
    /// the restart step was applicable
    ran: bool,
    kind: u8,
    obs: RestartObs,
    blocks_after: u64,
    /// (history, violation, kind of the last restart before it)
    viols: Vec<(Vec<Op>, Viol, u8)>,
}
/// base history, one restart step, then every continuation path; the battery after every step
fn restart_job(cfg: Cfg, base: &[Op], r: Op, kind: u8, paths: &[Vec<Op>]) -> RestartJob {
    let mut job = RestartJob { steps: 0, hashes: vec![], paths: 0, inapplicable: 0, ran: false, kind, obs: RestartObs::default(), blocks_after: 0, viols: vec![] };
    for (pi, path) in paths.iter().enumerate() {
        let mut s = replay(cfg, base).ok().expect("restart base replays");
        let mut hist = base.to_vec();
        let mut applicable = true;
        let mut failed = None;
        for (i, op) in std::iter::once(&r).chain(path.iter()).enumerate() {
            hist.push(*op);
            let blocks = s.ref_blocks.len();
            let res = s.step(*op);
            if i == 0 && pi == 0 {
                job.obs = s.last_restart;
            }
            match res {
                Ok(false) => {
                    applicable = false;
                    break;
                }
                Ok(true) => {}
                Err(v) => {
                    job.steps += 1;
                    failed = Some((i, v));
                    break;
                }
            }
            job.steps += 1;
            if i > 0 && s.ref_blocks.len() > blocks {
                job.blocks_after += 1;
            }
            if let Err(v) = s.check() {
                failed = Some((i, v));
                break;
            }
            job.hashes.push(hash_str(&s.canon()));
        }
        if !applicable && hist.len() == base.len() + 1 {
            return job; // the restart step itself does not apply (no further image at this k)
        }
        job.ran = true;
        job.paths += 1;
        if !applicable {
            job.inapplicable += 1;
        }
        if let Some((i, v)) = failed {
            job.viols.push((hist, v, s.last_restart.kind));
            if i == 0 {
                break; // the restart step itself fails: every path starts with it
            }
        }
    }
    job
}
/// (configuration, history, restart step, kind of restart)
type RJob = (Cfg, Vec<Op>, Op, u8);
/// One history per (configuration, key) — the smallest in a fixed order, whichever task found it —, then one job
/// per restart step: a clean re-open per durable shape, a crash + re-open per prefix of a block-creating step
fn restart_jobs(mut clean: Vec<(Cfg, String, Vec<Op>)>, mut crash: Vec<(Cfg, String, Vec<Op>, u8)>) -> Vec<RJob> {
    clean.sort_by_key(|x| (x.2.len(), format!("{:?}", x.2), format!("{:?}", x.0)));
    crash.sort_by_key(|x| (x.2.len(), format!("{:?}", x.2), format!("{:?}", x.0)));
    let mut seen: HashSet<String> = HashSet::new();
    clean.retain(|x| seen.insert(format!("{:?}|{}", x.0, x.1)));
    seen.clear();
    crash.retain(|x| seen.insert(format!("{:?}|{}", x.0, x.1)));
    let mut jobs: Vec<RJob> = clean.into_iter().map(|(c, _, h)| (c, h, Op::Reopen, 0)).collect();
    for (c, _, h, n) in crash {
        for k in 1..=n + 2 {
            let kind = if h.is_empty() { 3 } else if k <= n { 1 } else { 2 };
            jobs.push((c, h.clone(), Op::CrashReopen(k), kind));
        }
    }
    // shortest histories first, so that the first artefact of a signature is a shortest one
    jobs.sort_by_key(|(c, h, r, _)| (h.len(), format!("{h:?}{r:?}{c:?}")));
    jobs
}
/// chunk = (j, m): every m-th job starting at the j-th
fn restart_pass(thorough: bool, jobs: &[RJob], chunk: (usize, usize), out: &mut SeqOut) {
    let t0 = env::real_now_s();
    let mut local_viol: Vec<nvc::report::ViolationRec> = vec![];
    let paths: Vec<Vec<Vec<Op>>> = (0..4u8).map(|k| restart_paths(thorough, k)).collect();
    let mine: Vec<&RJob> = jobs.iter().enumerate().filter(|(i, _)| i % chunk.1 == chunk.0).map(|(_, j)| j).collect();
    let results: Vec<(Cfg, RestartJob)> = mine.par_iter().map(|(cfg, h, r, kind)| (*cfg, restart_job(*cfg, h, *r, *kind, &paths[*kind as usize]))).collect();
    let ro = &mut out.restart;
    for (cfg, job) in results {
        if !job.ran {
            continue;
        }
        *ro.restarts_by_kind.entry(restart_kind(job.kind).to_string()).or_default() += 1;
        ro.paths += job.paths;
        ro.paths_inapplicable += job.inapplicable;
        ro.steps += job.steps;
        ro.state_hashes.extend(job.hashes);
        ro.walked_forward += u64::from(job.obs.walked_forward);
        ro.interrupted_counts_as_committed += u64::from(job.obs.committed);
        ro.interrupted_counts_as_not_committed += u64::from(job.obs.not_committed);
        ro.uncommitted_writes_kept += u64::from(job.obs.uncommitted_writes_kept);
        ro.blocks_after_restart += job.blocks_after;
        if job.obs.walked_forward {
            ro.blocks_after_walk_forward += job.blocks_after;
        }
        for (hist, v, kind) in job.viols {
            ro.violating_paths += 1;
            let sig = format!("c16:restart:{}:{}:{}", restart_kind(kind), op_kind(hist.last().unwrap()), v.sig);
            if local_viol.iter().filter(|x| x.signature == sig).count() < 3 {
                local_viol.push(nvc::report::ViolationRec { signature: sig, message: format!("cfg {cfg:?}, after {hist:?}: {}", v.msg), replay: json!({"part":"S","cfg":cfg,"ops":hist}) });
            }
        }
    }
    ro.state_hashes.sort_unstable();
    ro.state_hashes.dedup();
    ro.wall_s_sum += env::real_now_s() - t0;
    out.violations.extend(local_viol);
}
fn hash_str(s: &str) -> u64 {
    use std::hash::{Hash, Hasher};
    let mut h = std::collections::hash_map::DefaultHasher::new();
    s.hash(&mut h);
    h.finish()
}
fn first_ops() -> Vec<Op> {
    vec![Op::Begin(0), Op::Begin(1), Op::AppendSigned, Op::AppendUnsigned]
}
/// BFS below the one-operation history [first] (the parent counts the empty history itself)
/// `inline_restart`: run the restart pass over this task's bases here (selftest); otherwise the bases are handed to
/// the parent, which removes duplicates across tasks and runs the restart pass in a second round of workers
fn part_s(cfg: Cfg, depth: usize, first: Op, thorough: bool, inline_restart: bool, out: &mut SeqOut) {
    let t0 = env::real_now_s();
    let (st0, tr0) = (out.state_hashes.len(), out.transitions);
    let alpha = alphabet();
    let mut seen: HashSet<String> = HashSet::new();
    let mut frontier: Vec<Vec<Op>> = vec![vec![]];
    let mut local_viol: Vec<nvc::report::ViolationRec> = vec![];
    let mut local_seq: HashSet<String> = HashSet::new();
    let mut local_deepest: Vec<Op> = vec![];
    // restart pass: first (= shortest) history per durable shape / per block-creating step shape
    let mut clean_bases: BTreeMap<String, Vec<Op>> = BTreeMap::new();
    let mut crash_bases: BTreeMap<String, (Vec<Op>, u8)> = BTreeMap::new();
    if cfg.cb == 0 && first == Op::Begin(0) {
        // the empty history belongs to this task: a fresh chain, and the crash inside its first initialize
        clean_bases.insert(String::new(), vec![]);
        crash_bases.insert(String::new(), (vec![], 0));
    }
    for level in 0..depth {
        type Row = (Vec<Op>, Result<(String, Option<String>, bool, bool, (u8, u8, bool), String, Option<(String, u8)>), Viol>);
        let results: Vec<Row> = frontier
            .par_iter()
            .flat_map_iter(|hist| {
                let mut v: Vec<Row> = vec![];
                for op in &alpha {
                    if level == 0 && *op != first {
                        continue;
                    }
                    let slot = match op {
                        Op::Put(w, _) | Op::Del(w, _) | Op::Commit(w) | Op::Rollback(w) => Some(*w),
                        _ => None,
                    };
                    if slot.is_some_and(|w| !hist.contains(&Op::Begin(w))) {
                        continue;
                    }
                    let Ok(mut s) = replay(cfg, hist) else { continue };
                    let blocks_before = s.ref_blocks.len();
                    let keys_before: Vec<String> = s.ref_store.keys().cloned().collect();
                    let mut h2 = hist.clone();
                    h2.push(*op);
                    match s.step(*op) {
                        Ok(false) => continue,
                        Err(e) => {
                            v.push((h2, Err(e)));
                            continue;
                        }
                        Ok(true) => {}
                    }
                    if let Err(e) = s.check() {
                        v.push((h2, Err(e)));
                        continue;
                    }
                    let new_block = s.ref_blocks.len() > blocks_before;
                    let commit_failed = matches!(op, Op::Commit(_)) && !new_block;
                    let seq_key = (new_block && s.commit_only && !s.ref_blocks.last().unwrap().is_empty()).then(|| {
                        let blocks: Vec<Block> = (1..=s.chain.height()).map(|h| s.chain.get_block(h).unwrap().unwrap()).collect();
                        format!("{:?}", blocks.iter().map(|b| (&b.transactions, b.header.delta_embedding.nnz(), &b.header.quantized_codes)).collect::<Vec<_>>())
                    });
                    let merge = if let Op::Commit(w) = op {
                        let other_wrote = s.slots[1 - *w as usize].as_ref().is_some_and(|o| !o.ops.is_empty());
                        (s.last_merge.0, s.last_merge.1, other_wrote)
                    } else {
                        (0, 0, false)
                    };
                    let shape = s.shape();
                    let crash = s.last_write.as_ref().map(|lw| (format!("{shape}|{keys_before:?}|{}", op_kind(op)), lw.txs.len() as u8));
                    v.push((h2, Ok((s.canon(), seq_key, new_block, commit_failed, merge, shape, crash))));
                }
                v
            })
            .collect();
        let mut next = vec![];
        for (hist, r) in results {
            out.transitions += 1;
            match r {
                Err(v) => {
                    out.violating += 1;
                    if v.sig == "rejected-merge-candidate-left-writes" {
                        // the path was exercised (and failed): keep the non-vacuity counters honest
                        out.merges_rejected += 1;
                        out.merges_rejected_with_writes += 1;
                    }
                    let sig = match hist.last().unwrap() {
                        // rollback must leave chain and store untouched; whatever changed, the cause is the restore
                        Op::Rollback(_) => format!("c16:seq:rollback-restores-begin-snapshot:{}", v.sig),
                        Op::AppendUnsigned if v.sig == "verify-fails" => "c16:seq:append-accepts-unsigned-block-1:verify-fails".to_string(),
                        Op::Commit(_) if v.sig == "rejected-merge-candidate-left-writes" => "c16:seq:rejected-merge-candidate-left-writes".to_string(),
                        op => format!("c16:seq:{}:{}", op_kind(op), v.sig),
                    };
                    // first 3 per signature *of this task* (BFS order = shortest first); the parent picks the
                    // globally shortest, so the artefacts do not depend on which worker ran which task
                    if local_viol.iter().filter(|x| x.signature == sig).count() < 3 {
                        local_viol.push(nvc::report::ViolationRec { signature: sig.clone(), message: format!("cfg {cfg:?}, after {hist:?}: {}", v.msg), replay: json!({"part":"S","cfg":cfg,"ops":hist}) });
                    }
                }
                Ok((key, seq_key, new_block, commit_failed, (merged, rejected, other_wrote), shape, crash)) => {
                    if cfg.cb == 0 {
                        clean_bases.entry(shape).or_insert_with(|| hist.clone());
                        if let Some((k, n)) = crash {
                            crash_bases.entry(k).or_insert_with(|| (hist.clone(), n));
                        }
                    }
                    if matches!(hist.last(), Some(Op::Commit(_))) {
                        if new_block {
                            out.commits_ok += 1;
                        } else if commit_failed {
                            out.commits_err += 1;
                        }
                        if cfg.cb == 0 {
                            out.merges_unvalidated += u64::from(merged);
                        } else {
                            out.merges_validated += u64::from(merged);
                        }
                        if new_block && rejected > 0 {
                            out.merges_rejected += 1;
                            out.merges_rejected_with_writes += u64::from(other_wrote);
                        }
                    }
                    if let Some(k) = seq_key {
                        if local_seq.insert(k.clone()) {
                            out.seqs.push((cfg, hist.clone(), k));
                        }
                    }
                    if seen.insert(key.clone()) {
                        out.state_hashes.push(hash_str(&key));
                        local_deepest = hist.clone();
                        next.push(hist);
                    }
                }
            }
        }
        frontier = next;
    }
    let bfs_wall = env::real_now_s() - t0;
    if inline_restart {
        let jobs = restart_jobs(clean_bases.into_iter().map(|(k, h)| (cfg, k, h)).collect(), crash_bases.into_iter().map(|(k, (h, n))| (cfg, k, h, n)).collect());
        restart_pass(thorough, &jobs, (0, 1), out);
    } else {
        out.bases_clean.extend(clean_bases.into_iter().map(|(k, h)| (cfg, k, h)));
        out.bases_crash.extend(crash_bases.into_iter().map(|(k, (h, n))| (cfg, k, h, n)));
    }
    out.violations.extend(local_viol);
    if deeper(&local_deepest, &out.deepest) {
        out.deepest = local_deepest;
    }
    out.tasks.push(json!({"cfg": cfg, "first_op": first, "depth": depth, "states": out.state_hashes.len() - st0, "transitions": out.transitions - tr0, "wall_s": env::real_now_s() - t0, "wall_s_bfs": bfs_wall}));
}
/// order-independent choice of the sample history
fn deeper(a: &[Op], b: &[Op]) -> bool {
    (a.len(), format!("{a:?}")) > (b.len(), format!("{b:?}"))
}
fn block_seq(cfg: Cfg, hist: &[Op]) -> BlockSeq {
    let s = replay(cfg, hist).ok().expect("replay of a recorded history");
    BlockSeq { hist: hist.to_vec(), cfg, proposer: s.chain.node_id().clone(), pubkey: s.chain.public_key_bytes(), blocks: (1..=s.chain.height()).map(|h| s.chain.get_block(h).unwrap().unwrap()).collect() }
}
fn s_depth(cfg: &Cfg, thorough: bool) -> usize {
    let d = if thorough { 6 } else { 5 };
    if deep(cfg, thorough) {
        d
    } else {
        d - 1
    }
}

// ------------------------------------------------------------------------------------------ Part R
struct Replica {
    sm: TensorStateMachine,
    store: TensorStore,
}
fn mk_replica(node_id: &str, pubkey: &[u8; 32]) -> Replica {
    let store = TensorStore::new();
    let graph = Arc::new(GraphEngine::with_store(store.clone()));
    let registry = Arc::new(ValidatorRegistry::new());
    registry.register_public_key(pubkey).expect("register proposer key");
    let chain = Arc::new(Chain::with_registry(graph, node_id.to_string(), registry));
    chain.initialize().expect("replica initialize");
    let transport = Arc::new(MemoryTransport::new(node_id.to_string()));
    let raft = Arc::new(RaftNode::new(node_id.to_string(), vec![], transport, RaftConfig::default()));
    Replica { sm: TensorStateMachine::new(chain, raft, store.clone()), store }
}
#[derive(Default)]
struct ReplicaOut {
    passing_by_scenario: BTreeMap<u8, u64>,
    sequences: u64,
    blocks_applied: u64,
    accepted_a: u64,
    comparisons: u64,
    violating: u64,
    violations: Vec<(String, String, serde_json::Value)>,
}
/// Replica A: proposer's node id, created and run at the proposer's clock value T.
/// scenario 0: B = identical twin of A (control: the comparison itself must be able to pass).
/// scenario 1: B = same node id, created at T (identical genesis), applies the blocks one hour later.
/// scenario 2: B = same node id, created (and run) one hour later.
/// scenario 3: B = another node id, created and run at T.
fn replica_case(bs: &BlockSeq, scenario: u8) -> (u64, u64, u64, Option<Viol>) {
    thread_clock_reset();
    let a = mk_replica(&bs.proposer, &bs.pubkey);
    if scenario == 2 {
        thread_clock_advance_ms(HOUR_MS);
    }
    let b = mk_replica(if scenario == 3 { "replica-b" } else { &bs.proposer }, &bs.pubkey);
    thread_clock_reset();
    let mut ra = vec![];
    for blk in &bs.blocks {
        let r = a.sm.apply_block(blk).map_err(|e| e.to_string());
        ra.push((r, compute_state_root(&a.store).expect("root"), user_store(&a.store)));
    }
    let what_b = match scenario {
        0 => "replica B (identical twin: same node id, same clock)",
        1 => "replica B (same genesis, clock T+1h)",
        2 => "replica B (created at T+1h)",
        _ => "replica B (node id replica-b, same clock)",
    };
    if scenario == 1 || scenario == 2 {
        thread_clock_advance_ms(HOUR_MS);
    }
    let mut out = None;
    let (mut applied, mut acc_a, mut cmp) = (0, 0, 0);
    for (i, blk) in bs.blocks.iter().enumerate() {
        let r = b.sm.apply_block(blk).map_err(|e| e.to_string());
        let mut root_b = compute_state_root(&b.store).expect("root");
        if selftest() {
            root_b[0] ^= 1;
        }
        applied += 2;
        cmp += 1;
        let (r_a, root_a, users_a) = &ra[i];
        if r_a.is_ok() {
            acc_a += 1;
        }
        if out.is_some() {
            continue;
        }
        if let Err(e) = r_a {
            out = Some(Viol { sig: "proposer-root-not-reproducible".into(), msg: format!("a replica with the proposer's identity, created and run at the proposer's own clock value, rejects block {}: {e}", i + 1) });
        } else if r_a.is_ok() != r.is_ok() {
            out = Some(Viol { sig: "block-accepted-by-one-replica-only".into(), msg: format!("block {} is accepted by replica A and rejected by {what_b}: {}", i + 1, r.clone().err().unwrap_or_default()) });
        } else if *root_a != root_b {
            let ub = user_store(&b.store);
            out = Some(Viol { sig: "state-roots-differ".into(), msg: format!("after block {} replica A and {what_b} accepted the same blocks, user data equal = {}, compute_state_root differs", i + 1, *users_a == ub) });
        }
    }
    thread_clock_reset();
    (applied, acc_a, cmp, out)
}
fn part_r(seqs: &[BlockSeq]) -> ReplicaOut {
    let mut out = ReplicaOut::default();
    let rows: Vec<(usize, u8, (u64, u64, u64, Option<Viol>))> = seqs.par_iter().enumerate().flat_map_iter(|(i, bs)| [0u8, 1u8, 2u8, 3u8].into_iter().map(move |sc| (i, sc, replica_case(bs, sc)))).collect();
    for (i, sc, (applied, acc, cmp, v)) in rows {
        out.sequences += 1;
        out.blocks_applied += applied;
        out.accepted_a += acc;
        out.comparisons += cmp;
        *out.passing_by_scenario.entry(sc).or_default() += u64::from(v.is_none());
        if let Some(v) = v {
            out.violating += 1;
            let sig = format!("c16:replica:{}:{}", ["identical-twin", "applied-an-hour-later", "created-an-hour-later", "other-node-id"][sc as usize], v.sig);
            if out.violations.iter().filter(|x| x.0 == sig).count() < 3 {
                out.violations.push((sig, format!("blocks committed by {:?} (cfg {:?}), scenario {sc}: {}", seqs[i].hist, seqs[i].cfg, v.msg), json!({"part":"R","scenario":sc,"cfg":seqs[i].cfg,"ops":seqs[i].hist})));
            }
        }
    }
    out
}

// ------------------------------------------------------------------------------------------ Part X
#[derive(Default)]
struct TamperOut {
    cases: u64,
    detected: u64,
    benign_equal: u64,
    undetected: u64,
    bitflips: u64,
    bitflips_decode_fail: u64,
    field_mutations: u64,
    structural: u64,
    violations: Vec<(String, String, serde_json::Value)>,
    undetected_list: Vec<String>,
    machinery: Option<String>,
}
fn block_key(h: u64) -> String {
    format!("chain:block:{h}")
}
fn stored_bytes(store: &TensorStore, h: u64) -> Vec<u8> {
    match store.get(&block_key(h)).expect("stored block").get("_block") {
        Some(TensorValue::Scalar(ScalarValue::Bytes(b))) => b.clone(),
        _ => panic!("no _block"),
    }
}
fn write_bytes(store: &TensorStore, h: u64, bytes: Vec<u8>) {
    let mut d = store.get(&block_key(h)).expect("stored block");
    d.set("_block", TensorValue::Scalar(ScalarValue::Bytes(bytes)));
    store.put(block_key(h), d).expect("put");
}
fn differing_fields(a: &Block, b: &Block) -> Vec<&'static str> {
    let mut v = vec![];
    let (x, y) = (&a.header, &b.header);
    if x.height != y.height {
        v.push("height");
    }
    if x.prev_hash != y.prev_hash {
        v.push("prev_hash");
    }
    if x.tx_root != y.tx_root {
        v.push("tx_root");
    }
    if x.state_root != y.state_root {
        v.push("state_root");
    }
    if x.delta_embedding != y.delta_embedding {
        v.push("delta_embedding");
    }
    if x.quantized_codes != y.quantized_codes {
        v.push("quantized_codes");
    }
    if x.timestamp != y.timestamp {
        v.push("timestamp");
    }
    if x.proposer != y.proposer {
        v.push("proposer");
    }
    if x.signature != y.signature {
        v.push("signature");
    }
    if a.transactions != b.transactions {
        v.push("transactions");
    }
    if a.signatures != b.signatures {
        v.push("signatures");
    }
    v
}
fn flip(h: &[u8; 32]) -> [u8; 32] {
    let mut x = *h;
    x[5] ^= 0x10;
    x
}
/// every single-field mutation of `b` (name, mutated block)
fn field_mutations(b: &Block, others: &[Block], v2: &Identity, forger: &Identity) -> Vec<(String, Block)> {
    let mut out: Vec<(String, Block)> = vec![];
    let mut m = |name: &str, f: &dyn Fn(&mut Block)| {
        let mut x = b.clone();
        f(&mut x);
        out.push((name.to_string(), x));
    };
    m("height+1", &|x| x.header.height += 1);
    m("height-1", &|x| x.header.height = x.header.height.wrapping_sub(1));
    m("height=7", &|x| x.header.height = 7);
    m("prev_hash bit", &|x| x.header.prev_hash = flip(&x.header.prev_hash));
    m("prev_hash zero", &|x| x.header.prev_hash = [0; 32]);
    m("prev_hash=own hash", &|x| x.header.prev_hash = x.hash());
    m("tx_root bit", &|x| x.header.tx_root = flip(&x.header.tx_root));
    m("tx_root zero", &|x| x.header.tx_root = [0; 32]);
    m("state_root bit", &|x| x.header.state_root = flip(&x.header.state_root));
    m("state_root zero", &|x| x.header.state_root = [0; 32]);
    m("delta_embedding replaced", &|x| x.header.delta_embedding = SparseVector::from_dense(&[0.0, 2.0, 0.0]));
    m("delta_embedding emptied", &|x| x.header.delta_embedding = SparseVector::new(0));
    m("quantized_codes push", &|x| x.header.quantized_codes.push(7));
    m("timestamp+1", &|x| x.header.timestamp += 1);
    m("timestamp-1", &|x| x.header.timestamp -= 1);
    m("timestamp+1h", &|x| x.header.timestamp += 3_600_000);
    m("proposer empty", &|x| x.header.proposer = String::new());
    m("proposer=other validator", &|x| x.header.proposer = v2.node_id());
    m("proposer=non-validator", &|x| x.header.proposer = forger.node_id());
    m("signature emptied", &|x| x.header.signature.clear());
    m("signature bit", &|x| {
        if x.header.signature.is_empty() {
            x.header.signature = vec![1]
        } else {
            x.header.signature[3] ^= 4
        }
    });
    m("signature truncated", &|x| {
        x.header.signature.pop();
    });
    m("signature zeros", &|x| x.header.signature = vec![0; 64]);
    m("signature by other validator", &|x| x.header.signature = v2.sign(&x.header.signing_bytes()));
    m("signature by non-validator", &|x| x.header.signature = forger.sign(&x.header.signing_bytes()));
    for o in others {
        let h = o.header.height;
        m(&format!("timestamp of block {h}"), &|x| x.header.timestamp = o.header.timestamp);
        m(&format!("signature of block {h}"), &|x| x.header.signature = o.header.signature.clone());
        m(&format!("prev_hash of block {h}"), &|x| x.header.prev_hash = o.header.prev_hash);
        m(&format!("state_root of block {h}"), &|x| x.header.state_root = o.header.state_root);
        m(&format!("tx_root of block {h}"), &|x| x.header.tx_root = o.header.tx_root);
        m(&format!("transactions of block {h}"), &|x| x.transactions = o.transactions.clone());
        m(&format!("transactions+tx_root of block {h}"), &|x| {
            x.transactions = o.transactions.clone();
            x.header.tx_root = o.header.tx_root
        });
    }
    // transaction list, with the root left alone and with the root recomputed
    let mut txm: Vec<(String, Vec<Transaction>)> = vec![];
    let t = &b.transactions;
    if !t.is_empty() {
        txm.push(("drop first".into(), t[1..].to_vec()));
        txm.push(("drop last".into(), t[..t.len() - 1].to_vec()));
        let mut d = t.clone();
        d.push(t[t.len() - 1].clone());
        txm.push(("duplicate last".into(), d));
        if t.len() >= 2 {
            let mut s = t.clone();
            s.swap(0, 1);
            txm.push(("swap first two".into(), s));
        }
        for i in 0..t.len() {
            let mut k = t.clone();
            k[i] = match &k[i] {
                Transaction::Put { key, data } => Transaction::Put { key: format!("{key}!"), data: data.clone() },
                Transaction::Delete { key } => Transaction::Delete { key: format!("{key}!") },
                other => other.clone(),
            };
            txm.push((format!("tx {i} key altered"), k));
            let mut k = t.clone();
            k[i] = match &k[i] {
                Transaction::Put { key, data } => Transaction::Put { key: key.clone(), data: data.iter().map(|b| b ^ 1).chain([0]).collect() },
                Transaction::Delete { key } => Transaction::Put { key: key.clone(), data: vec![6] },
                other => other.clone(),
            };
            txm.push((format!("tx {i} payload/kind altered"), k));
        }
    }
    let mut a = t.clone();
    a.push(Transaction::Put { key: "a".into(), data: b"injected".to_vec() });
    txm.push(("append a transaction".into(), a));
    for (name, txs) in txm {
        let mut x = b.clone();
        x.transactions = txs;
        out.push((format!("transactions: {name}"), x.clone()));
        x.header.tx_root = x.compute_tx_root();
        out.push((format!("transactions: {name}, tx_root recomputed"), x));
    }
    let mut x = b.clone();
    x.signatures.push(ValidatorSignature { validator: forger.node_id(), signature: vec![1, 2, 3], block_hash: x.hash() });
    out.push(("signatures: bogus co-signature added".into(), x));
    // co-signatures that name a registered validator: each one is wrong in exactly one respect
    let h = b.hash();
    let cosig = |name: &str, signature: Vec<u8>, block_hash: [u8; 32], out: &mut Vec<(String, Block)>| {
        let mut x = b.clone();
        x.signatures.push(ValidatorSignature { validator: v2.node_id(), signature, block_hash });
        out.push((format!("signatures: {name}"), x));
    };
    cosig("registered co-signer, right hash, garbage signature", vec![9; 64], h, &mut out);
    let mut bit = v2.sign(&h);
    bit[5] ^= 1;
    cosig("registered co-signer, genuine co-signature with one bit flipped", bit, h, &mut out);
    cosig("registered co-signer, genuine co-signature truncated", v2.sign(&h)[..63].to_vec(), h, &mut out);
    cosig("registered co-signer, right hash, signature by a non-validator", forger.sign(&h), h, &mut out);
    for o in others {
        let oh = o.hash();
        cosig(&format!("registered co-signer, genuine co-signature of block {}", o.header.height), v2.sign(&oh), oh, &mut out);
        cosig(&format!("registered co-signer, right hash, signature made for block {}", o.header.height), v2.sign(&oh), h, &mut out);
        cosig(&format!("registered co-signer, genuine signature but names block {}", o.header.height), v2.sign(&h), oh, &mut out);
    }
    out
}
fn tamper_signature(orig: &Block, mutated: Option<&Block>, fields: &[&str]) -> String {
    if fields == ["signatures"] {
        "c16:tamper:cosignature-list-unverified".into()
    } else if orig.header.height == 0 {
        "c16:tamper:genesis-body-unverified".into()
    } else if fields == ["transactions"] && mutated.is_some_and(|m| m.compute_tx_root() == orig.compute_tx_root()) {
        // a different transaction list with the same Merkle root
        "c16:tamper:tx-root-collision-duplicated-last-leaf".into()
    } else {
        format!("c16:tamper:undetected:{}", fields.join("+"))
    }
}
fn part_x(bitflips: bool) -> TamperOut {
    thread_clock_reset();
    let mut out = TamperOut::default();
    let (chain, store) = mk_chain(false, 0);
    let v2 = Identity::generate();
    let forger = Identity::generate();
    chain.register_validator(&v2);
    // genesis + 3 committed blocks: 1 tx, 2 txs (with a delta embedding), 3 txs
    let script: Vec<Vec<Transaction>> = vec![
        vec![Transaction::Put { key: "a".into(), data: vec![1] }],
        vec![Transaction::Put { key: "b".into(), data: vec![2] }, Transaction::Delete { key: "a".into() }],
        vec![Transaction::Put { key: "a".into(), data: vec![3] }, Transaction::Put { key: "c".into(), data: vec![4, 4] }, Transaction::Delete { key: "b".into() }],
    ];
    for (i, txs) in script.iter().enumerate() {
        thread_clock_advance_ms(1000);
        let ws = chain.begin().expect("begin");
        if i == 1 {
            ws.compute_delta(&one_hot(3));
        }
        for t in txs {
            ws.add_operation(t.clone()).expect("add");
        }
        chain.commit(&ws).expect("commit");
    }
    let height = chain.height();
    if height != 3 || chain.verify().is_err() {
        out.machinery = Some(format!("tamper base chain: height {height}, verify {:?}", chain.verify()));
        return out;
    }
    let orig: Vec<Block> = (0..=height).map(|h| chain.get_block(h).unwrap().unwrap()).collect();
    let orig_entries: Vec<_> = (0..=height).map(|h| store.get(&block_key(h)).unwrap()).collect();
    let restore = |out: &mut TamperOut| {
        for h in 0..=height {
            store.put(block_key(h), orig_entries[h as usize].clone()).expect("restore");
        }
        if chain.verify().is_err() {
            out.machinery.get_or_insert("verify() fails after restoring the original blocks".into());
        }
    };
    let report = |out: &mut TamperOut, sig: String, what: String, replay: serde_json::Value| {
        out.undetected += 1;
        out.undetected_list.push(format!("{sig}: {what}"));
        if out.violations.iter().filter(|x| x.0 == sig).count() < 3 {
            out.violations.push((sig, format!("verify() still succeeds after: {what}"), replay));
        }
    };
    // (1) field mutations
    for h in 0..=height {
        let others: Vec<Block> = orig.iter().filter(|o| o.header.height != h).cloned().collect();
        for (name, mutated) in field_mutations(&orig[h as usize], &others, &v2, &forger) {
            if mutated == orig[h as usize] {
                continue;
            }
            out.cases += 1;
            out.field_mutations += 1;
            if !selftest() {
                write_bytes(&store, h, bitcode::serialize(&mutated).unwrap());
            }
            let r = chain.verify();
            if r.is_ok() {
                let fields = differing_fields(&orig[h as usize], &mutated);
                report(&mut out, tamper_signature(&orig[h as usize], Some(&mutated), &fields), format!("block {h}: {name} (fields changed: {fields:?})"), json!({"part":"X","block":h,"mutation":name}));
            } else {
                out.detected += 1;
            }
            restore(&mut out);
        }
    }
    // (2) removal, swaps, forgeries
    for h in 0..=height {
        out.cases += 1;
        out.structural += 1;
        store.delete(&block_key(h)).expect("delete");
        if chain.verify().is_ok() {
            report(&mut out, "c16:tamper:undetected:block-removed".into(), format!("block {h} removed from the store"), json!({"part":"X","block":h,"mutation":"removed"}));
        } else {
            out.detected += 1;
        }
        restore(&mut out);
    }
    for i in 0..=height {
        for j in i + 1..=height {
            out.cases += 1;
            out.structural += 1;
            store.put(block_key(i), orig_entries[j as usize].clone()).unwrap();
            store.put(block_key(j), orig_entries[i as usize].clone()).unwrap();
            if chain.verify().is_ok() {
                report(&mut out, "c16:tamper:undetected:blocks-swapped".into(), format!("stored blocks {i} and {j} swapped"), json!({"part":"X","swap":[i,j]}));
            } else {
                out.detected += 1;
            }
            restore(&mut out);
        }
    }
    for h in 1..=height {
        let o = &orig[h as usize];
        for variant in 0..4u8 {
            let mut f = o.clone();
            f.transactions = vec![Transaction::Put { key: "a".into(), data: b"forged".to_vec() }];
            f.header.tx_root = f.compute_tx_root();
            match variant {
                0 => {
                    f.header.proposer = forger.node_id();
                    f.header.signature = forger.sign(&f.header.signing_bytes());
                }
                1 => f.header.signature = forger.sign(&f.header.signing_bytes()),
                2 => f.header.proposer = forger.node_id(),
                _ => {}
            }
            out.cases += 1;
            out.structural += 1;
            write_bytes(&store, h, bitcode::serialize(&f).unwrap());
            if chain.verify().is_ok() {
                report(&mut out, "c16:tamper:undetected:forged-block".into(), format!("block {h} replaced by a forged block (variant {variant}: 0 = proposer and signature of a non-validator, 1 = validator named, non-validator signature, 2 = non-validator named, old signature, 3 = old signature kept)"), json!({"part":"X","block":h,"forgery":variant}));
            } else {
                out.detected += 1;
            }
            restore(&mut out);
        }
    }
    // (3) every single-bit flip of every stored block's bytes
    if bitflips {
        for h in 0..=height {
            let bytes = stored_bytes(&store, h);
            for bit in 0..bytes.len() * 8 {
                let mut m = bytes.clone();
                m[bit / 8] ^= 1 << (bit % 8);
                out.cases += 1;
                out.bitflips += 1;
                let dec: Option<Block> = bitcode::deserialize(&m).ok();
                if dec.is_none() {
                    out.bitflips_decode_fail += 1;
                }
                if dec.as_ref() == Some(&orig[h as usize]) {
                    out.benign_equal += 1; // another encoding of the same block: nothing was altered
                    continue;
                }
                write_bytes(&store, h, m);
                if chain.verify().is_ok() {
                    let fields = dec.as_ref().map(|d| differing_fields(&orig[h as usize], d)).unwrap_or_default();
                    report(&mut out, tamper_signature(&orig[h as usize], dec.as_ref(), &fields), format!("block {h}: bit {bit} of the stored bytes flipped (fields changed: {fields:?})"), json!({"part":"X","block":h,"bit":bit}));
                } else {
                    out.detected += 1;
                }
                restore(&mut out);
            }
        }
    }
    thread_clock_reset();
    out
}

// ------------------------------------------------------------------------------------------ Part T
#[derive(Clone, Debug, Serialize, Deserialize)]
enum TAct {
    Commit,
    Rollback,
}
#[derive(Clone, Debug, Serialize, Deserialize)]
struct Program {
    name: String,
    merge: bool,
    /// per workspace: (delta direction or none, keys written, action of its thread)
    ws: Vec<(Option<u8>, Vec<String>, TAct)>,
    /// blocks committed before the threads start
    pre_blocks: u8,
    /// global codebook (see Cfg::cb)
    #[serde(default)]
    cb: u8,
}
fn programs(thorough: bool) -> Vec<Program> {
    let k = |s: &[&str]| s.iter().map(|x| x.to_string()).collect::<Vec<_>>();
    let mut v = vec![];
    for merge in [false, true] {
        let m = if merge { "merge on" } else { "merge off" };
        v.push(Program { name: format!("2 commits, no embeddings, disjoint keys ({m})"), merge, ws: vec![(None, k(&["a"]), TAct::Commit), (None, k(&["b"]), TAct::Commit)], pre_blocks: 0, cb: 0 });
        v.push(Program { name: format!("2 commits, orthogonal embeddings, disjoint keys ({m})"), merge, ws: vec![(Some(0), k(&["a"]), TAct::Commit), (Some(1), k(&["b"]), TAct::Commit)], pre_blocks: 0, cb: 0 });
        v.push(Program { name: format!("2 commits, conflicting embeddings, overlapping keys ({m})"), merge, ws: vec![(Some(0), k(&["a"]), TAct::Commit), (Some(0), k(&["a", "b"]), TAct::Commit)], pre_blocks: 0, cb: 0 });
    }
    v.push(Program { name: "2 commits, no embeddings, same key (merge off)".into(), merge: false, ws: vec![(None, k(&["a"]), TAct::Commit), (None, k(&["a"]), TAct::Commit)], pre_blocks: 1, cb: 0 });
    v.push(Program { name: "commit || rollback of another workspace (merge off)".into(), merge: false, ws: vec![(None, k(&["a"]), TAct::Commit), (None, k(&["b"]), TAct::Rollback)], pre_blocks: 0, cb: 0 });
    v.push(Program { name: "commit || rollback of an orthogonal workspace the commit may merge (merge on)".into(), merge: true, ws: vec![(Some(0), k(&["a"]), TAct::Commit), (Some(1), k(&["b"]), TAct::Rollback)], pre_blocks: 0, cb: 0 });
    v.push(Program { name: "2 commits, orthogonal embeddings, disjoint keys, codebook {e0}: the validator rejects the merge candidate (merge on)".into(), merge: true, ws: vec![(Some(0), k(&["a"]), TAct::Commit), (Some(1), k(&["b"]), TAct::Commit)], pre_blocks: 0, cb: 1 });
    if thorough {
        v.push(Program { name: "2 commits, orthogonal embeddings, disjoint keys, codebook {e0, e1, e0+e1}: the validator accepts the merge candidate (merge on)".into(), merge: true, ws: vec![(Some(0), k(&["a"]), TAct::Commit), (Some(1), k(&["b"]), TAct::Commit)], pre_blocks: 0, cb: 2 });
        v.push(Program { name: "3 commits, no embeddings, disjoint keys (merge off)".into(), merge: false, ws: vec![(None, k(&["a"]), TAct::Commit), (None, k(&["b"]), TAct::Commit), (None, k(&["c"]), TAct::Commit)], pre_blocks: 0, cb: 0 });
        v.push(Program { name: "3 commits, orthogonal embeddings (merge on)".into(), merge: true, ws: vec![(Some(0), k(&["a"]), TAct::Commit), (Some(1), k(&["b"]), TAct::Commit), (Some(2), k(&["c"]), TAct::Commit)], pre_blocks: 0, cb: 0 });
        v.push(Program { name: "3 commits, two conflicting + one orthogonal (merge on)".into(), merge: true, ws: vec![(Some(0), k(&["a"]), TAct::Commit), (Some(0), k(&["a", "b"]), TAct::Commit), (Some(1), k(&["c"]), TAct::Commit)], pre_blocks: 0, cb: 0 });
    }
    v
}

struct Built {
    chain: Arc<TensorChain>,
    store: TensorStore,
    ws: Vec<Arc<TransactionWorkspace>>,
    ops: Vec<Vec<Transaction>>,
    pre: Vec<Vec<Transaction>>,
}
fn build(p: &Program) -> Built {
    env::set_thread_seed(4242);
    thread_clock_reset();
    // generate_tx_id() keeps a process-global same-millisecond counter; under the frozen clock it would grow
    // from execution to execution, change the ids and with them the iteration order of the manager's
    // HashMap (=> a different lock sequence for the same schedule prefix). One id drawn at another
    // millisecond makes the next draw reset the counter, so every execution sees the same ids.
    thread_clock_advance_ms(7);
    let _ = tensor_chain::generate_tx_id();
    thread_clock_reset();
    let (chain, store) = mk_chain(p.merge, p.cb);
    let mut pre = vec![];
    for i in 0..p.pre_blocks {
        let ws = chain.begin().expect("begin");
        let tx = Transaction::Put { key: "a".into(), data: vec![100 + i] };
        ws.add_operation(tx.clone()).unwrap();
        chain.commit(&ws).expect("pre commit");
        pre.push(vec![tx]);
    }
    let mut wss = vec![];
    let mut ops = vec![];
    for (i, (dir, keys, _)) in p.ws.iter().enumerate() {
        let ws = chain.begin().expect("begin");
        if let Some(d) = dir {
            ws.compute_delta(&one_hot(*d as usize));
        }
        let txs: Vec<Transaction> = keys.iter().map(|k| Transaction::Put { key: k.clone(), data: vec![i as u8 + 1, k.as_bytes()[0]] }).collect();
        for t in &txs {
            ws.add_operation(t.clone()).unwrap();
        }
        wss.push(ws);
        ops.push(txs);
    }
    Built { chain: Arc::new(chain), store, ws: wss, ops, pre }
}

#[derive(Default, Serialize, Deserialize)]
struct WStats {
    tasks: u64,
    executions: u64,
    sched_points: u64,
    max_points: usize,
    by_preemptions: BTreeMap<usize, u64>,
    outcomes: BTreeMap<String, BTreeSet<String>>,
    violations: Vec<nvc::report::ViolationRec>,
    violation_total: u64,
    sample: Option<serde_json::Value>,
    machinery: Option<String>,
    seq: SeqOut,
}

fn quiescent_check(b: &Built, p: &Program, results: &[Option<Result<u64, String>>]) -> Verdict {
    let states: Vec<TransactionState> = b.ws.iter().map(|w| w.state()).collect();
    let res_s: Vec<String> = results.iter().map(|r| match r { Some(Ok(0)) => "ok".into(), Some(Ok(h)) => format!("ok@height{h}"), Some(Err(_)) => "err".into(), None => "-".to_string() }).collect();
    let run = || -> Result<String, Viol> {
        let blocks = chain_structure(&b.chain)?;
        if let Err(e) = b.chain.verify() {
            return viol("verify-fails", format!("verify() fails at quiescence: {e}"));
        }
        for (i, r) in results.iter().enumerate() {
            if matches!(p.ws[i].2, TAct::Commit) && matches!(r, Some(Ok(_))) && states[i] != TransactionState::Committed {
                return viol("commit-ok-not-committed", format!("commit of workspace {i} returned Ok, its state is {:?}", states[i]));
            }
        }
        // each workspace's writes: once if committed, never otherwise
        let all_txs: Vec<&Transaction> = blocks.iter().flat_map(|b| b.transactions.iter()).collect();
        for (i, ops) in b.ops.iter().enumerate() {
            let counts: Vec<usize> = ops.iter().map(|t| all_txs.iter().filter(|x| **x == t).count()).collect();
            let committed = states[i] == TransactionState::Committed;
            let want = usize::from(committed);
            if counts.iter().any(|&c| c != want) {
                let whole_blocks = blocks.iter().filter(|bl| ops.iter().all(|t| bl.transactions.contains(t))).count();
                // a Failed workspace riding in the block of a Committed one, on a chain whose validator may refuse
                // merges: it was picked as merge candidate and rejected
                let rides = p.cb != 0 && states[i] == TransactionState::Failed && blocks.iter().any(|bl| ops.iter().all(|t| bl.transactions.contains(t)) && (0..b.ops.len()).any(|j| j != i && states[j] == TransactionState::Committed && b.ops[j].iter().all(|t| bl.transactions.contains(t))));
                return viol(if committed { "committed-workspace-not-once" } else if rides { "rejected-merge-candidate-left-writes" } else { "uncommitted-workspace-in-chain" }, format!("workspace {i} is {:?} (call returned {}), its writes occur {counts:?} times in the chain ({whole_blocks} blocks hold all of them)", states[i], res_s[i]));
            }
            if committed && !blocks.iter().any(|bl| ops.iter().all(|t| bl.transactions.contains(t))) {
                return viol("workspace-split-over-blocks", format!("workspace {i}'s writes are spread over several blocks"));
            }
        }
        for (i, pre) in b.pre.iter().enumerate() {
            if blocks.get(i).map(|b| &b.transactions) != Some(pre) {
                return viol("earlier-block-changed", format!("block {} (committed before the threads started) changed", i + 1));
            }
        }
        if blocks.iter().map(|b| b.transactions.len()).sum::<usize>() != b.pre.iter().map(Vec::len).sum::<usize>() + b.ops.iter().enumerate().filter(|(i, _)| states[*i] == TransactionState::Committed).map(|(_, o)| o.len()).sum::<usize>() {
            return viol("foreign-transactions", "the chain holds transactions no committed workspace wrote".to_string());
        }
        let mut want = RefStore::new();
        for bl in &blocks {
            for t in &bl.transactions {
                apply_ref(&mut want, t);
            }
        }
        let got = user_store(&b.store);
        if got != want {
            return viol("store-differs", format!("store holds {got:?}; applying the chain's blocks in order gives {want:?} (call results {res_s:?}, states {states:?})"));
        }
        Ok(format!("{:?}", blocks.iter().map(|b| b.transactions.iter().map(|t| match t { Transaction::Put { data, .. } => data[0], _ => 0 }).collect::<Vec<_>>()).collect::<Vec<_>>()))
    };
    match run() {
        Ok(shape) => Verdict { outcome: format!("{res_s:?}|{states:?}|{shape}"), violation: None },
        Err(v) => Verdict { outcome: format!("{res_s:?}|{states:?}|VIOLATION {}", v.sig), violation: Some(format!("c16:conc:{}|{}", v.sig, v.msg)) },
    }
}

type Check = Box<dyn FnOnce(&RunResult) -> Verdict>;
/// fresh chain + prepared workspaces (built on a fresh OS thread so that entropy streams and hash seeds
/// are the same in every execution), one body per workspace, and the quiescent checker
fn mk_exec(prog: &Program) -> (Vec<Body>, Check) {
    let p2 = prog.clone();
    let built = Arc::new(std::thread::spawn(move || build(&p2)).join().expect("build thread"));
    let results: Arc<Mutex<Vec<Option<Result<u64, String>>>>> = Arc::new(Mutex::new(vec![None; prog.ws.len()]));
    let mut bodies: Vec<Body> = vec![];
    for (i, (_, _, act)) in prog.ws.iter().enumerate() {
        let (b, results, act) = (built.clone(), results.clone(), act.clone());
        bodies.push(Box::new(move || {
            let r = match act {
                TAct::Commit => b.chain.commit(&b.ws[i]).map(|_| 0).map_err(|e| e.to_string()),
                // observation: the height the thread sees right after its rollback returned
                TAct::Rollback => b.chain.rollback(&b.ws[i]).map(|()| b.chain.height()).map_err(|e| e.to_string()),
            };
            results.lock().unwrap()[i] = Some(r);
        }));
    }
    let (b, results, p3) = (built.clone(), results.clone(), prog.clone());
    let check = Box::new(move |_r: &RunResult| {
        let res = results.lock().unwrap().clone();
        quiescent_check(&b, &p3, &res)
    });
    (bodies, check as Check)
}
fn conc_signature(p: &Program, message: &str) -> (String, String) {
    let (sig, msg) = message.split_once('|').map_or(("c16:conc:thread-failure".to_string(), message.to_string()), |(a, b)| (a.to_string(), b.to_string()));
    let sig = if message.starts_with("deadlock") {
        "c16:conc:deadlock".to_string()
    } else if message.starts_with("panic") {
        "c16:conc:panic".to_string()
    } else {
        sig
    };
    let with_rollback = p.ws.iter().any(|w| matches!(w.2, TAct::Rollback));
    let sig = match sig.strip_prefix("c16:conc:") {
        Some("rejected-merge-candidate-left-writes") => sig.clone(),
        Some(sym) if sym != "deadlock" && sym != "panic" && sym != "thread-failure" => {
            if with_rollback {
                format!("c16:conc:rollback-restores-begin-snapshot:{sym}")
            } else {
                format!("c16:conc:unserialized-commit:{sym}")
            }
        }
        _ => format!("{sig}:{}", if with_rollback { "commit||rollback" } else { "commit||commit" }),
    };
    (sig, msg)
}
fn explore_program(p: &Program, bound: usize, part: (usize, usize), st: &mut WStats) {
    let prog = p.clone();
    let stats = vsched::explore(&ExploreCfg { bound, part, max_execs: 3_000_000 }, || mk_exec(&prog));
    st.tasks += 1;
    st.executions += stats.executions;
    st.sched_points += stats.sched_points;
    st.max_points = st.max_points.max(stats.max_points);
    for (k, v) in &stats.by_preemptions {
        *st.by_preemptions.entry(*k).or_default() += v;
    }
    st.outcomes.entry(p.name.clone()).or_default().extend(stats.outcomes.keys().cloned());
    if let Some(m) = stats.machinery {
        st.machinery.get_or_insert(format!("{}: {m}", p.name));
    }
    if stats.capped {
        st.machinery.get_or_insert(format!("{}: execution cap hit", p.name));
    }
    st.violation_total += stats.violation_count;
    let mut local_viol: Vec<nvc::report::ViolationRec> = vec![];
    for v in stats.violations {
        let (sig, msg) = conc_signature(p, &v.message);
        if local_viol.iter().filter(|x| x.signature == sig).count() < 3 {
            local_viol.push(nvc::report::ViolationRec { signature: sig, message: format!("{}: {msg} (thread schedule {}, {} preemptions)", p.name, rle(&v.threads), v.preemptions), replay: json!({"part":"T","program": p, "bound": bound, "choices": v.choices, "thread_schedule": v.threads}) });
        }
    }
    st.violations.extend(local_viol);
    if st.sample.is_none() && part.0 == 0 && p.name == programs(false)[0].name {
        st.sample = Some(json!({"part":"T","program": p, "executions_in_this_partition": stats.executions, "distinct_outcomes": stats.outcomes.keys().collect::<Vec<_>>(), "first_schedule_len": stats.sample_schedule.len()}));
    }
}

/// run-length rendering of a thread schedule: "0x80 1x79 0x3"
fn rle(v: &[usize]) -> String {
    let mut out: Vec<String> = vec![];
    let mut i = 0;
    while i < v.len() {
        let mut j = i;
        while j < v.len() && v[j] == v[i] {
            j += 1;
        }
        out.push(format!("{}x{}", v[i], j - i));
        i = j;
    }
    out.join(" ")
}
fn bound_for(p: &Program, thorough: bool) -> usize {
    if thorough && p.ws.len() == 2 {
        2
    } else {
        1
    }
}
fn parts(thorough: bool) -> usize {
    if thorough {
        8
    } else {
        4
    }
}
#[derive(Clone, Debug)]
enum Task {
    S(usize, Cfg, Op),
    T(usize, usize),
}
/// S tasks = configuration x first operation; T tasks = program x partition of its schedule tree
fn tasks(thorough: bool) -> Vec<Task> {
    let mut v = vec![];
    for (i, cfg) in configs().into_iter().enumerate() {
        for f in first_ops() {
            v.push(Task::S(i, cfg, f));
        }
    }
    for (pi, _) in programs(thorough).iter().enumerate() {
        for part in 0..parts(thorough) {
            v.push(Task::T(pi, part));
        }
    }
    v
}
fn task_cost(t: &Task, thorough: bool) -> u32 {
    match t {
        Task::S(_, cfg, Op::Begin(_)) => 10 * 6u32.pow(s_depth(cfg, thorough) as u32 - 3),
        Task::S(_, cfg, Op::AppendSigned) => 3 * 6u32.pow(s_depth(cfg, thorough) as u32 - 3),
        Task::S(..) => 1,
        Task::T(pi, _) => {
            let p = &programs(thorough)[*pi];
            if bound_for(p, thorough) == 2 {
                800
            } else {
                40 * p.ws.len() as u32
            }
        }
    }
}
/// Workers claim tasks (most expensive first) by creating `<dir>/<index>` exclusively, so the load balances
/// itself; which worker ran a task has no influence on any reported number.
/// second round: worker i of n runs every n-th job of the restart pass
fn restart_worker(i: usize, n: usize, thorough: bool, jobs_file: &str) {
    let _ = rayon::ThreadPoolBuilder::new().num_threads(2).build_global();
    let jobs: Vec<RJob> = serde_json::from_str(&std::fs::read_to_string(jobs_file).expect("restart jobs")).expect("restart jobs json");
    let mut out = SeqOut::default();
    restart_pass(thorough, &jobs, (i, n), &mut out);
    par::emit_result(&out);
}
fn worker(_i: usize, _n: usize, thorough: bool, claims: &str) {
    vsched::quiet_panics();
    vsched::set_thread_init(|t| env::set_thread_seed(t as u64 + 1));
    let _ = rayon::ThreadPoolBuilder::new().num_threads(2).build_global();
    let mut st = WStats::default();
    let progs = programs(thorough);
    let mut order: Vec<(usize, Task)> = tasks(thorough).into_iter().enumerate().collect();
    order.sort_by_key(|(i, t)| (std::cmp::Reverse(task_cost(t, thorough)), *i));
    for (idx, task) in order {
        if std::fs::OpenOptions::new().write(true).create_new(true).open(format!("{claims}/{idx}")).is_err() {
            continue;
        }
        match task {
            Task::S(_, cfg, first) => part_s(cfg, s_depth(&cfg, thorough), first, thorough, false, &mut st.seq),
            Task::T(pi, part) => explore_program(&progs[pi], bound_for(&progs[pi], thorough), (part, parts(thorough)), &mut st),
        }
    }
    par::emit_result(&st);
}

// ------------------------------------------------------------------------------------------ main
fn run_selftest() -> ! {
    // every part once with an intact reference (baseline), once with a deliberately corrupted one
    let count = |v: &[nvc::report::ViolationRec], pat: &str| v.iter().filter(|x| x.signature.contains(pat)).count();
    let run_s = || {
        let mut s = SeqOut::default();
        part_s(Cfg { merge: false, dirs: 0, cb: 0 }, 3, Op::Begin(0), false, true, &mut s);
        s
    };
    vsched::quiet_panics();
    vsched::set_thread_init(|t| env::set_thread_seed(t as u64 + 1));
    let run_t = || {
        let mut st = WStats::default();
        explore_program(&programs(false)[0], 0, (0, 1), &mut st);
        st
    };
    let mut s2 = SeqOut::default();
    part_s(Cfg { merge: false, dirs: 0, cb: 0 }, 4, Op::Begin(0), false, true, &mut s2);
    let seqs: Vec<BlockSeq> = s2.seqs.iter().take(4).map(|(c, h, _)| block_seq(*c, h)).collect();
    // the merge-candidate oracle: [begin 0, begin 1, put 0, put 1, commit 0] under the rejecting ({e0}) and the
    // accepting ({e0,e1,e0+e1}) codebook; (state of slot 1, verdict of step+check)
    let run_m = |cb: u8| {
        let hist = [Op::Begin(0), Op::Begin(1), Op::Put(0, 0), Op::Put(1, 1)];
        let mut s = replay(Cfg { merge: true, dirs: 2, cb }, &hist).ok().expect("selftest history");
        let v = s.step(Op::Commit(0)).and_then(|_| s.check()).err().map(|v| v.sig);
        (s.states()[1], v, s.chain.get_block(1).ok().flatten().map_or(0, |b| b.transactions.len()))
    };
    // the restart oracle: [begin 0, put 0 a, commit 0], crash after the block record was stored (height record
    // behind), re-open, one more commit; (initialize adopted the stored block, final height, verdict)
    let run_c = || {
        let mut s = replay(Cfg { merge: false, dirs: 0, cb: 0 }, &[Op::Begin(0), Op::Put(0, 0), Op::Commit(0)]).ok().expect("selftest history");
        let mut verdict = None;
        for op in [Op::CrashReopen(2), Op::Begin(0), Op::Put(0, 0), Op::Commit(0)] {
            if let Err(v) = s.step(op).and_then(|_| s.check()) {
                verdict = Some(v.sig);
                break;
            }
        }
        (s.last_restart.walked_forward, s.chain.height(), verdict)
    };
    let (s0, x0, r0, t0, m0, c0) = (run_s(), part_x(false), part_r(&seqs), run_t(), (run_m(1), run_m(2)), run_c());
    SELFTEST.store(true, std::sync::atomic::Ordering::Relaxed);
    let (s1, x1, r1, t1, m1, c1) = (run_s(), part_x(false), part_r(&seqs), run_t(), run_m(2), run_c());
    let twin = |r: &ReplicaOut| r.passing_by_scenario.get(&0).copied().unwrap_or(0);
    println!("selftest S (reference ignores puts to key b): commit:store-differs alarms {} -> {}", count(&s0.violations, "commit:store-differs"), count(&s1.violations, "commit:store-differs"));
    println!("selftest X (field mutations are not written, so verify() passes): undetected {} -> {} of {} field mutations", x0.undetected, x1.undetected, x1.field_mutations);
    println!("selftest R (replica B's root perturbed): identical-twin cases passing {} -> {} of {}", twin(&r0), twin(&r1), seqs.len());
    println!("selftest T (reference ignores puts to key b): violating schedules {} -> {} of {}", t0.violation_total, t1.violation_total, t1.executions);
    println!("selftest S/merge (baseline: codebook {{e0}} -> candidate {:?}, block of {} tx, verdict {:?}; codebook {{e0,e1,e0+e1}} -> candidate {:?}, block of {} tx, verdict {:?}); accepted candidate treated as rejected -> verdict {:?}", m0.0 .0, m0.0 .2, m0.0 .1, m0.1 .0, m0.1 .2, m0.1 .1, m1.1);
    println!("selftest S/restart (baseline: crash after the block record, re-open adopted the block = {}, height after one more commit {}, verdict {:?}; restart pass of the baseline run: {} restart steps, {} violating paths); reference claims the recovered commit never happened -> verdict {:?}", c0.0, c0.1, c0.2, s0.restart.restarts_by_kind.values().sum::<u64>(), s0.restart.violating_paths, c1.2);
    let ok = count(&s0.violations, "commit:store-differs") == 0
        && c0 == (true, 2, None)
        && c1.2.as_deref() == Some("height-differs")
        && s0.restart.violating_paths == 0
        && s0.restart.walked_forward > 0
        && m0.0 == (Some(TransactionState::Failed), None, 1)
        && m0.1 == (Some(TransactionState::Committed), None, 2)
        && m1.1.as_deref() == Some("rejected-merge-candidate-left-writes")
        && count(&s1.violations, "commit:store-differs") > 0
        && x1.undetected >= x1.field_mutations
        && x0.undetected < 30
        && twin(&r0) == seqs.len() as u64
        && !seqs.is_empty()
        && twin(&r1) == 0
        && t0.violation_total == 0
        && t1.violation_total == t1.executions
        && t1.executions > 0;
    println!("selftest {}", if ok { "PASSED: every oracle is quiet on its baseline and alarms when its reference is corrupted" } else { "FAILED" });
    std::process::exit(if ok { 0 } else { 2 });
}

/// `check C16 --replay <file>`: re-run exactly the recorded case
fn replay_case(rep: &mut Report, path: &str) {
    let body: serde_json::Value = serde_json::from_str(&std::fs::read_to_string(path).expect("replay file")).expect("replay json");
    let r = &body["replay"];
    rep.sample(r.clone());
    match r["part"].as_str().unwrap_or("") {
        "S" | "R" => {
            let cfg: Cfg = serde_json::from_value(r["cfg"].clone()).expect("cfg");
            let ops: Vec<Op> = serde_json::from_value(r["ops"].clone()).expect("ops");
            if r["part"] == "S" {
                thread_clock_reset();
                let mut s = Seq::fresh(cfg);
                for (i, op) in ops.iter().enumerate() {
                    let res = s.step(*op).and_then(|_| s.check());
                    eprintln!("  step {i} {op:?}: {}", res.as_ref().map_or_else(|v| format!("VIOLATION {}: {}", v.sig, v.msg), |()| format!("ok (height {}, store {:?})", s.chain.height(), user_store(&s.store))));
                    if let Err(v) = res {
                        rep.violation(body["signature"].as_str().unwrap_or("c16:seq").to_string(), format!("after {:?}: {}", &ops[..=i], v.msg), r.clone());
                        break;
                    }
                }
            } else {
                let sc = r["scenario"].as_u64().unwrap_or(1) as u8;
                let (_, _, _, v) = replica_case(&block_seq(cfg, &ops), sc);
                if let Some(v) = v {
                    rep.violation(body["signature"].as_str().unwrap_or("c16:replica").to_string(), v.msg, r.clone());
                }
            }
        }
        "X" => {
            let x = part_x(r.get("bit").is_some());
            for (sig, msg, rp) in x.violations.iter().chain(std::iter::empty()) {
                if rp == r {
                    rep.violation(sig.clone(), msg.clone(), rp.clone());
                }
            }
            if rep.violation_count() == 0 {
                // more than 3 cases share a signature: look the case up in the full list
                let tag = if let Some(b) = r.get("bit") { format!("block {}: bit {b} ", r["block"]) } else if let Some(m) = r["mutation"].as_str() { format!("block {}: {m} ", r["block"]) } else { String::new() };
                for u in x.undetected_list.iter().filter(|u| !tag.is_empty() && u.contains(&tag)) {
                    rep.violation(body["signature"].as_str().unwrap_or("c16:tamper").to_string(), format!("verify() still succeeds after: {u}"), r.clone());
                }
            }
        }
        "T" => {
            vsched::quiet_panics();
            vsched::set_thread_init(|t| env::set_thread_seed(t as u64 + 1));
            let p: Program = serde_json::from_value(r["program"].clone()).expect("program");
            let choices: Vec<usize> = serde_json::from_value(r["choices"].clone()).expect("choices");
            let (bodies, check) = mk_exec(&p);
            let run = vsched::run(&choices, bodies);
            let message = if run.deadlock {
                Some("deadlock: no enabled thread".to_string())
            } else if let Some((t, m)) = run.panics.first() {
                Some(format!("panic in thread {t}: {m}"))
            } else if let Some(m) = &run.machinery {
                rep.machinery(m.clone());
                None
            } else {
                let v = check(&run);
                eprintln!("  outcome: {}", v.outcome);
                v.violation
            };
            if let Some(m) = message {
                let (sig, msg) = conc_signature(&p, &m);
                rep.violation(sig, format!("{}: {msg} (thread schedule {})", p.name, rle(&run.thread_schedule())), r.clone());
            }
        }
        other => rep.machinery(format!("unknown replay part {other:?}")),
    }
}

fn main() {
    env::require();
    env::clock_freeze(T0);
    let args = nvc::Args::parse();
    if let Some((i, n)) = args.worker {
        match args.flag("restart-jobs") {
            Some(f) => restart_worker(i, n, args.thorough(), &f),
            None => worker(i, n, args.thorough(), &args.flag("claims").expect("--claims")),
        }
        return;
    }
    if args.rest.iter().any(|a| a == "--selftest") {
        run_selftest();
    }
    let mut rep = Report::new("C16", "model_checking");
    if let Some(path) = rep.args.replay.clone() {
        rep.args.tier = "replayed".into(); // artefacts of a replay must not overwrite <tier>-N.json of the run
        replay_case(&mut rep, &path);
        rep.finish();
    }
    let thorough = rep.thorough();
    let depth = if thorough { 6 } else { 5 };
    let bound = if thorough { "2 (2-thread programs) / 1 (3-thread programs)" } else { "1" };
    rep.rule(&format!("S: for each of 8 configurations (auto-merge on/off x workspaces without / with identical / with orthogonal delta embeddings under the default empty global codebook, plus auto-merge on + orthogonal embeddings e0/e1 on a chain built with_codebook: {{e0}}, where the transition validator rejects every merge candidate [target e0+e1 resp. source e1 is no known state], and {{e0, e1, e0+e1}}, where it is asked and accepts) BFS over every sequence of <= {depth} (plain workspaces; merge + orthogonal under the empty and under the rejecting{} codebook) / {} (others) operations from {{begin(slot), put(slot,key), delete(slot,key), commit(slot), rollback(slot), append_block(signed|unsigned)}} over 2 workspace slots and 2 keys, replayed on a fresh real TensorChain, dedup on (blocks, store, workspace states/ops); after every step: verify() Ok, every height present/linked/rooted, tip_hash/get_block/history agree with the blocks added, new block == the writes of exactly the workspaces that became Committed (a workspace the commit picked as merge candidate and left Failed contributes nothing to block, store or history), store user keys == reference. S/restart (default-codebook configurations): for the first (shortest) BFS history of every distinct durable shape (per block the sequence of (put|delete, key) [appended blocks are those writing x], set of user keys in the store; payload bytes and open workspaces abstracted, they do not survive a restart) a clean re-open, and for the first history of every distinct block-creating step (shape after x user keys before x commit|append_block, plus the first initialize) a crash + re-open at EVERY prefix k = 1..n+2 of its store-write sequence (n user-key writes, block record, chain-link records; see the crash model); after the restart step every sequence of exactly {rlen} continuation macros out of {rmac:?} ({rpaths} paths per restart step; after a crash image without the block record, whose chain records are those of the state before the commit, the sequences of length 1); after the restart step and after every later operation the same battery as in the BFS (verify(), every height present/linked/rooted, tip_hash == hash of block height(), nothing beyond the tip, block contents and history == the blocks that count as committed, store user keys == reference), so further commits must extend the recovered chain. X: genesis + 3 committed blocks, own and a second validator key registered; every header-field and transaction-list mutation of every stored block (tx_root kept and recomputed), co-signature injection, every removal, every swap, 4 forgeries per block, every single-bit flip of every stored block's bytes; verify() must fail unless the decoded block is equal. R: every distinct commit-built block sequence of S applied by two TensorStateMachines (proposer's node id and key), replica A at the proposer's clock T; replica B: (0) identical twin, (1) same genesis, applies one hour later, (2) created one hour later, (3) another node id at the same clock; same accept/reject, same compute_state_root after each block. T: per program 2{} real threads calling commit (one program: rollback) on prepared workspaces (one program on the {{e0}}-codebook chain whose validator rejects the merge candidate{}), every schedule with <= {bound} preemptions; quiescent chain verifies and is linked, each Committed workspace exactly once in one block, no other, store == blocks applied in order. non-trivial = distinct S states + schedules with >= 1 preemption + tamper cases + replica comparisons", if thorough { " and accepting" } else { "" }, depth - 1, if thorough { "-3" } else { "" }, if thorough { ", one on the accepting codebook" } else { "" }, rlen = restart_len(thorough), rmac = restart_macros(thorough), rpaths = restart_paths(thorough, 0).len()));
    rep.assume("interleavings at lock-acquisition granularity: TensorChain::commit/rollback, TransactionManager, TransactionWorkspace, Chain, GraphEngine, TensorStore, ValidatorRegistry, GlobalCodebook, TransitionValidator use parking_lot / dashmap locks only (no std::sync, tokio::sync or Condvar on these paths); Chain::height is an atomic read inside lock-delimited segments");
    rep.assume("the non-empty-codebook configurations build the chain with TensorChain::with_codebook(GlobalCodebook::from_centroids(..), CodebookConfig::default(), ValidationConfig::default()) (state_threshold 0.8, strict transitions, max magnitude 1.0) over 128-dimensional one-hot deltas, all begins inside the merge window (frozen clock); load_or_create over a persisted codebook reaches the same find_and_merge_orthogonal code and is not run separately");
    rep.assume(&format!("restart model (S, restart pass; the 6 default-codebook configurations, whose chains are built with_identity(fixed key); with_codebook offers no constructor taking an identity, those 2 configurations are not re-opened): a restart = the TensorChain object and every open workspace are dropped, TensorChain::with_identity(same store, same config, same key) + initialize(). Crash model: the store that survives is the TensorStore content at one instant between two consecutive store writes of ONE interrupted public call (what a per-write durable store, or a save_snapshot/checkpoint taken by another thread at that instant, retains); nothing else is lost, reordered or torn. The write sequence is read off the code and trusted: commit (lib.rs) = apply_operations_to_store (one user-key write per operation, in block order) -> Chain::append (chain.rs) = store_block [chain:block:<h+1>] -> add_chain_edge [node:/edge:/_graph_idx: records, taken as ONE step: their internal order is not enumerated] -> save_height [chain:meta]; there is no separate tip record (tip_hash is recomputed from the block at the recovered height); append_block = the same without user-key writes; first initialize = store_block(genesis) -> save_height(0). Images are produced from the recorded pre-/post-images of the real call: every record the call changed is put back, then the first k steps are re-issued (user-key writes through tensor_chain::transaction::apply_transaction_to_store, later records copied from the post-image); k = 0 and k = all are the clean re-opens of the neighbouring states. Only prefixes are built: the height record is never ahead of the stored blocks (initialize's walk-back branch is not reachable by a crash in this model and is not examined). Oracle for the interrupted call: it counts as committed (block h+1 is its block, all its writes in the store) or as not committed (height h, no block h+1, none of its writes), decided by the height the re-opened chain reports and then demanded in full; exception: if the image holds writes of the commit but not its block record (crash during apply_operations_to_store or before store_block; commit keeps its undo image in memory only) the statement, which speaks of calls that return, is not read as obliging initialize to undo them: store == pre-image or store == crash image are both accepted (counted in part S restart as observation, CRASH_UNDO_REQUIRED = {CRASH_UNDO_REQUIRED})"));
    rep.assume("tampering = rewriting the `_block` bytes (or the whole entry) of `chain:block:<h>` in the store of a live TensorChain; the in-memory height/tip of that instance are trusted; reopening a truncated store is not examined");


    // Parts S and T run in worker processes (S: replay BFS per configuration x first operation; T: vsched)
    let t = env::real_now_s();
    let nprog = programs(thorough).len();
    let claims = format!("{}/claims", env::scratch_root());
    std::fs::create_dir_all(&claims).expect("claims dir");
    let results: Vec<WStats> = par::spawn_workers(par::worker_count().min(tasks(thorough).len()), &[format!("--claims={claims}")]);
    let claimed = std::fs::read_dir(&claims).map(|d| d.count()).unwrap_or(0);
    if claimed != tasks(thorough).len() {
        rep.machinery(format!("{claimed} of {} tasks were run", tasks(thorough).len()));
    }
    let st_wall = env::real_now_s() - t;
    let mut tt = WStats::default();
    let mut state_hashes: HashSet<u64> = HashSet::new();
    let mut restart_hashes: HashSet<u64> = HashSet::new();
    let mut s = SeqOut::default();
    let mut seq_seen: HashSet<String> = HashSet::new();
    let mut all_viol: Vec<nvc::report::ViolationRec> = vec![];
    // task-to-worker assignment is dynamic: everything below is merged order-independently
    for w in results {
        tt.tasks += w.tasks;
        tt.executions += w.executions;
        tt.sched_points += w.sched_points;
        tt.max_points = tt.max_points.max(w.max_points);
        for (k, v) in w.by_preemptions {
            *tt.by_preemptions.entry(k).or_default() += v;
        }
        for (k, v) in w.outcomes {
            tt.outcomes.entry(k).or_default().extend(v);
        }
        tt.violation_total += w.violation_total;
        all_viol.extend(w.violations);
        if tt.sample.is_none() {
            tt.sample = w.sample;
        }
        if let Some(m) = w.machinery {
            rep.machinery(m);
        }
        state_hashes.extend(w.seq.state_hashes.iter().copied());
        s.transitions += w.seq.transitions;
        s.violating += w.seq.violating;
        s.commits_ok += w.seq.commits_ok;
        s.commits_err += w.seq.commits_err;
        s.merges_unvalidated += w.seq.merges_unvalidated;
        s.merges_validated += w.seq.merges_validated;
        s.merges_rejected += w.seq.merges_rejected;
        s.merges_rejected_with_writes += w.seq.merges_rejected_with_writes;
        s.bases_clean.extend(w.seq.bases_clean);
        s.bases_crash.extend(w.seq.bases_crash);
        s.tasks.extend(w.seq.tasks);
        if deeper(&w.seq.deepest, &s.deepest) {
            s.deepest = w.seq.deepest.clone();
        }
        all_viol.extend(w.seq.violations);
        s.seqs.extend(w.seq.seqs);
    }
    // S, restart pass: second round of workers over the bases of all tasks
    let t = env::real_now_s();
    let rjobs = restart_jobs(std::mem::take(&mut s.bases_clean), std::mem::take(&mut s.bases_crash));
    let jobs_file = format!("{}/restart-jobs.json", env::scratch_root());
    std::fs::write(&jobs_file, serde_json::to_string(&rjobs).unwrap()).expect("write restart jobs");
    let rresults: Vec<SeqOut> = par::spawn_workers(par::worker_count().min(rjobs.len().max(1)), &[format!("--restart-jobs={jobs_file}")]);
    for w in rresults {
        let (ro, wr) = (&mut s.restart, w.restart);
        restart_hashes.extend(wr.state_hashes);
        for (k, v) in wr.restarts_by_kind {
            *ro.restarts_by_kind.entry(k).or_default() += v;
        }
        ro.paths += wr.paths;
        ro.paths_inapplicable += wr.paths_inapplicable;
        ro.steps += wr.steps;
        ro.violating_paths += wr.violating_paths;
        ro.walked_forward += wr.walked_forward;
        ro.interrupted_counts_as_committed += wr.interrupted_counts_as_committed;
        ro.interrupted_counts_as_not_committed += wr.interrupted_counts_as_not_committed;
        ro.uncommitted_writes_kept += wr.uncommitted_writes_kept;
        ro.blocks_after_restart += wr.blocks_after_restart;
        ro.blocks_after_walk_forward += wr.blocks_after_walk_forward;
        ro.wall_s_sum += wr.wall_s_sum;
        all_viol.extend(w.violations);
    }
    let restart_wall = env::real_now_s() - t;
    // shortest counterexample first, at most 3 artefacts per signature
    all_viol.sort_by_key(|v| (v.signature.clone(), v.message.len(), v.message.clone()));
    let mut per_sig: BTreeMap<String, usize> = BTreeMap::new();
    for v in all_viol {
        let n = per_sig.entry(v.signature.clone()).or_default();
        *n += 1;
        if *n <= 3 {
            // totals per part are in coverage.parts; which worker ran which task must not show here
            rep.violation(v.signature, v.message, v.replay);
        }
    }
    s.tasks.sort_by_key(|t| t.to_string());
    let s_states = state_hashes.len() as u64 + configs().len() as u64; // + the empty history of each configuration
    let restart_states = restart_hashes.len() as u64;
    // one representative history per distinct block sequence: the smallest in a fixed order
    s.seqs.sort_by_key(|x| (x.1.len(), format!("{:?}", x.1), format!("{:?}", x.0)));
    s.seqs.retain(|x| seq_seen.insert(x.2.clone()));
    rep.part("S", json!({"depth": depth, "tasks": s.tasks, "distinct_states": s_states, "transitions": s.transitions, "violating_transitions": s.violating, "commits_creating_a_block": s.commits_ok, "commits_without_block": s.commits_err, "commits_merging_the_other_workspace(empty codebook)": s.merges_unvalidated, "commits_merging_the_other_workspace(validator accepted)": s.merges_validated, "commits_whose_merge_candidate_the_validator_rejected": s.merges_rejected, "..of which the rejected candidate had writes": s.merges_rejected_with_writes, "wall_s_together_with_T": st_wall,
        "restart": {"continuation_macros": restart_macros(thorough), "continuation_length": restart_len(thorough), "continuation_paths_per_restart": restart_paths(thorough, 0).len(), "continuation_paths_per_crash_without_block_record": restart_paths(thorough, 1).len(), "(history, restart step) pairs by kind": s.restart.restarts_by_kind, "paths_run": s.restart.paths, "paths_dropped_as_inapplicable": s.restart.paths_inapplicable, "steps_executed_with_battery": s.restart.steps, "distinct_states_at_or_after_a_restart": restart_states, "violating_paths": s.restart.violating_paths, "wall_s": restart_wall, "wall_s_summed_over_workers": s.restart.wall_s_sum, "crash_reopens_that_adopted_a_stored_block_ahead_of_the_height_record": s.restart.walked_forward, "block_creating_steps_after_a_restart": s.restart.blocks_after_restart, "..of which after such an adoption": s.restart.blocks_after_walk_forward, "interrupted_operation_counts_as_committed": s.restart.interrupted_counts_as_committed, "interrupted_operation_counts_as_not_committed": s.restart.interrupted_counts_as_not_committed, "observation (not a violation): crash images holding user-key writes of a commit whose block was never stored, left in the store by the re-open": s.restart.uncommitted_writes_kept}}));
    rep.sample(json!({"part":"S","deepest_new_state_history": s.deepest}));
    let single: Vec<&String> = tt.outcomes.iter().filter(|(_, v)| v.len() < 2).map(|(k, _)| k).collect();
    // artefacts are capped (8 per schedule-tree partition, 3 per signature); the outcome sets are not
    let symptoms: BTreeSet<String> = tt.outcomes.values().flatten().filter_map(|o| o.rsplit('|').next().filter(|x| x.starts_with("VIOLATION") || x.starts_with('<')).map(str::to_string)).collect();
    let nontrivial_t: u64 = tt.by_preemptions.iter().filter(|(k, _)| **k > 0).map(|(_, v)| *v).sum();
    rep.part("T", json!({"programs": nprog, "preemption_bound": bound, "schedules_executed": tt.executions, "scheduling_points": tt.sched_points, "max_points_per_execution": tt.max_points, "schedules_by_preemptions": tt.by_preemptions, "distinct_outcomes_per_program": tt.outcomes.iter().map(|(k, v)| (k.clone(), v.len())).collect::<BTreeMap<_, _>>(), "programs_with_a_single_outcome": single, "violation_symptoms_seen_in_any_schedule": symptoms, "violating_schedules": tt.violation_total, "wall_s_together_with_S": st_wall}));
    if let Some(x) = tt.sample.clone() {
        rep.sample(x);
    }
    if !single.is_empty() || tt.outcomes.len() != nprog {
        rep.machinery(format!("vacuous: programs with a single outcome: {single:?} ({} of {nprog} programs reported)", tt.outcomes.len()));
    }

    // Part X
    let t = env::real_now_s();
    let x = part_x(true);
    if let Some(m) = &x.machinery {
        rep.machinery(m.clone());
    }
    for (sig, msg, r) in &x.violations {
        rep.violation(sig.clone(), msg.clone(), r.clone());
    }
    rep.part("X", json!({"cases": x.cases, "field_mutations": x.field_mutations, "removals_swaps_forgeries": x.structural, "bit_flips": x.bitflips, "bit_flips_undecodable": x.bitflips_decode_fail, "bit_flips_decoding_to_the_same_block": x.benign_equal, "detected": x.detected, "undetected": x.undetected, "undetected_cases": x.undetected_list, "wall_s": env::real_now_s() - t}));
    rep.sample(json!({"part":"X","chain":"genesis + [put a] + [put b, delete a | delta e3] + [put a, put c, delete b]","example_case":"block 2: tx 1 payload/kind altered, tx_root recomputed"}));

    // Part R
    let t = env::real_now_s();
    let seqs: Vec<BlockSeq> = s.seqs.par_iter().map(|(c, h, _)| block_seq(*c, h)).collect();
    let r = part_r(&seqs);
    for (sig, msg, rp) in &r.violations {
        rep.violation(sig.clone(), msg.clone(), rp.clone());
    }
    rep.part("R", json!({"distinct_block_sequences": seqs.len(), "cases (sequence x scenario)": r.sequences, "blocks_applied": r.blocks_applied, "blocks_accepted_by_replica_A": r.accepted_a, "root_comparisons": r.comparisons, "violating_cases": r.violating, "passing_cases_by_scenario(0=twin,1=later apply,2=later creation,3=other id)": r.passing_by_scenario, "wall_s": env::real_now_s() - t}));
    if let Some(bs) = seqs.last() {
        rep.sample(json!({"part":"R","ops": bs.hist, "blocks": bs.blocks.iter().map(|b| format!("{:?}", b.transactions)).collect::<Vec<_>>()}));
    }

    rep.add("states", s_states + restart_states + tt.executions + x.cases + r.comparisons);
    rep.add("transitions", s.transitions + s.restart.steps + tt.sched_points + x.cases + r.blocks_applied);
    rep.add("traces_validated_against_impl", s.transitions + s.restart.steps + tt.executions + x.cases + r.sequences);
    rep.add("evaluations", s.transitions + s.restart.steps + tt.executions + x.cases + r.comparisons);
    rep.add("distinct_nontrivial", s_states + restart_states + nontrivial_t + x.cases + r.comparisons);
    let by_kind = |k: u8| s.restart.restarts_by_kind.get(restart_kind(k)).copied().unwrap_or(0);
    if by_kind(0) < 20 || by_kind(1) == 0 || by_kind(2) < 20 || by_kind(3) == 0 {
        rep.machinery(format!("vacuous: restart kinds not all exercised: {:?}", s.restart.restarts_by_kind));
    }
    // (a path that ends in a violation was exercised: it must not turn a detection into "vacuous")
    if s.restart.walked_forward == 0 || s.restart.blocks_after_walk_forward + s.restart.violating_paths == 0 || s.restart.blocks_after_restart + s.restart.violating_paths < 100 {
        rep.machinery(format!("vacuous: restart recovery paths not exercised (re-opens adopting a stored block ahead of the height record {}, block-creating steps after those {}, after any restart {})", s.restart.walked_forward, s.restart.blocks_after_walk_forward, s.restart.blocks_after_restart));
    }
    if s_states < 200 {
        rep.machinery("vacuous: too few sequential states");
    }
    if s.commits_ok < 10 || seqs.is_empty() {
        rep.machinery("vacuous: (almost) no commit created a block");
    }
    if s.merges_rejected_with_writes == 0 || s.merges_validated == 0 || s.merges_unvalidated == 0 {
        rep.machinery(format!("vacuous: auto-merge paths not all exercised (merged under empty codebook {}, validator accepted {}, validator rejected a candidate with writes {})", s.merges_unvalidated, s.merges_validated, s.merges_rejected_with_writes));
    }
    if r.accepted_a == 0 {
        rep.machinery("vacuous: no replica accepted any block");
    }
    if x.detected < 100 {
        rep.machinery("vacuous: tamper enumeration detected almost nothing");
    }
    rep.finish();
}
