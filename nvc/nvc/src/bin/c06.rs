//! C06 — similarity search returns the true nearest stored vectors (DESIGN §C06).
//!
//! Everything executed is the real `vector_engine::VectorEngine` / `tensor_store::HNSWIndex`; the only model
//! is a `BTreeMap` of what was stored plus f64 recomputation of the scores.
//!
//! Part R : read-back — every vector over a 13-value alphabet (±0, ±1, ±1e-7, 0.5, NaN, ±inf, min-positive,
//!          subnormal, MAX) of dimension ≤D through every store path, read back by value.
//! Part E : data sets — every multiset of ≤S vectors of the grid {-1,0,1}^2 ∪ {-1,0,1}^3 (zero, duplicates,
//!          sparse, mixed dimension included), every non-zero grid query, k∈{1,2,n,n+1}, each metric, in the
//!          default collection and in a named collection per metric; then the same with the index cached.
//! Part S : op sequences in the default collection over every mutator that reaches `emb:` keys
//!          (store / store-with-metadata / delete / batch store / batch delete / clear / build index),
//!          full search battery after every step.
//! Part F : metadata-filter sequences over 4 keys (default and named collection).
//! Part C : op sequences in a named collection (store / store-with-metadata / delete / delete_collection /
//!          cache an index built by the harness), per collection metric.
//! Part H : HNSWIndex directly: every insert sequence over the grid, search / search_with_ef.
//!
//! Configuration dimension (`Cfg`): every field of `VectorEngineConfig` that switches a code path gets an engine
//! built with a value that makes the switch fire on tiny stores (parallel_threshold=2, max_keys_per_scan=2/1,
//! max_dimension=2, sparse_threshold=0/1, batch_parallel_threshold=2, search_timeout=1h, all at once). Parts
//! R / E / S / F / C / N run again on those engines (the part each configuration can influence, see `explore_all`).
//! Part K : compute_similarity over every pair of grid vectors.
//! Part M : metadata mutators (update_metadata / remove_metadata_field) between filtered searches.
//! Part N : entity embeddings (set_entity_embedding / remove_entity_embedding / search_entities[_paginated]).
//! Part P : persistence as a store path (save_index[_binary] / load_index[_binary]) in both worlds.
//! Part X : indexes held by the caller (build_hnsw_index* + search_with_hnsw[_and_metric], build_ivf_index* +
//!          search_with_ivf[_nprobe]) over every multiset of grid vectors.
//! After every step of the sequence parts (`Battery::listings`; off in the largest default-configuration runs, whose
//! alphabets are listed one level lower) the listing functions (list_keys*, count, exists, list_keys_paginated,
//! list_keys_matching, count_matching, list_collection_keys, collection_count, …) are compared with the reference.
use nvc::Report;
use rayon::prelude::*;
use serde_json::{json, Value};
use std::cell::Cell;
use std::collections::{BTreeMap, BTreeSet, HashMap, HashSet};
use std::hash::{Hash, Hasher};
use std::panic::{catch_unwind, AssertUnwindSafe};
use std::sync::atomic::{AtomicU8, Ordering as AO};
use std::sync::Arc;
use tensor_store::{HNSWConfig, HNSWDistanceMetric, HNSWIndex, ScalarValue, SparseVector, TensorValue};
use vector_engine::{
    DistanceMetric, EmbeddingInput, ExtendedDistanceMetric, FilterCondition, FilterValue, FilteredSearchConfig, HNSWBuildOptions, HNSWStorageStrategy, IVFBuildOptions, Pagination, SearchResult, VectorCollectionConfig, VectorEngine,
    VectorEngineConfig,
};

thread_local! { static QUIET: Cell<bool> = const { Cell::new(false) }; }
/// 0 = normal; 1 = oracle computes euclidean score as 1/(1+d²); 2 = oracle forgets deletes (model keeps deleted keys)
static SELFTEST: AtomicU8 = AtomicU8::new(0);

const COLL: &str = "col";
const KEYS: [&str; 4] = ["a", "b", "c", "d"];
const TAGS: [&str; 2] = ["x", "y"];
const SCORE_TOL: f64 = 1e-5;
const TIE_TOL: f64 = 1e-6;

fn guarded<T>(f: impl FnOnce() -> T) -> Result<T, String> {
    QUIET.with(|q| q.set(true));
    let r = catch_unwind(AssertUnwindSafe(f));
    QUIET.with(|q| q.set(false));
    r.map_err(|p| p.downcast_ref::<String>().cloned().or_else(|| p.downcast_ref::<&str>().map(|s| (*s).to_string())).unwrap_or_else(|| "panic".into()))
}

// ------------------------------------------------------------------ metrics and the reference scores
#[derive(Clone, Copy, PartialEq, Eq, Debug, Hash, PartialOrd, Ord)]
enum M {
    Cos,
    Dot,
    Euc,
}
impl M {
    fn name(self) -> &'static str {
        match self {
            M::Cos => "cos",
            M::Dot => "dot",
            M::Euc => "euc",
        }
    }
    fn parse(s: &str) -> Option<M> {
        [M::Cos, M::Dot, M::Euc].into_iter().find(|m| m.name() == s)
    }
    fn engine(self) -> DistanceMetric {
        match self {
            M::Cos => DistanceMetric::Cosine,
            M::Dot => DistanceMetric::DotProduct,
            M::Euc => DistanceMetric::Euclidean,
        }
    }
    fn hnsw(self) -> HNSWDistanceMetric {
        match self {
            M::Cos => HNSWDistanceMetric::Cosine,
            M::Dot => HNSWDistanceMetric::DotProduct,
            M::Euc => HNSWDistanceMetric::Euclidean,
        }
    }
}

/// reference score in f64; `None` where the metric defines none (cosine against a zero vector)
fn true_score(m: M, q: &[f32], v: &[f32]) -> Option<f64> {
    debug_assert_eq!(q.len(), v.len());
    let dot: f64 = q.iter().zip(v).map(|(a, b)| f64::from(*a) * f64::from(*b)).sum();
    match m {
        M::Cos => {
            let nq: f64 = q.iter().map(|a| f64::from(*a).powi(2)).sum::<f64>().sqrt();
            let nv: f64 = v.iter().map(|a| f64::from(*a).powi(2)).sum::<f64>().sqrt();
            if nq == 0.0 || nv == 0.0 {
                None
            } else {
                Some(dot / (nq * nv))
            }
        }
        M::Dot => Some(dot),
        M::Euc => {
            let d2: f64 = q.iter().zip(v).map(|(a, b)| (f64::from(*a) - f64::from(*b)).powi(2)).sum();
            if SELFTEST.load(AO::Relaxed) == 1 {
                Some(1.0 / (1.0 + d2))
            } else {
                Some(1.0 / (1.0 + d2.sqrt()))
            }
        }
    }
}

fn vec_eq(a: &[f32], b: &[f32]) -> bool {
    a.len() == b.len() && a.iter().zip(b).all(|(x, y)| if x.is_nan() || y.is_nan() { x.to_bits() == y.to_bits() } else { x == y })
}

fn grid(d: usize) -> Vec<Vec<f32>> {
    let mut out = vec![vec![]];
    for _ in 0..d {
        let mut next = vec![];
        for p in &out {
            for x in [0.0f32, 1.0, -1.0] {
                let mut t: Vec<f32> = p.clone();
                t.push(x);
                next.push(t);
            }
        }
        out = next;
    }
    out
}
fn nonzero(v: Vec<Vec<f32>>) -> Vec<Vec<f32>> {
    v.into_iter().filter(|x| x.iter().any(|c| *c != 0.0)).collect()
}

// ------------------------------------------------------------------ engine configurations
/// One value per `VectorEngineConfig` field that switches a code path (fields that no code reads — `default_metric`,
/// `default_dimension` — and the two load limits `max_index_file_bytes` / `max_index_entries`, which only reject, have none).
#[derive(Clone, Copy, PartialEq, Eq, Debug, Hash, PartialOrd, Ord)]
enum Cfg {
    /// `VectorEngine::new()`
    Default,
    /// parallel_threshold = 2: `search_parallel` / `search_parallel_with_metric` from two stored embeddings on
    Par2,
    /// max_keys_per_scan = 2: bounded list_keys / clear / index build / pre-filter
    Scan2,
    /// max_keys_per_scan = 1
    Scan1,
    /// max_dimension = 2: stores of 3-d vectors are rejected, 3-d queries answer DimensionMismatch
    MaxDim2,
    /// sparse_threshold = 0.0: every vector takes the sparse representation
    SparseAll,
    /// sparse_threshold = 1.0: only all-zero vectors take the sparse representation
    SparseNone,
    /// batch_parallel_threshold = 2: batch_store_embeddings stores through rayon
    BatchPar2,
    /// search_timeout = 1 h: every deadline branch runs, none fires
    Timeout,
    /// everything above at once (scan bound 2, sparse everything)
    Combo,
}
const NCFG: usize = 10;
impl Cfg {
    const ALL: [Cfg; NCFG] = [Cfg::Default, Cfg::Par2, Cfg::Scan2, Cfg::Scan1, Cfg::MaxDim2, Cfg::SparseAll, Cfg::SparseNone, Cfg::BatchPar2, Cfg::Timeout, Cfg::Combo];
    fn name(self) -> &'static str {
        match self {
            Cfg::Default => "default",
            Cfg::Par2 => "par2",
            Cfg::Scan2 => "scan2",
            Cfg::Scan1 => "scan1",
            Cfg::MaxDim2 => "maxdim2",
            Cfg::SparseAll => "sparse-all",
            Cfg::SparseNone => "sparse-none",
            Cfg::BatchPar2 => "batchpar2",
            Cfg::Timeout => "timeout1h",
            Cfg::Combo => "combo",
        }
    }
    fn parse(s: &str) -> Option<Cfg> {
        Cfg::ALL.into_iter().find(|c| c.name() == s)
    }
    fn config(self) -> VectorEngineConfig {
        let d = VectorEngineConfig::default();
        let hour = std::time::Duration::from_secs(3600);
        match self {
            Cfg::Default => d,
            Cfg::Par2 => d.with_parallel_threshold(2),
            Cfg::Scan2 => d.with_max_keys_per_scan(2),
            Cfg::Scan1 => d.with_max_keys_per_scan(1),
            Cfg::MaxDim2 => d.with_max_dimension(2),
            Cfg::SparseAll => d.with_sparse_threshold(0.0),
            Cfg::SparseNone => d.with_sparse_threshold(1.0),
            Cfg::BatchPar2 => d.with_batch_parallel_threshold(2),
            Cfg::Timeout => d.with_search_timeout(hour),
            Cfg::Combo => d.with_parallel_threshold(2).with_max_keys_per_scan(2).with_sparse_threshold(0.0).with_batch_parallel_threshold(2).with_search_timeout(hour),
        }
    }
    fn engine(self) -> VectorEngine {
        if self == Cfg::Default {
            VectorEngine::new()
        } else {
            VectorEngine::with_config(self.config()).expect("valid engine configuration")
        }
    }
    fn scan_bound(self) -> Option<usize> {
        self.config().max_keys_per_scan
    }
    fn max_dim(self) -> Option<usize> {
        self.config().max_dimension
    }
}

// ------------------------------------------------------------------ worlds, ops, model
#[derive(Clone, Copy, PartialEq, Eq, Debug, Hash)]
enum World {
    Default,
    Named(M),
    /// embeddings kept in the `_embedding` field of entities (`set_entity_embedding` / `search_entities`)
    Entity,
}
impl World {
    fn name(self) -> String {
        match self {
            World::Default => "default".into(),
            World::Named(m) => format!("named:{}", m.name()),
            World::Entity => "entity".into(),
        }
    }
    fn short(self) -> &'static str {
        match self {
            World::Default => "default",
            World::Named(_) => "collection",
            World::Entity => "entity",
        }
    }
    fn parse(s: &str) -> Option<World> {
        if s == "default" {
            Some(World::Default)
        } else if s == "entity" {
            Some(World::Entity)
        } else {
            s.strip_prefix("named:").and_then(M::parse).map(World::Named)
        }
    }
}

#[derive(Clone, Debug, PartialEq)]
enum Op {
    Store(&'static str, Vec<f32>),
    StoreMeta(&'static str, Vec<f32>, &'static str),
    Delete(&'static str),
    BatchStore(Vec<(&'static str, Vec<f32>)>),
    BatchDelete(Vec<&'static str>),
    Clear,
    Build,
    /// update_metadata(key, {t: tag})
    SetTag(&'static str, &'static str),
    /// remove_metadata_field(key, "t")
    DropTag(&'static str),
    /// entity world only: store_embedding("a", [1,1]) — default-collection data an entity search must not see
    Noise,
    /// save_index + save_index_binary of the world's collection to scratch files
    Save,
    /// load_index (false) / load_index_binary (true) of the files written by the last Save of this history
    Load(bool),
}
fn skey(s: &str) -> Option<&'static str> {
    KEYS.iter().copied().find(|k| *k == s)
}
fn stag(s: &str) -> Option<&'static str> {
    TAGS.iter().copied().find(|k| *k == s)
}
fn jvec(v: &Value) -> Option<Vec<f32>> {
    v.as_array()?.iter().map(|x| x.as_f64().map(|f| f as f32)).collect()
}
impl Op {
    /// name of the repository function this op calls
    fn kind(&self, w: World) -> &'static str {
        match (self, w) {
            (Op::BatchStore(..), _) => "batch_store_embeddings",
            (Op::BatchDelete(..), _) => "batch_delete_embeddings",
            (Op::SetTag(..), _) => "update_metadata",
            (Op::DropTag(..), _) => "remove_metadata_field",
            (Op::Noise, _) => "store_embedding",
            (Op::Save, _) => "save_index",
            (Op::Load(false), _) => "load_index",
            (Op::Load(true), _) => "load_index_binary",
            (Op::Store(..), World::Default) => "store_embedding",
            (Op::StoreMeta(..), World::Default) => "store_embedding_with_metadata",
            (Op::Delete(..), World::Default) => "delete_embedding",
            (Op::Clear, World::Default | World::Entity) => "clear",
            (Op::Build, World::Default | World::Entity) => "build_and_cache_index",
            (Op::Store(..), World::Named(_)) => "store_in_collection",
            (Op::StoreMeta(..), World::Named(_)) => "store_in_collection_with_metadata",
            (Op::Delete(..), World::Named(_)) => "delete_from_collection",
            (Op::Clear, World::Named(_)) => "delete_collection",
            (Op::Build, World::Named(_)) => "cache_hnsw_index",
            (Op::Store(..) | Op::StoreMeta(..), World::Entity) => "set_entity_embedding",
            (Op::Delete(..), World::Entity) => "remove_entity_embedding",
        }
    }
    fn to_json(&self) -> Value {
        match self {
            Op::Store(k, v) => json!({"op":"store","key":k,"vec":v}),
            Op::StoreMeta(k, v, t) => json!({"op":"store_meta","key":k,"vec":v,"tag":t}),
            Op::Delete(k) => json!({"op":"delete","key":k}),
            Op::BatchStore(kv) => json!({"op":"batch_store","items":kv.iter().map(|(k,v)| json!({"key":k,"vec":v})).collect::<Vec<_>>()}),
            Op::BatchDelete(ks) => json!({"op":"batch_delete","keys":ks}),
            Op::Clear => json!({"op":"clear"}),
            Op::Build => json!({"op":"build_index"}),
            Op::SetTag(k, t) => json!({"op":"set_tag","key":k,"tag":t}),
            Op::DropTag(k) => json!({"op":"drop_tag","key":k}),
            Op::Noise => json!({"op":"noise"}),
            Op::Save => json!({"op":"save"}),
            Op::Load(bin) => json!({"op":"load","binary":bin}),
        }
    }
    fn from_json(v: &Value) -> Option<Op> {
        let key = || v.get("key").and_then(Value::as_str).and_then(skey);
        Some(match v.get("op")?.as_str()? {
            "store" => Op::Store(key()?, jvec(v.get("vec")?)?),
            "store_meta" => Op::StoreMeta(key()?, jvec(v.get("vec")?)?, stag(v.get("tag")?.as_str()?)?),
            "delete" => Op::Delete(key()?),
            "batch_store" => Op::BatchStore(v.get("items")?.as_array()?.iter().map(|i| Some((skey(i.get("key")?.as_str()?)?, jvec(i.get("vec")?)?))).collect::<Option<Vec<_>>>()?),
            "batch_delete" => Op::BatchDelete(v.get("keys")?.as_array()?.iter().map(|k| skey(k.as_str()?)).collect::<Option<Vec<_>>>()?),
            "clear" => Op::Clear,
            "build_index" => Op::Build,
            "set_tag" => Op::SetTag(key()?, stag(v.get("tag")?.as_str()?)?),
            "drop_tag" => Op::DropTag(key()?),
            "noise" => Op::Noise,
            "save" => Op::Save,
            "load" => Op::Load(v.get("binary")?.as_bool()?),
            _ => return None,
        })
    }
}

type Data = BTreeMap<&'static str, (Vec<f32>, Option<&'static str>)>;
#[derive(Clone)]
struct Model {
    data: Data,
    /// vectors the cached index was built from, and the metric of that index
    snap: Option<(BTreeMap<&'static str, Vec<f32>>, M)>,
    /// repository functions that changed the data since the index was cached
    since_build: Vec<&'static str>,
    /// values that were overwritten or deleted
    dead: Vec<(&'static str, Vec<f32>)>,
    /// metric of the named collection (cosine once its configuration is gone)
    metric: M,
    /// configuration the engine under test was built with
    cfg: Cfg,
    /// what the files written by the last Save hold (data and collection metric)
    saved: Option<(Data, M)>,
}
impl Model {
    fn new(w: World, cfg: Cfg) -> Model {
        Model { data: Data::new(), snap: None, since_build: vec![], dead: vec![], metric: if let World::Named(m) = w { m } else { M::Cos }, cfg, saved: None }
    }
    /// change of metadata only: the vector, and with it any index built from it, stays as it is
    fn retag(&mut self, k: &'static str, tag: Option<&'static str>) {
        if let Some(e) = self.data.get_mut(k) {
            e.1 = tag;
        }
    }
    fn vectors(&self) -> BTreeMap<&'static str, Vec<f32>> {
        self.data.iter().map(|(k, (v, _))| (*k, v.clone())).collect()
    }
    /// an index is cached and the data it was built from has not changed since
    fn cache_valid(&self) -> bool {
        self.snap.as_ref().is_some_and(|(s, m)| *m == self.metric && s.len() == self.data.len() && s.iter().all(|(k, v)| self.data.get(k).is_some_and(|(d, _)| vec_eq(d, v))))
    }
    fn put(&mut self, k: &'static str, v: &[f32], tag: Option<&'static str>, kind: &'static str) {
        let changed = !self.data.get(k).is_some_and(|(old, _)| vec_eq(old, v));
        if let Some((old, _)) = self.data.insert(k, (v.to_vec(), tag)) {
            if changed {
                self.dead.push((k, old));
            }
        }
        if changed {
            self.since_build.push(kind);
        }
    }
    fn del(&mut self, k: &'static str, kind: &'static str) {
        if SELFTEST.load(AO::Relaxed) == 2 {
            return;
        }
        if let Some((old, _)) = self.data.remove(k) {
            self.dead.push((k, old));
            self.since_build.push(kind);
        }
    }
    fn state_hash(&self) -> u64 {
        let mut h = std::collections::hash_map::DefaultHasher::new();
        for (k, (v, t)) in &self.data {
            k.hash(&mut h);
            for x in v {
                x.to_bits().hash(&mut h);
            }
            t.hash(&mut h);
        }
        self.metric.hash(&mut h);
        self.cfg.hash(&mut h);
        if let Some((d, m)) = &self.saved {
            m.hash(&mut h);
            for (k, (v, t)) in d {
                k.hash(&mut h);
                for x in v {
                    x.to_bits().hash(&mut h);
                }
                t.hash(&mut h);
            }
        }
        self.snap.is_some().hash(&mut h);
        self.cache_valid().hash(&mut h);
        self.since_build.hash(&mut h);
        h.finish()
    }
}

fn meta(tag: &str) -> HashMap<String, TensorValue> {
    let mut m = HashMap::new();
    m.insert("t".to_string(), TensorValue::Scalar(ScalarValue::String(tag.to_string())));
    m
}

/// scratch files of the Save / Load ops of the history running in this thread
fn save_paths() -> (String, String) {
    let root = nvc::env::scratch_root();
    let t: String = format!("{:?}", std::thread::current().id()).chars().filter(char::is_ascii_digit).collect();
    (format!("{root}/c06-{t}.json"), format!("{root}/c06-{t}.bin"))
}
fn remove_save_files() {
    let (j, b) = save_paths();
    let _ = std::fs::remove_file(j);
    let _ = std::fs::remove_file(b);
}

/// run `op` on the real engine and mirror its documented effect in the model
fn apply(e: &VectorEngine, w: World, op: &Op, model: &mut Model) -> Result<bool, String> {
    let kind = op.kind(w);
    let named = matches!(w, World::Named(_));
    let entity = w == World::Entity;
    match op {
        Op::Store(k, v) => {
            let r = match w {
                World::Named(_) => e.store_in_collection(COLL, k, v.clone()),
                World::Default => e.store_embedding(k, v.clone()),
                World::Entity => e.set_entity_embedding(k, v.clone()),
            };
            if r.is_ok() {
                model.put(k, v, None, kind);
            }
            Ok(r.is_ok())
        }
        Op::StoreMeta(k, v, t) => {
            if entity {
                return Ok(false);
            }
            let r = if named { e.store_in_collection_with_metadata(COLL, k, v.clone(), meta(t)) } else { e.store_embedding_with_metadata(k, v.clone(), meta(t)) };
            if r.is_ok() {
                model.put(k, v, Some(t), kind);
            }
            Ok(r.is_ok())
        }
        Op::Delete(k) => {
            let r = match w {
                World::Named(_) => e.delete_from_collection(COLL, k),
                World::Default => e.delete_embedding(k),
                World::Entity => e.remove_entity_embedding(k),
            };
            if r.is_ok() {
                model.del(k, kind);
            }
            Ok(r.is_ok())
        }
        Op::BatchStore(items) => {
            if w != World::Default {
                return Ok(false);
            }
            let r = e.batch_store_embeddings(items.iter().map(|(k, v)| EmbeddingInput::new(*k, v.clone())).collect());
            match r {
                Ok(_) => {
                    for (k, v) in items {
                        model.put(k, v, None, kind);
                    }
                    Ok(true)
                }
                // a failed batch may have stored a part of its items: the alphabets never ask for one
                Err(err) => Err(format!("batch_store_embeddings failed: {err}")),
            }
        }
        Op::BatchDelete(ks) => {
            if w != World::Default {
                return Ok(false);
            }
            let r = e.batch_delete_embeddings(ks.iter().map(|k| (*k).to_string()).collect());
            if r.is_ok() {
                for k in ks {
                    model.del(k, kind);
                }
            }
            Ok(r.is_ok())
        }
        Op::Clear => {
            if entity {
                return Ok(false);
            }
            let ks: Vec<&'static str> = model.data.keys().copied().collect();
            let ok = if named { e.delete_collection(COLL).is_ok() } else { e.clear().is_ok() };
            if ok {
                // with max_keys_per_scan set, clear() removes one page of at most that many embeddings ("call again
                // until 0 is returned"); which ones is unspecified, so the model follows the engine's choice
                let page_only = !named && model.cfg.scan_bound().is_some_and(|b| ks.len() > b);
                for k in ks {
                    if !page_only || !e.exists(k) {
                        model.del(k, kind);
                    }
                }
                if named {
                    model.metric = M::Cos;
                }
            }
            Ok(ok)
        }
        Op::SetTag(k, t) => {
            if w != World::Default {
                return Ok(false);
            }
            let r = e.update_metadata(k, meta(t));
            if r.is_ok() {
                model.retag(k, Some(t));
            }
            Ok(r.is_ok())
        }
        Op::DropTag(k) => {
            if w != World::Default {
                return Ok(false);
            }
            let r = e.remove_metadata_field(k, "t");
            if r.is_ok() {
                model.retag(k, None);
            }
            Ok(r.is_ok())
        }
        Op::Noise => Ok(e.store_embedding("a", vec![1.0, 1.0]).is_ok()),
        Op::Save => {
            if entity {
                return Ok(false);
            }
            let (j, b) = save_paths();
            let coll = if named { COLL } else { VectorEngine::DEFAULT_COLLECTION };
            e.save_index(coll, &j).map_err(|x| format!("save_index failed: {x}"))?;
            e.save_index_binary(coll, &b).map_err(|x| format!("save_index_binary failed: {x}"))?;
            model.saved = Some((model.data.clone(), model.metric));
            Ok(true)
        }
        Op::Load(bin) => {
            let Some((saved, metric)) = model.saved.clone() else {
                return Ok(false);
            };
            let (j, b) = save_paths();
            let r = if *bin { e.load_index_binary(&b) } else { e.load_index(&j) };
            match r {
                Ok(_) => {
                    for (k, (v, t)) in &saved {
                        model.put(k, v, *t, kind);
                    }
                    if named {
                        model.metric = metric;
                    }
                    Ok(true)
                }
                // a failed load may have restored a part of the file: never expected
                Err(err) => Err(format!("{kind} failed: {err}")),
            }
        }
        Op::Build => {
            if named {
                // the harness plays the user: build an index over what the collection returns now, cache it
                let mut keys = e.list_collection_keys(COLL);
                keys.sort();
                let vecs: Vec<Vec<f32>> = match keys.iter().map(|k| e.get_from_collection(COLL, k)).collect::<Result<_, _>>() {
                    Ok(v) => v,
                    Err(_) => return Ok(false),
                };
                if vecs.is_empty() || vecs.iter().any(|v| v.len() != vecs[0].len()) {
                    return Ok(false);
                }
                let idx = HNSWIndex::with_config(HNSWConfig::default().with_distance_metric(model.metric.hnsw()));
                for v in vecs {
                    idx.insert(v);
                }
                e.cache_hnsw_index(COLL, Arc::new(idx), keys);
                model.snap = Some((model.vectors(), model.metric));
                model.since_build.clear();
                Ok(true)
            } else {
                if entity {
                    return Ok(false);
                }
                let ok = guarded(|| e.build_and_cache_index(HNSWConfig::default()).is_ok())?;
                if ok {
                    model.snap = Some((model.vectors(), M::Cos));
                    model.since_build.clear();
                }
                Ok(ok)
            }
        }
    }
}

// VectorEngine::new() costs ~1 ms (slab allocation), about as much as a whole search battery, so engines are pooled
// and emptied between histories through the public API (cache invalidation, collection removal, deleting every store
// key). A used engine gets slower (the store's scan cost grows with the number of keys ever deleted), so an engine is
// retired after MAX_USES histories. Every node on which a violation is seen is re-run on a brand-new engine and only
// what is observed there is reported.
const MAX_USES: u32 = 24;
static POOL: [std::sync::Mutex<Vec<(VectorEngine, u32)>>; NCFG] = [const { std::sync::Mutex::new(Vec::new()) }; NCFG];
struct Lease(Option<(VectorEngine, u32)>, Cfg);
fn reset_engine(e: &VectorEngine) -> bool {
    e.invalidate_hnsw_cache("_default");
    e.invalidate_hnsw_cache(COLL);
    for c in e.list_collections() {
        let _ = e.delete_collection(&c);
    }
    for k in e.store().scan("") {
        let _ = e.store().delete(&k);
    }
    e.store().scan("").is_empty() && e.store().len() == 0 && e.list_collections().is_empty()
}
impl Lease {
    fn get(cfg: Cfg, fresh: bool) -> Lease {
        if !fresh {
            let got = POOL[cfg as usize].lock().unwrap().pop();
            if let Some((e, n)) = got {
                if guarded(|| reset_engine(&e)).unwrap_or(false) {
                    return Lease(Some((e, n + 1)), cfg);
                }
            }
        }
        Lease(Some((cfg.engine(), if fresh { u32::MAX } else { 0 })), cfg)
    }
}
impl std::ops::Deref for Lease {
    type Target = VectorEngine;
    fn deref(&self) -> &VectorEngine {
        &self.0.as_ref().unwrap().0
    }
}
impl Drop for Lease {
    fn drop(&mut self) {
        if let Some((e, n)) = self.0.take() {
            if n < MAX_USES {
                let mut p = POOL[self.1 as usize].lock().unwrap();
                if p.len() < 64 {
                    p.push((e, n));
                }
            }
        }
    }
}
/// engines of a configuration that is not used any more
fn drain_pool(cfg: Cfg) {
    POOL[cfg as usize].lock().unwrap().clear();
}

/// run a history on an empty engine
fn setup(e: &VectorEngine, w: World, cfg: Cfg, ops: &[Op]) -> Result<(Model, bool), String> {
    let mut model = Model::new(w, cfg);
    if let World::Named(m) = w {
        e.create_collection(COLL, VectorCollectionConfig::default().with_metric(m.engine())).map_err(|e| e.to_string())?;
    }
    let mut last = true;
    for op in ops {
        last = apply(e, w, op, &mut model)?;
    }
    Ok((model, last))
}

// ------------------------------------------------------------------ search APIs
#[derive(Clone, Copy, PartialEq, Eq, Debug)]
enum Filt {
    True,
    TagX,
}
#[derive(Clone, Copy, PartialEq, Eq, Debug)]
enum Strat {
    Auto,
    Pre,
    Post,
}
#[derive(Clone, Copy, PartialEq, Eq, Debug)]
enum Api {
    Similar,
    Metric(M),
    Filtered(Filt, Strat),
    InColl,
    FilteredColl(Filt, Strat),
    /// search_similar_paginated(q, k, Pagination { skip, limit })
    Paged(usize, Option<usize>),
    Entities,
    /// search_entities_paginated
    EntPaged(usize, Option<usize>),
}
fn page_name(skip: usize, limit: Option<usize>) -> String {
    format!("{skip}:{}", limit.map_or("none".to_string(), |l| l.to_string()))
}
fn page_parse(skip: &str, limit: &str) -> Option<(usize, Option<usize>)> {
    Some((skip.parse().ok()?, if limit == "none" { None } else { Some(limit.parse().ok()?) }))
}
impl Filt {
    fn name(self) -> &'static str {
        match self {
            Filt::True => "true",
            Filt::TagX => "tagx",
        }
    }
    fn cond(self) -> FilterCondition {
        match self {
            Filt::True => FilterCondition::True,
            Filt::TagX => FilterCondition::Eq("t".into(), FilterValue::String("x".into())),
        }
    }
    fn matches(self, tag: Option<&str>) -> bool {
        match self {
            Filt::True => true,
            Filt::TagX => tag == Some("x"),
        }
    }
}
impl Strat {
    fn name(self) -> &'static str {
        match self {
            Strat::Auto => "auto",
            Strat::Pre => "pre",
            Strat::Post => "post",
        }
    }
    fn cfg(self) -> Option<FilteredSearchConfig> {
        match self {
            Strat::Auto => None,
            Strat::Pre => Some(FilteredSearchConfig::pre_filter()),
            Strat::Post => Some(FilteredSearchConfig::post_filter()),
        }
    }
}
impl Api {
    fn name(self) -> String {
        match self {
            Api::Similar => "search_similar".into(),
            Api::Metric(m) => format!("search_similar_with_metric:{}", m.name()),
            Api::Filtered(f, s) => format!("search_similar_filtered:{}:{}", f.name(), s.name()),
            Api::InColl => "search_in_collection".into(),
            Api::FilteredColl(f, s) => format!("search_filtered_in_collection:{}:{}", f.name(), s.name()),
            Api::Paged(s, l) => format!("search_similar_paginated:{}", page_name(s, l)),
            Api::Entities => "search_entities".into(),
            Api::EntPaged(s, l) => format!("search_entities_paginated:{}", page_name(s, l)),
        }
    }
    fn func(self) -> &'static str {
        match self {
            Api::Similar => "search_similar",
            Api::Metric(_) => "search_similar_with_metric",
            Api::Filtered(..) => "search_similar_filtered",
            Api::InColl => "search_in_collection",
            Api::FilteredColl(..) => "search_filtered_in_collection",
            Api::Paged(..) => "search_similar_paginated",
            Api::Entities => "search_entities",
            Api::EntPaged(..) => "search_entities_paginated",
        }
    }
    /// (skip, limit) of the paginated variants
    fn page(self) -> Option<(usize, Option<usize>)> {
        match self {
            Api::Paged(s, l) | Api::EntPaged(s, l) => Some((s, l)),
            _ => None,
        }
    }
    fn is_entity(self) -> bool {
        matches!(self, Api::Entities | Api::EntPaged(..))
    }
    fn parse(s: &str) -> Option<Api> {
        let p: Vec<&str> = s.split(':').collect();
        let filt = |x: &str| [Filt::True, Filt::TagX].into_iter().find(|f| f.name() == x);
        let strat = |x: &str| [Strat::Auto, Strat::Pre, Strat::Post].into_iter().find(|f| f.name() == x);
        Some(match (p[0], p.len()) {
            ("search_similar", 1) => Api::Similar,
            ("search_similar_with_metric", 2) => Api::Metric(M::parse(p[1])?),
            ("search_similar_filtered", 3) => Api::Filtered(filt(p[1])?, strat(p[2])?),
            ("search_in_collection", 1) => Api::InColl,
            ("search_filtered_in_collection", 3) => Api::FilteredColl(filt(p[1])?, strat(p[2])?),
            ("search_similar_paginated", 3) => page_parse(p[1], p[2]).map(|(s, l)| Api::Paged(s, l))?,
            ("search_entities", 1) => Api::Entities,
            ("search_entities_paginated", 3) => page_parse(p[1], p[2]).map(|(s, l)| Api::EntPaged(s, l))?,
            _ => return None,
        })
    }
    fn filt(self) -> Filt {
        match self {
            Api::Filtered(f, _) | Api::FilteredColl(f, _) => f,
            _ => Filt::True,
        }
    }
    fn with_strat(self, s: Strat) -> Api {
        match self {
            Api::Filtered(f, _) => Api::Filtered(f, s),
            Api::FilteredColl(f, _) => Api::FilteredColl(f, s),
            o => o,
        }
    }
    fn metric(self, model: &Model) -> M {
        match self {
            Api::Similar | Api::Filtered(..) | Api::Paged(..) | Api::Entities | Api::EntPaged(..) => M::Cos,
            Api::Metric(m) => m,
            Api::InColl | Api::FilteredColl(..) => model.metric,
        }
    }
}

enum Outcome {
    Ok(Vec<SearchResult>),
    Err(String),
    Panic(String),
}
fn run_api(e: &VectorEngine, api: Api, q: &[f32], k: usize) -> Outcome {
    let r = guarded(|| match api {
        Api::Similar => e.search_similar(q, k),
        Api::Metric(m) => e.search_similar_with_metric(q, k, m.engine()),
        Api::Filtered(f, s) => e.search_similar_filtered(q, k, &f.cond(), s.cfg()),
        Api::InColl => e.search_in_collection(COLL, q, k),
        Api::FilteredColl(f, s) => e.search_filtered_in_collection(COLL, q, k, &f.cond(), s.cfg()),
        Api::Paged(skip, limit) => e.search_similar_paginated(q, k, Pagination { skip, limit, count_total: true }).map(|p| p.items),
        Api::Entities => e.search_entities(q, k),
        Api::EntPaged(skip, limit) => e.search_entities_paginated(q, k, Pagination { skip, limit, count_total: false }).map(|p| p.items),
    });
    match r {
        Ok(Ok(v)) => Outcome::Ok(v),
        Ok(Err(e)) => Outcome::Err(e.to_string()),
        Err(p) => Outcome::Panic(p),
    }
}

// ------------------------------------------------------------------ the two oracles
struct Fail {
    kind: &'static str,
    msg: String,
}
fn fail(kind: &'static str, msg: String) -> Option<Fail> {
    Some(Fail { kind, msg })
}

/// why `key` may not be returned: it is not among the candidates
fn classify_foreign(key: &str, model: &Model, q: &[f32], f: Filt) -> Fail {
    if let Some((v, tag)) = model.data.get(key) {
        if v.len() != q.len() {
            Fail { kind: "wrong-dimension", msg: format!("key {key} holds a {}-d vector, the query has {} dimensions: no score is defined", v.len(), q.len()) }
        } else {
            Fail { kind: "filter-mismatch", msg: format!("key {key} (tag {tag:?}) does not satisfy the filter {}", f.name()) }
        }
    } else if model.dead.iter().any(|(k, _)| *k == key) {
        Fail { kind: "deleted-key", msg: format!("key {key} was deleted and is returned") }
    } else {
        Fail { kind: "foreign-key", msg: format!("key {key} was never stored") }
    }
}

/// exact path: the k best live same-dimension (filter-matching) vectors, best first, true scores
fn check_exact(res: &[SearchResult], model: &Model, metric: M, q: &[f32], k: usize, f: Filt) -> Option<Fail> {
    let cands: Vec<(&str, &[f32], Option<f64>)> = model.data.iter().filter(|(_, (v, t))| v.len() == q.len() && f.matches(*t)).map(|(k, (v, _))| (*k, v.as_slice(), true_score(metric, q, v))).collect();
    let mut seen = BTreeSet::new();
    let mut trues: Vec<Option<f64>> = vec![];
    for r in res {
        let Some(c) = cands.iter().find(|c| c.0 == r.key) else {
            return Some(classify_foreign(&r.key, model, q, f));
        };
        if !seen.insert(r.key.clone()) {
            return fail("duplicate", format!("key {} returned twice", r.key));
        }
        if let Some(t) = c.2 {
            if !((f64::from(r.score) - t).abs() <= SCORE_TOL) {
                let stale = model.dead.iter().any(|(dk, dv)| *dk == r.key && dv.len() == q.len() && true_score(metric, q, dv).is_some_and(|o| (f64::from(r.score) - o).abs() <= SCORE_TOL));
                return fail(if stale { "overwritten-vector-score" } else { "score" }, format!("key {} reported score {} but the {} score of {:?} is {t}", r.key, r.score, metric.name(), c.1));
            }
        }
        trues.push(c.2);
    }
    let want = k.min(cands.len());
    if res.len() < want {
        return fail("too-few", format!("{} results, {} candidates, k={k}", res.len(), cands.len()));
    }
    if res.len() > want {
        return fail("too-many", format!("{} results for k={k}", res.len()));
    }
    for i in 0..trues.len() {
        for j in i + 1..trues.len() {
            if let (Some(a), Some(b)) = (trues[i], trues[j]) {
                if a + TIE_TOL < b {
                    return fail("order", format!("{} (score {a}) is listed before {} (score {b})", res[i].key, res[j].key));
                }
            }
        }
    }
    for c in &cands {
        if seen.contains(c.0) {
            continue;
        }
        if let Some(u) = c.2 {
            for (i, t) in trues.iter().enumerate() {
                if let Some(t) = t {
                    if *t + TIE_TOL < u {
                        return fail("not-top-k", format!("{} (score {t}) is returned but {} (score {u}) is not", res[i].key, c.0));
                    }
                }
            }
        }
    }
    None
}

/// exact path, one page: positions skip.. (at most `limit` of them) of the ranking cut at min(k, skip+limit)
#[allow(clippy::too_many_arguments)]
fn check_page(res: &[SearchResult], model: &Model, metric: M, q: &[f32], k: usize, f: Filt, skip: usize, limit: Option<usize>) -> Option<Fail> {
    let cands: Vec<(&str, &[f32], Option<f64>)> = model.data.iter().filter(|(_, (v, t))| v.len() == q.len() && f.matches(*t)).map(|(k, (v, _))| (*k, v.as_slice(), true_score(metric, q, v))).collect();
    let window = k.min(skip.saturating_add(limit.unwrap_or(k))).min(cands.len());
    let want = window.saturating_sub(skip).min(limit.unwrap_or(usize::MAX));
    let mut seen = BTreeSet::new();
    let mut trues: Vec<Option<f64>> = vec![];
    for r in res {
        let Some(c) = cands.iter().find(|c| c.0 == r.key) else {
            return Some(classify_foreign(&r.key, model, q, f));
        };
        if !seen.insert(r.key.clone()) {
            return fail("duplicate", format!("key {} returned twice", r.key));
        }
        if let Some(t) = c.2 {
            if !((f64::from(r.score) - t).abs() <= SCORE_TOL) {
                return fail("score", format!("key {} reported score {} but the {} score of {:?} is {t}", r.key, r.score, metric.name(), c.1));
            }
        }
        trues.push(c.2);
    }
    if res.len() < want {
        return fail("too-few", format!("{} results on the page, {} candidates, k={k}, skip={skip}, limit={limit:?}", res.len(), cands.len()));
    }
    if res.len() > want {
        return fail("too-many", format!("{} results on the page for k={k}, skip={skip}, limit={limit:?}", res.len()));
    }
    // with every score defined, the vector at rank r of any correct ranking has the r-th best score
    if cands.iter().all(|c| c.2.is_some()) {
        let mut sorted: Vec<f64> = cands.iter().filter_map(|c| c.2).collect();
        sorted.sort_by(|a, b| b.partial_cmp(a).unwrap_or(std::cmp::Ordering::Equal));
        for (i, t) in trues.iter().enumerate() {
            if let (Some(t), Some(want)) = (t, sorted.get(skip + i)) {
                if !((t - want).abs() <= TIE_TOL) {
                    return fail("page-rank", format!("{} (score {t}) is at rank {} where the score is {want}", res[i].key, skip + i));
                }
            }
        }
    }
    None
}

/// index path: every key currently indexed, true score, no duplicates, ordered, at most k
fn check_weak(res: &[SearchResult], model: &Model, metric: M, q: &[f32], k: usize, f: Filt) -> Option<Fail> {
    check_weak_by(res, model, metric.name(), &|v| true_score(metric, q, v), q, k, f)
}
/// the same with the score function given (`search_with_hnsw_and_metric` maps cosine to [0, 1])
fn check_weak_by(res: &[SearchResult], model: &Model, metric_name: &str, score: &dyn Fn(&[f32]) -> Option<f64>, q: &[f32], k: usize, f: Filt) -> Option<Fail> {
    if res.len() > k {
        return fail("too-many", format!("{} results for k={k}", res.len()));
    }
    let mut seen = BTreeSet::new();
    let mut prev: Option<(f32, Option<f64>)> = None;
    for r in res {
        let Some((v, tag)) = model.data.get(r.key.as_str()) else {
            return Some(classify_foreign(&r.key, model, q, f));
        };
        if v.len() != q.len() || !f.matches(*tag) {
            return Some(classify_foreign(&r.key, model, q, f));
        }
        if !seen.insert(r.key.clone()) {
            return fail("duplicate", format!("key {} returned twice", r.key));
        }
        let t = score(v);
        if let Some(t) = t {
            if !((f64::from(r.score) - t).abs() <= SCORE_TOL) {
                return fail("score", format!("key {} reported score {} but the {metric_name} score of {v:?} is {t}", r.key, r.score));
            }
        }
        if let Some((ps, pt)) = prev {
            let bad_reported = !(f64::from(ps) + TIE_TOL >= f64::from(r.score));
            let bad_true = matches!((pt, t), (Some(a), Some(b)) if a + TIE_TOL < b);
            if bad_reported || bad_true {
                return fail("order", format!("results not in descending score order at key {}", r.key));
            }
        }
        prev = Some((r.score, t));
    }
    None
}

/// which oracle applies: the index oracle while a cached index is valid, and for entity searches on an engine with a
/// scan bound (search_entities scans at most max_keys_per_scan store keys by explicit design: soundness only)
fn weak_for(api: Api, model: &Model) -> bool {
    model.cache_valid() || (api.is_entity() && model.cfg.scan_bound().is_some())
}
fn judge(out: &Outcome, weak: bool, model: &Model, api: Api, q: &[f32], k: usize) -> Option<Fail> {
    match out {
        Outcome::Ok(res) => match (weak, api.page()) {
            (true, None) => check_weak(res, model, api.metric(model), q, k, api.filt()),
            (true, Some((_, limit))) => check_weak(res, model, api.metric(model), q, limit.map_or(k, |l| l.min(k)), api.filt()),
            (false, None) => check_exact(res, model, api.metric(model), q, k, api.filt()),
            (false, Some((skip, limit))) => check_page(res, model, api.metric(model), q, k, api.filt(), skip, limit),
        },
        // documented: a query longer than max_dimension is rejected (nothing that long can be stored either)
        Outcome::Err(_) if model.cfg.max_dim().is_some_and(|m| q.len() > m) => None,
        Outcome::Err(e) => fail("error", format!("search failed: {e}")),
        Outcome::Panic(p) => fail("panic", format!("search panicked: {p}")),
    }
}

// ------------------------------------------------------------------ accumulation
#[derive(Default)]
struct Acc {
    nodes: u64,
    searches: u64,
    weak_checks: u64,
    exact_checks: u64,
    readbacks: u64,
    listings: u64,
    nontrivial_searches: u64,
    states: HashSet<u64>,
    nontrivial_states: HashSet<u64>,
    sparse_stored: u64,
    dense_stored: u64,
    builds_ok: u64,
    viol: BTreeMap<String, (u64, Vec<(usize, String, Value)>)>,
    sample: Option<Value>,
    machinery: Option<String>,
    /// nodes whose violation of this signature (seen on a pooled engine) did not show on a brand-new engine
    unconfirmed: BTreeMap<String, u64>,
}
impl Acc {
    /// keep an artefact without counting a case
    fn artefact(&mut self, sig: String, size: usize, msg: String, replay: Value) {
        let e = self.viol.entry(sig).or_default();
        e.1.push((size, msg, replay));
        e.1.sort_by_key(|x| x.0);
        e.1.truncate(3);
    }
    fn violation(&mut self, sig: String, size: usize, msg: String, replay: Value) {
        let e = self.viol.entry(sig).or_default();
        e.0 += 1;
        e.1.push((size, msg, replay));
        e.1.sort_by_key(|x| x.0);
        e.1.truncate(3);
    }
    /// would an artefact of this size be kept?
    fn wants(&self, sig: &str, size: usize) -> bool {
        self.viol.get(sig).is_none_or(|(_, a)| a.len() < 3 || a.iter().any(|x| x.0 > size))
    }
    fn count(&mut self, sig: String) {
        self.viol.entry(sig).or_default().0 += 1;
    }
    fn merge(&mut self, o: Acc) {
        self.nodes += o.nodes;
        self.searches += o.searches;
        self.weak_checks += o.weak_checks;
        self.exact_checks += o.exact_checks;
        self.readbacks += o.readbacks;
        self.listings += o.listings;
        self.nontrivial_searches += o.nontrivial_searches;
        self.states.extend(o.states);
        self.nontrivial_states.extend(o.nontrivial_states);
        self.sparse_stored += o.sparse_stored;
        self.dense_stored += o.dense_stored;
        self.builds_ok += o.builds_ok;
        for (sig, (n, arts)) in o.viol {
            let e = self.viol.entry(sig).or_default();
            e.0 += n;
            e.1.extend(arts);
            e.1.sort_by_key(|x| x.0);
            e.1.truncate(3);
        }
        if self.sample.is_none() {
            self.sample = o.sample;
        }
        if self.machinery.is_none() {
            self.machinery = o.machinery;
        }
        for (k, n) in o.unconfirmed {
            *self.unconfirmed.entry(k).or_default() += n;
        }
    }
}

struct Battery {
    queries: Vec<Vec<f32>>,
    apis: Vec<Api>,
    /// a Build op that failed (mixed dimensions) changes nothing: skip the searches of that node
    skip_failed_build: bool,
    /// compare the listing functions with the reference after every step
    listings: bool,
}
struct Ctx<'a> {
    part: &'a str,
    world: World,
    cfg: Cfg,
    battery: &'a Battery,
}

fn case_json(part: &str, w: World, cfg: Cfg, ops: &[Op], api: Api, q: &[f32], k: usize) -> Value {
    json!({"part": part, "world": w.name(), "cfg": cfg.name(), "ops": ops.iter().map(Op::to_json).collect::<Vec<_>>(), "api": api.name(), "query": q, "k": k})
}

/// decide the signature of a failed search by re-running variants on a fresh replay of the same history
#[allow(clippy::too_many_arguments)]
fn diagnose(e: &VectorEngine, w: World, ops: &[Op], model: &Model, api: Api, q: &[f32], k: usize, f: &Fail, out: &Outcome) -> String {
    let cfg = model.cfg;
    // does the same history pass on an engine with the default configuration (same data reached)?
    let config_specific = cfg != Cfg::Default && {
        let d = Lease::get(Cfg::Default, false);
        match setup(&d, w, Cfg::Default, ops) {
            Ok((m3, _)) if m3.data == model.data => judge(&run_api(&d, api, q, k), weak_for(api, &m3), &m3, api, q, k).is_none(),
            _ => {
                // a bounded clear() left other data behind than an unbounded one: compare on the same data instead
                let same_data: Vec<Op> = model.data.iter().map(|(k, (v, t))| t.map_or(Op::Store(k, v.clone()), |t| Op::StoreMeta(k, v.clone(), t))).collect();
                guarded(|| reset_engine(&d)) == Ok(true) && setup(&d, w, Cfg::Default, &same_data).is_ok_and(|(m4, _)| judge(&run_api(&d, api, q, k), weak_for(api, &m4), &m4, api, q, k).is_none())
            }
        }
    };
    // a filtered search that looked at one page of keys only? (which page depends on the store's hash order, so the
    // replays below may not reproduce it: decided by the comparison with the engine without the bound)
    if let (true, Some(b), Api::Filtered(..)) = (config_specific, cfg.scan_bound(), api) {
        if model.data.len() > b && matches!(f.kind, "too-few" | "not-top-k") {
            return "c06:scan-bound-truncates:search_similar_filtered".to_string();
        }
    }
    let uses_cache = !matches!(api, Api::Metric(_) | Api::Entities | Api::EntPaged(..));
    if model.cache_valid() && uses_cache && !config_specific {
        if matches!(f.kind, "wrong-dimension" | "panic") && model.snap.as_ref().is_some_and(|(s, _)| s.values().next().is_some_and(|v| v.len() != q.len())) {
            return format!("c06:cached-index-ignores-query-dimension:{}", w.short());
        }
        if let (Api::FilteredColl(fl, _), Outcome::Ok(res)) = (api, out) {
            if model.metric != M::Cos && check_weak(res, model, M::Cos, q, k, fl).is_none() {
                return "c06:collection-prefilter-ignores-metric".to_string();
            }
        }
        return format!("c06:cached-index:{}:{}", api.func(), f.kind);
    }
    // the history is replayed in a thread of its own, like the node's first run: with a scan bound, which keys a bounded
    // clear() or index build picks depends on the store's hash order, and that is a function of the thread's history
    let replayed = if guarded(|| reset_engine(e)) == Ok(true) { in_thread(|| setup(e, w, cfg, ops).ok()) } else { None };
    if let Some((m2, _)) = replayed {
        // 1. is a stale cached index the cause? (the replay fails as well, and passes once the cache is dropped)
        //    (asked twice: the store's scan order, and with it the order of tied results, may change from call to call)
        let passes = |e: &VectorEngine| judge(&run_api(e, api, q, k), weak_for(api, &m2), &m2, api, q, k).is_none();
        if model.snap.is_some() && !model.cache_valid() && uses_cache && !passes(e) {
            e.invalidate_hnsw_cache(if w == World::Default { "_default" } else { COLL });
            if passes(e) && passes(e) {
                let culprit = model.since_build.first().copied().unwrap_or("unknown");
                return format!("c06:stale-index-after-{culprit}");
            }
        }
        if config_specific {
            // one signature per configuration and entry point, whatever way the wrong answer shows
            return format!("c06:cfg-{}:{}:{}", cfg.name(), w.short(), api.func());
        }
        // 2. post-filter with bounded oversampling drops matching vectors?
        if let Api::Filtered(_, s) | Api::FilteredColl(_, s) = api {
            if s != Strat::Pre && matches!(f.kind, "too-few" | "not-top-k") {
                let pre = api.with_strat(Strat::Pre);
                if judge(&run_api(e, pre, q, k), false, &m2, pre, q, k).is_none() {
                    return format!("c06:postfilter-oversample-misses-matches:{}", w.short());
                }
            }
        }
        // 3. pre-filter in a collection scores by cosine whatever the collection metric is?
        if let Api::FilteredColl(fl, _) = api {
            if m2.metric != M::Cos {
                if let Outcome::Ok(res) = run_api(e, api, q, k) {
                    if check_exact(&res, &m2, M::Cos, q, k, fl).is_none() {
                        return "c06:collection-prefilter-ignores-metric".to_string();
                    }
                }
            }
        }
    }
    if config_specific {
        return format!("c06:cfg-{}:{}:{}", cfg.name(), w.short(), api.func());
    }
    format!("c06:{}:{}:{}", w.short(), api.func(), f.kind)
}

fn readback(e: &VectorEngine, w: World, model: &Model) -> Option<Fail> {
    for k in KEYS {
        let got = match w {
            World::Default => e.get_embedding(k).ok(),
            World::Named(_) => e.get_from_collection(COLL, k).ok(),
            World::Entity => e.get_entity_embedding(k).ok(),
        };
        match (model.data.get(k), got) {
            (None, None) => {}
            (Some((v, _)), Some(g)) => {
                if !vec_eq(v, &g) {
                    return fail("value-differs", format!("key {k}: stored {v:?}, read back {g:?}"));
                }
            }
            (Some((v, _)), None) => return fail("missing", format!("key {k}: stored {v:?}, not found")),
            (None, Some(g)) => return fail("deleted-key-readable", format!("key {k} was deleted or never stored but reads back {g:?}")),
        }
    }
    None
}

/// one listing compared with the reference: every key live (and matching), none twice, complete unless a scan bound
/// applies, never longer than `max_len`
fn list_check(func: &'static str, got: &[String], universe: &BTreeSet<&'static str>, model: &Model, complete: bool, max_len: Option<usize>) -> Option<(&'static str, Fail)> {
    let mut seen = BTreeSet::new();
    for k in got {
        if !universe.contains(k.as_str()) {
            let kind = if model.data.contains_key(k.as_str()) {
                "non-matching-key"
            } else if model.dead.iter().any(|(d, _)| *d == k.as_str()) {
                "deleted-key"
            } else {
                "foreign-key"
            };
            return Some((func, Fail { kind, msg: format!("{func} returned {got:?}; expected keys {universe:?}") }));
        }
        if !seen.insert(k.as_str()) {
            return Some((func, Fail { kind: "duplicate", msg: format!("{func} returned {got:?}") }));
        }
    }
    if complete && seen.len() != universe.len() {
        return Some((func, Fail { kind: "incomplete", msg: format!("{func} returned {got:?}; expected keys {universe:?}") }));
    }
    if max_len.is_some_and(|m| got.len() > m) {
        return Some((func, Fail { kind: "too-long", msg: format!("{func} returned {got:?}, more than {max_len:?}") }));
    }
    None
}
fn count_check(func: &'static str, got: usize, want: usize) -> Option<(&'static str, Fail)> {
    (got != want).then(|| (func, Fail { kind: "count-differs", msg: format!("{func} = {got}, {want} embeddings are stored") }))
}

/// every listing function of the world against the reference key set; returns the number of comparisons made
fn listings(e: &VectorEngine, w: World, model: &Model, n: &mut u64) -> Option<(&'static str, Fail)> {
    let live: BTreeSet<&'static str> = model.data.keys().copied().collect();
    let cnt = live.len();
    macro_rules! tick {
        ($e:expr) => {{
            *n += 1;
            if let Some(x) = $e {
                return Some(x);
            }
        }};
    }
    match w {
        World::Default => {
            let bound = model.cfg.scan_bound();
            let complete = bound.is_none_or(|b| cnt <= b);
            tick!(list_check("list_keys", &e.list_keys(), &live, model, complete, bound));
            tick!(list_check("list_keys_bounded", &e.list_keys_bounded(), &live, model, complete, bound));
            tick!(count_check("count", e.count(), cnt));
            for k in KEYS {
                tick!((e.exists(k) != live.contains(k)).then(|| ("exists", Fail { kind: "differs", msg: format!("exists({k}) = {}", e.exists(k)) })));
            }
            for (skip, limit) in [(0usize, Some(1usize)), (1, Some(1)), (2, Some(1)), (1, Some(2)), (1, None), (0, Some(cnt + 1))] {
                let with_total = skip == 0;
                let page = e.list_keys_paginated(Pagination { skip, limit, count_total: with_total });
                tick!(list_check("list_keys_paginated", &page.items, &live, model, false, limit));
                if bound.is_none() {
                    let want = cnt.saturating_sub(skip).min(limit.unwrap_or(usize::MAX));
                    tick!((page.items.len() != want).then(|| ("list_keys_paginated", Fail { kind: "page-size", msg: format!("skip={skip} limit={limit:?}: {:?} of {live:?}", page.items) })));
                }
                if with_total {
                    tick!((page.total_count != Some(cnt)).then(|| ("list_keys_paginated", Fail { kind: "count-differs", msg: format!("total_count = {:?}, {cnt} embeddings are stored", page.total_count) })));
                }
            }
            // (pages of successive calls are not compared with each other: the store's scan order may differ from call to
            // call, and nothing in the property promises stable pages)
            let tagged: BTreeSet<&'static str> = model.data.iter().filter(|(_, (_, t))| *t == Some("x")).map(|(k, _)| *k).collect();
            let matching = e.list_keys_matching(&Filt::TagX.cond());
            tick!(list_check("list_keys_matching", &matching, &tagged, model, complete, None));
            if complete {
                tick!(count_check("count_matching", e.count_matching(&Filt::TagX.cond()), tagged.len()));
            }
            let dim = e.dimension();
            tick!((dim.is_none() != live.is_empty() || dim.is_some_and(|d| !model.data.values().any(|(v, _)| v.len() == d))).then(|| ("dimension", Fail { kind: "differs", msg: format!("dimension() = {dim:?}") })));
        }
        World::Named(_) => {
            tick!(list_check("list_collection_keys", &e.list_collection_keys(COLL), &live, model, true, None));
            tick!(count_check("collection_count", e.collection_count(COLL), cnt));
            for k in KEYS {
                tick!((e.exists_in_collection(COLL, k) != live.contains(k)).then(|| ("exists_in_collection", Fail { kind: "differs", msg: format!("exists_in_collection({k}) = {}", e.exists_in_collection(COLL, k)) })));
            }
        }
        World::Entity => {
            let bound = model.cfg.scan_bound();
            tick!(list_check("scan_entities_with_embeddings", &e.scan_entities_with_embeddings(), &live, model, bound.is_none(), bound));
            if bound.is_none() {
                tick!(count_check("count_entities_with_embeddings", e.count_entities_with_embeddings(), cnt));
            }
            for k in KEYS {
                tick!((e.entity_has_embedding(k) != live.contains(k)).then(|| ("entity_has_embedding", Fail { kind: "differs", msg: format!("entity_has_embedding({k}) = {}", e.entity_has_embedding(k)) })));
            }
        }
    }
    None
}

fn ks_for(n: usize) -> Vec<usize> {
    let mut ks = vec![1, 2, n, n + 1];
    ks.retain(|k| *k > 0);
    ks.sort_unstable();
    ks.dedup();
    ks
}

/// One node = one history. The body runs in a thread of its own: std's per-thread hasher seed sequence then starts at
/// the same point for every node, so the key order of the store's scan (a HashSet) and with it the order of tied
/// results is a function of the history alone, not of which worker processed what before.
fn in_thread<T: Send>(f: impl FnOnce() -> T + Send) -> T {
    std::thread::scope(|s| std::thread::Builder::new().stack_size(512 * 1024).spawn_scoped(s, f).expect("spawn").join().expect("node thread panicked"))
}
fn check_node(ctx: &Ctx, ops: &[Op], acc: &mut Acc) {
    let mut local = Acc::default();
    {
        // engines are obtained outside the node thread so that pooled-or-new does not shift its hasher seed sequence
        let e = Lease::get(ctx.cfg, false);
        in_thread(|| node_body(ctx, ops, &mut local, &e));
    }
    let wanted = local.viol.keys().any(|sig| acc.wants(sig, ops.len()));
    if wanted {
        // re-run the whole node on a brand-new engine; artefacts are taken from that run only
        let mut fresh = Acc::default();
        {
            let e = Lease::get(ctx.cfg, true);
            in_thread(|| node_body(ctx, ops, &mut fresh, &e));
        }
        for sig in local.viol.keys() {
            if !fresh.viol.contains_key(sig) {
                *acc.unconfirmed.entry(sig.clone()).or_default() += 1;
            }
        }
        for (sig, (_, arts)) in std::mem::take(&mut fresh.viol) {
            for (size, msg, replay) in arts {
                if acc.wants(&sig, size) {
                    acc.artefact(sig.clone(), size, msg, replay);
                }
            }
        }
    }
    for (_, v) in local.viol.iter_mut() {
        v.1.clear();
    }
    acc.merge(local);
}
fn node_body(ctx: &Ctx, ops: &[Op], acc: &mut Acc, e: &VectorEngine) {
    node_inner(ctx, ops, acc, e);
    if ops.iter().any(|o| matches!(o, Op::Save)) {
        remove_save_files();
    }
}
fn node_inner(ctx: &Ctx, ops: &[Op], acc: &mut Acc, e: &VectorEngine) {
    // second engine for the diagnosis of a failed search: taken when first needed, in a thread of its own so that
    // pooled-or-new does not shift this thread's hasher seed sequence
    let mut diag: Option<Lease> = None;
    let w = ctx.world;
    let cfg = ctx.cfg;
    let (model, last_ok) = match setup(e, w, cfg, ops) {
        Ok(x) => x,
        Err(p) => {
            acc.machinery.get_or_insert(format!("mutator panicked or set-up failed on {:?}: {p}", ops));
            return;
        }
    };
    acc.nodes += 1;
    let sh = model.state_hash();
    acc.states.insert(sh);
    if matches!(ops.last(), Some(Op::Build)) && last_ok {
        acc.builds_ok += 1;
    }
    // representation reached by the last store
    if let Some(Op::Store(k, _) | Op::StoreMeta(k, _, _)) = ops.last() {
        let (sk, field) = match w {
            World::Default => (format!("emb:{k}"), "vector"),
            World::Named(_) => (format!("coll:{COLL}:emb:{k}"), "vector"),
            World::Entity => ((*k).to_string(), "_embedding"),
        };
        if let Ok(t) = e.store().get(&sk) {
            match t.get(field) {
                Some(TensorValue::Sparse(_)) => acc.sparse_stored += 1,
                Some(TensorValue::Vector(_)) => acc.dense_stored += 1,
                _ => {}
            }
        }
    }
    acc.readbacks += 1;
    if let Some(f) = readback(e, w, &model) {
        acc.violation(format!("c06:readback:{}:{}", w.short(), f.kind), ops.len(), format!("after {:?}: {}", ops, f.msg), json!({"part": ctx.part, "world": w.name(), "cfg": cfg.name(), "ops": ops.iter().map(Op::to_json).collect::<Vec<_>>(), "api": "readback"}));
    }
    if let Some((func, f)) = if ctx.battery.listings { listings(e, w, &model, &mut acc.listings) } else { None } {
        acc.violation(format!("c06:listing:{func}:{}", f.kind), ops.len(), format!("after {:?}: {}", ops, f.msg), json!({"part": ctx.part, "world": w.name(), "cfg": cfg.name(), "ops": ops.iter().map(Op::to_json).collect::<Vec<_>>(), "api": "listing"}));
    }
    if ctx.battery.skip_failed_build && matches!(ops.last(), Some(Op::Build)) && !last_ok {
        return;
    }
    let ks = ks_for(model.data.len());
    for &api in &ctx.battery.apis {
        for q in &ctx.battery.queries {
            let ncand = model.data.values().filter(|(v, t)| v.len() == q.len() && api.filt().matches(*t)).count();
            let weak = weak_for(api, &model);
            for &k in &ks {
                let out = run_api(e, api, q, k);
                acc.searches += 1;
                if weak {
                    acc.weak_checks += 1;
                } else {
                    acc.exact_checks += 1;
                }
                if ncand >= 2 {
                    acc.nontrivial_searches += 1;
                    acc.nontrivial_states.insert(sh);
                    if acc.sample.is_none() && k >= 2 {
                        if let Outcome::Ok(res) = &out {
                            if res.len() >= 2 && res[0].score != res[1].score {
                                let mut c = case_json(ctx.part, w, cfg, ops, api, q, k);
                                c["result"] = json!(res.iter().map(|r| json!([r.key, r.score])).collect::<Vec<_>>());
                                c["oracle"] = json!(if weak { "index" } else { "exact" });
                                acc.sample = Some(c);
                            }
                        }
                    }
                }
                if let Some(f) = judge(&out, weak, &model, api, q, k) {
                    let diag: &VectorEngine = diag.get_or_insert_with(|| in_thread(|| Lease::get(cfg, false)));
                    // in a thread of its own: whatever the diagnosis does must not shift this thread's hasher seed sequence
                    let sig = in_thread(|| diagnose(diag, w, ops, &model, api, q, k, &f, &out));
                    if !acc.wants(&sig, ops.len()) {
                        acc.count(sig);
                        continue;
                    }
                    let got = match &out {
                        Outcome::Ok(res) => json!(res.iter().map(|r| json!([r.key, r.score])).collect::<Vec<_>>()),
                        Outcome::Err(e) => json!({"error": e}),
                        Outcome::Panic(p) => json!({"panic": p}),
                    };
                    let mut c = case_json(ctx.part, w, cfg, ops, api, q, k);
                    c["got"] = got.clone();
                    c["live"] = json!(model.data.iter().map(|(k, (v, t))| json!({"key": k, "vec": v, "tag": t, "score": if v.len() == q.len() { true_score(api.metric(&model), q, v) } else { None }})).collect::<Vec<_>>());
                    c["oracle"] = json!(if weak { "index (cached, data unchanged)" } else { "exact" });
                    let msg = format!("{} {}(q={q:?}, k={k}) after {:?} returned {got}: {} [{}]", w.name(), api.name(), ops, f.msg, f.kind);
                    acc.violation(sig, ops.len(), msg, c);
                }
            }
        }
    }
}

fn dfs(ctx: &Ctx, alphabet: &[Op], depth: usize, seq: &mut Vec<Op>, acc: &mut Acc) {
    check_node(ctx, seq, acc);
    if seq.len() < depth {
        for a in alphabet {
            seq.push(a.clone());
            dfs(ctx, alphabet, depth, seq, acc);
            seq.pop();
        }
    }
}

/// every op sequence of length ≤ depth over `alphabet`, every node checked
fn explore(ctx: &Ctx, alphabet: &[Op], depth: usize) -> Acc {
    let mut total = Acc::default();
    let split = depth.min(2);
    // nodes shallower than the split level
    let mut shallow: Vec<Vec<Op>> = vec![vec![]];
    let mut frontier: Vec<Vec<Op>> = vec![vec![]];
    for level in 1..=split {
        let mut next = vec![];
        for s in &frontier {
            for a in alphabet {
                let mut t = s.clone();
                t.push(a.clone());
                next.push(t);
            }
        }
        if level < split {
            shallow.extend(next.iter().cloned());
        }
        frontier = next;
    }
    if split > 0 {
        for s in &shallow {
            check_node(ctx, s, &mut total);
        }
    }
    let accs: Vec<Acc> = frontier
        .par_iter()
        .map(|s| {
            let mut acc = Acc::default();
            let mut seq = s.clone();
            dfs(ctx, alphabet, depth, &mut seq, &mut acc);
            acc
        })
        .collect();
    for a in accs {
        total.merge(a);
    }
    total
}

fn multisets(n: usize, size: usize) -> Vec<Vec<usize>> {
    fn rec(n: usize, start: usize, left: usize, cur: &mut Vec<usize>, out: &mut Vec<Vec<usize>>) {
        if left == 0 {
            out.push(cur.clone());
            return;
        }
        for i in start..n {
            cur.push(i);
            rec(n, i, left - 1, cur, out);
            cur.pop();
        }
    }
    let mut out = vec![];
    rec(n, 0, size, &mut vec![], &mut out);
    out
}

/// Part E: every multiset of ≤ max_size vectors, stored under keys a,b,c,d; then with the index cached
fn part_sets(ctx: &Ctx, vectors: &[Vec<f32>], min_size: usize, max_size: usize) -> Acc {
    let mut sets = vec![];
    for s in min_size..=max_size {
        sets.extend(multisets(vectors.len(), s));
    }
    let accs: Vec<Acc> = sets
        .par_chunks(64)
        .map(|chunk| {
            let mut acc = Acc::default();
            for set in chunk {
                let mut ops: Vec<Op> = set.iter().enumerate().map(|(i, vi)| Op::Store(KEYS[i], vectors[*vi].clone())).collect();
                check_node(ctx, &ops, &mut acc);
                ops.push(Op::Build);
                check_node(ctx, &ops, &mut acc);
            }
            acc
        })
        .collect();
    let mut total = Acc::default();
    for a in accs {
        total.merge(a);
    }
    total
}

// ------------------------------------------------------------------ Part R: read-back
fn r_alphabet() -> Vec<f32> {
    vec![0.0, -0.0, 1.0, -1.0, 1e-7, -1e-7, 0.5, f32::NAN, f32::INFINITY, f32::NEG_INFINITY, f32::MIN_POSITIVE, f32::from_bits(1), f32::MAX]
}
const R_PATHS: [&str; 4] = ["store_embedding", "store_embedding_with_metadata", "batch_store_embeddings", "store_in_collection"];
/// returns (stored?, read back, sparse representation?)
fn r_case(e: &VectorEngine, path: &str, v: &[f32]) -> Result<(bool, Option<Vec<f32>>, bool), String> {
    guarded(|| {
        let stored = match path {
            "store_embedding" => e.store_embedding("r", v.to_vec()).is_ok(),
            "store_embedding_with_metadata" => e.store_embedding_with_metadata("r", v.to_vec(), meta("x")).is_ok(),
            "batch_store_embeddings" => e.batch_store_embeddings(vec![EmbeddingInput::new("r", v.to_vec())]).is_ok(),
            _ => e.store_in_collection(COLL, "r", v.to_vec()).is_ok(),
        };
        let named = path == "store_in_collection";
        let got = if named { e.get_from_collection(COLL, "r").ok() } else { e.get_embedding("r").ok() };
        let sk = if named { format!("coll:{COLL}:emb:r") } else { "emb:r".to_string() };
        let sparse = e.store().get(&sk).ok().is_some_and(|t| matches!(t.get("vector"), Some(TensorValue::Sparse(_))));
        if named {
            let _ = e.delete_from_collection(COLL, "r");
        } else {
            let _ = e.delete_embedding("r");
        }
        (stored, got, sparse)
    })
}
fn part_readback(cfg: Cfg, max_dim: usize) -> (Acc, u64) {
    let alpha = r_alphabet();
    let mut vecs: Vec<Vec<f32>> = vec![];
    for d in 1..=max_dim {
        let mut cur: Vec<Vec<f32>> = vec![vec![]];
        for _ in 0..d {
            cur = cur.iter().flat_map(|p| alpha.iter().map(move |x| { let mut t = p.clone(); t.push(*x); t })).collect();
        }
        vecs.extend(cur);
    }
    let accs: Vec<(Acc, u64)> = vecs
        .par_chunks(512)
        .map(|chunk| {
            let mut acc = Acc::default();
            let mut rejected = 0u64;
            let e = cfg.engine();
            for v in chunk {
                for path in R_PATHS {
                    acc.readbacks += 1;
                    let bits: Vec<u32> = v.iter().map(|x| x.to_bits()).collect();
                    let replay = json!({"part":"R","cfg":cfg.name(),"path":path,"bits":bits});
                    match r_case(&e, path, v) {
                        Err(p) => acc.violation(format!("c06:readback:{path}:panic"), v.len(), format!("{path}({v:?}) panicked: {p}"), replay),
                        Ok((false, _, _)) => rejected += 1,
                        Ok((true, got, sparse)) => {
                            if sparse {
                                acc.sparse_stored += 1;
                            } else {
                                acc.dense_stored += 1;
                            }
                            if acc.sample.is_none() && sparse && v.len() >= 3 && v.iter().any(|x| x.is_nan()) && v.iter().any(|x| x.to_bits() == (-0.0f32).to_bits()) {
                                acc.sample = Some(json!({"part":"R","cfg":cfg.name(),"path":path,"bits":bits,"vector":format!("{v:?}"),"representation":"sparse","read_back":format!("{got:?}")}));
                            }
                            if !got.as_ref().is_some_and(|g| vec_eq(g, v)) {
                                let rep_kind = if sparse { "sparse" } else { "dense" };
                                acc.violation(format!("c06:readback:{rep_kind}:value-differs"), v.len(), format!("{path}({v:?}) [{rep_kind}] read back {got:?}"), replay);
                            }
                        }
                    }
                }
            }
            (acc, rejected)
        })
        .collect();
    let mut total = Acc::default();
    let mut rej = 0;
    for (a, r) in accs {
        total.merge(a);
        rej += r;
    }
    total.nodes = vecs.len() as u64;
    (total, rej)
}

// ------------------------------------------------------------------ Part H: HNSWIndex directly
fn h_build(metric: M, sparse: bool, inserts: &[Vec<f32>]) -> Result<HNSWIndex, String> {
    guarded(|| {
        let idx = HNSWIndex::with_config(HNSWConfig::default().with_distance_metric(metric.hnsw()));
        for v in inserts {
            if sparse {
                idx.insert_sparse(SparseVector::from_dense(v));
            } else {
                idx.insert(v.clone());
            }
        }
        idx
    })
}
fn h_case(idx: &Result<HNSWIndex, String>, metric: M, inserts: &[Vec<f32>], q: &[f32], k: usize, ef: Option<usize>) -> Option<Fail> {
    let idx = match idx {
        Ok(i) => i,
        Err(p) => return fail("panic", format!("insert panicked: {p}")),
    };
    let out = guarded(|| match ef {
        None => idx.search(q, k),
        Some(ef) => idx.search_with_ef(q, k, ef),
    });
    let res = match out {
        Ok(r) => r,
        Err(p) => return fail("panic", format!("panicked: {p}")),
    };
    if res.len() > k {
        return fail("too-many", format!("{} results for k={k}", res.len()));
    }
    let mut seen = BTreeSet::new();
    let mut prev: Option<(f32, Option<f64>)> = None;
    for (id, score) in &res {
        let Some(v) = inserts.get(*id) else {
            return fail("foreign-id", format!("id {id} was never inserted"));
        };
        if !seen.insert(*id) {
            return fail("duplicate", format!("id {id} returned twice"));
        }
        let t = true_score(metric, q, v);
        if let Some(t) = t {
            if !((f64::from(*score) - t).abs() <= SCORE_TOL) {
                return fail("score", format!("id {id} = {v:?} reported {score}, true {} score {t}", metric.name()));
            }
        }
        if let Some((ps, pt)) = prev {
            if !(f64::from(ps) + TIE_TOL >= f64::from(*score)) || matches!((pt, t), (Some(a), Some(b)) if a + TIE_TOL < b) {
                return fail("order", format!("results not in descending order at id {id}: {res:?}"));
            }
        }
        prev = Some((*score, t));
    }
    None
}
fn part_hnsw(len2: usize, len3: usize) -> Acc {
    let mut seqs: Vec<Vec<Vec<f32>>> = vec![];
    for (d, maxlen) in [(2usize, len2), (3usize, len3)] {
        let g = grid(d);
        let mut frontier: Vec<Vec<Vec<f32>>> = vec![vec![]];
        for _ in 0..maxlen {
            frontier = frontier.iter().flat_map(|s| g.iter().map(move |v| { let mut t = s.clone(); t.push(v.clone()); t })).collect();
            seqs.extend(frontier.iter().cloned());
        }
    }
    let q2 = nonzero(grid(2));
    let q3 = nonzero(grid(3));
    let accs: Vec<Acc> = seqs
        .par_chunks(32)
        .map(|chunk| {
            let mut acc = Acc::default();
            for ins in chunk {
                acc.nodes += 1;
                let qs = if ins[0].len() == 2 { &q2 } else { &q3 };
                let distinct: BTreeSet<Vec<u32>> = ins.iter().map(|v| v.iter().map(|x| x.to_bits()).collect()).collect();
                for metric in [M::Cos, M::Dot, M::Euc] {
                    for sparse in [false, true] {
                        let idx = h_build(metric, sparse, ins);
                        for q in qs {
                            for k in ks_for(ins.len()) {
                                for ef in [None, Some(1), Some(k)] {
                                    acc.searches += 1;
                                    acc.weak_checks += 1;
                                    if distinct.len() >= 2 {
                                        acc.nontrivial_searches += 1;
                                    }
                                    if acc.sample.is_none() && ins.len() >= 3 && distinct.len() >= 3 && sparse && metric == M::Euc && k == ins.len() {
                                        if let Ok(i) = &idx {
                                            acc.sample = Some(json!({"part":"H","metric":metric.name(),"sparse":sparse,"inserts":ins,"query":q,"k":k,"ef":ef,"result":format!("{:?}", i.search(q, k))}));
                                        }
                                    }
                                    if let Some(f) = h_case(&idx, metric, ins, q, k, ef) {
                                        let replay = json!({"part":"H","metric":metric.name(),"sparse":sparse,"inserts":ins,"query":q,"k":k,"ef":ef});
                                        acc.violation(format!("c06:hnsw-index:{}:{}", if sparse { "sparse" } else { "dense" }, f.kind), ins.len(), format!("HNSWIndex[{}] inserts {ins:?} search(q={q:?},k={k},ef={ef:?}): {}", metric.name(), f.msg), replay);
                                    }
                                }
                            }
                        }
                    }
                }
            }
            acc
        })
        .collect();
    let mut total = Acc::default();
    for a in accs {
        total.merge(a);
    }
    total
}

// ------------------------------------------------------------------ Part X: indexes held by the caller
#[derive(Clone, Copy, PartialEq, Eq, Debug)]
enum XApi {
    /// build_hnsw_index(default) + search_with_hnsw
    HnswDense,
    /// build_hnsw_index_with_options(sparse_optimized = Auto storage) + search_with_hnsw
    HnswAuto,
    /// build_hnsw_index_default + search_with_hnsw
    HnswDefault,
    /// build_hnsw_index + search_with_hnsw_and_metric(Euclidean)
    HnswMetricEuc,
    /// build_hnsw_index + search_with_hnsw_and_metric(Cosine): documented score (cos + 1) / 2
    HnswMetricCos,
    /// build_ivf_index_default + search_with_ivf
    IvfDefault,
    /// build_ivf_index(flat(2)) + search_with_ivf
    IvfFlat2,
    /// build_ivf_index(flat(2)) + search_with_ivf_nprobe(1)
    IvfNprobe1,
}
const XAPIS: [XApi; 8] = [XApi::HnswDense, XApi::HnswAuto, XApi::HnswDefault, XApi::HnswMetricEuc, XApi::HnswMetricCos, XApi::IvfDefault, XApi::IvfFlat2, XApi::IvfNprobe1];
impl XApi {
    fn name(self) -> &'static str {
        match self {
            XApi::HnswDense => "build_hnsw_index+search_with_hnsw",
            XApi::HnswAuto => "build_hnsw_index_with_options(auto)+search_with_hnsw",
            XApi::HnswDefault => "build_hnsw_index_default+search_with_hnsw",
            XApi::HnswMetricEuc => "build_hnsw_index+search_with_hnsw_and_metric(euclidean)",
            XApi::HnswMetricCos => "build_hnsw_index+search_with_hnsw_and_metric(cosine)",
            XApi::IvfDefault => "build_ivf_index_default+search_with_ivf",
            XApi::IvfFlat2 => "build_ivf_index(flat2)+search_with_ivf",
            XApi::IvfNprobe1 => "build_ivf_index(flat2)+search_with_ivf_nprobe(1)",
        }
    }
    fn short(self) -> &'static str {
        match self {
            XApi::HnswDense | XApi::HnswAuto | XApi::HnswDefault => "search_with_hnsw",
            XApi::HnswMetricEuc | XApi::HnswMetricCos => "search_with_hnsw_and_metric",
            XApi::IvfDefault | XApi::IvfFlat2 => "search_with_ivf",
            XApi::IvfNprobe1 => "search_with_ivf_nprobe",
        }
    }
    fn parse(s: &str) -> Option<XApi> {
        XAPIS.into_iter().find(|x| x.name() == s)
    }
}
enum XIndex {
    H(HNSWIndex, Vec<String>),
    I(tensor_store::IVFIndex, Vec<String>),
}
fn x_build(e: &VectorEngine, x: XApi) -> Result<XIndex, String> {
    guarded(|| {
        match x {
            XApi::HnswDense | XApi::HnswMetricEuc | XApi::HnswMetricCos => e.build_hnsw_index(HNSWConfig::default()).map(|(i, k)| XIndex::H(i, k)),
            XApi::HnswAuto => e.build_hnsw_index_with_options(HNSWBuildOptions::sparse_optimized().with_storage(HNSWStorageStrategy::Auto)).map(|(i, k)| XIndex::H(i, k)),
            XApi::HnswDefault => e.build_hnsw_index_default().map(|(i, k)| XIndex::H(i, k)),
            XApi::IvfDefault => e.build_ivf_index_default().map(|(i, k)| XIndex::I(i, k)),
            XApi::IvfFlat2 | XApi::IvfNprobe1 => e.build_ivf_index(IVFBuildOptions::flat(2)).map(|(i, k)| XIndex::I(i, k)),
        }
        .map_err(|e| format!("build failed: {e}"))
    })
    .unwrap_or_else(|p| Err(format!("build panicked: {p}")))
}
fn x_search(e: &VectorEngine, idx: &XIndex, x: XApi, q: &[f32], k: usize) -> Outcome {
    let r = guarded(|| match (idx, x) {
        (XIndex::H(i, keys), XApi::HnswMetricEuc) => e.search_with_hnsw_and_metric(i, keys, q, k, &ExtendedDistanceMetric::Euclidean),
        (XIndex::H(i, keys), XApi::HnswMetricCos) => e.search_with_hnsw_and_metric(i, keys, q, k, &ExtendedDistanceMetric::Cosine),
        (XIndex::H(i, keys), _) => e.search_with_hnsw(i, keys, q, k),
        (XIndex::I(i, keys), XApi::IvfNprobe1) => e.search_with_ivf_nprobe(i, keys, q, k, 1),
        (XIndex::I(i, keys), _) => e.search_with_ivf(i, keys, q, k),
    });
    match r {
        Ok(Ok(v)) => Outcome::Ok(v),
        Ok(Err(e)) => Outcome::Err(e.to_string()),
        Err(p) => Outcome::Panic(p),
    }
}
/// index oracle for an index the caller built from the data stored right now
fn x_judge(out: &Outcome, x: XApi, model: &Model, q: &[f32], k: usize) -> Option<Fail> {
    match out {
        Outcome::Ok(res) => match x {
            XApi::HnswDense | XApi::HnswAuto | XApi::HnswDefault => check_weak(res, model, M::Cos, q, k, Filt::True),
            XApi::HnswMetricCos => check_weak_by(res, model, "cosine mapped to [0,1]", &|v| true_score(M::Cos, q, v).map(|c| (c + 1.0) / 2.0), q, k, Filt::True),
            XApi::HnswMetricEuc | XApi::IvfDefault | XApi::IvfFlat2 | XApi::IvfNprobe1 => check_weak(res, model, M::Euc, q, k, Filt::True),
        },
        Outcome::Err(e) => fail("error", format!("search failed: {e}")),
        Outcome::Panic(p) => fail("panic", format!("search panicked: {p}")),
    }
}
fn x_model(e: &VectorEngine, vectors: &[Vec<f32>]) -> Result<Model, String> {
    let ops: Vec<Op> = vectors.iter().enumerate().map(|(i, v)| Op::Store(KEYS[i], v.clone())).collect();
    setup(e, World::Default, Cfg::Default, &ops).map(|(m, _)| m)
}
fn part_user_index(plan: &[(Vec<Vec<f32>>, usize)]) -> Acc {
    let mut sets: Vec<Vec<Vec<f32>>> = vec![];
    for (pi, (vectors, max_size)) in plan.iter().enumerate() {
        // the empty store once
        for s in usize::from(pi > 0)..=*max_size {
            sets.extend(multisets(vectors.len(), s).into_iter().map(|m| m.iter().map(|i| vectors[*i].clone()).collect::<Vec<_>>()));
        }
    }
    let accs: Vec<Acc> = sets
        .par_chunks(16)
        .map(|chunk| {
            let mut acc = Acc::default();
            for set in chunk {
                let e = Lease::get(Cfg::Default, false);
                in_thread(|| {
                    let model = match x_model(&e, set) {
                        Ok(m) => m,
                        Err(p) => {
                            acc.machinery.get_or_insert(format!("part X set-up failed on {set:?}: {p}"));
                            return;
                        }
                    };
                    acc.nodes += 1;
                    let sh = model.state_hash();
                    acc.states.insert(sh);
                    let dim = set.first().map_or(2, Vec::len);
                    let queries = nonzero(grid(dim));
                    let distinct: BTreeSet<Vec<u32>> = set.iter().map(|v| v.iter().map(|x| x.to_bits()).collect()).collect();
                    for x in XAPIS {
                        let idx = x_build(&e, x);
                        if idx.is_ok() {
                            acc.builds_ok += 1;
                        }
                        for q in &queries {
                            for k in ks_for(set.len()) {
                                acc.searches += 1;
                                acc.weak_checks += 1;
                                if distinct.len() >= 2 {
                                    acc.nontrivial_searches += 1;
                                    acc.nontrivial_states.insert(sh);
                                }
                                let (out, f) = match &idx {
                                    Ok(i) => {
                                        let out = x_search(&e, i, x, q, k);
                                        let f = x_judge(&out, x, &model, q, k);
                                        (out, f)
                                    }
                                    Err(p) => (Outcome::Err(p.clone()), fail("build-error", p.clone())),
                                };
                                if acc.sample.is_none() && set.len() >= 3 && distinct.len() >= 3 && x == XApi::IvfFlat2 && k == set.len() {
                                    if let Outcome::Ok(res) = &out {
                                        acc.sample = Some(json!({"part":"X","vectors":set,"xapi":x.name(),"query":q,"k":k,"result":res.iter().map(|r| json!([r.key, r.score])).collect::<Vec<_>>()}));
                                    }
                                }
                                if let Some(f) = f {
                                    let got = match &out {
                                        Outcome::Ok(res) => json!(res.iter().map(|r| json!([r.key, r.score])).collect::<Vec<_>>()),
                                        Outcome::Err(e) => json!({"error": e}),
                                        Outcome::Panic(p) => json!({"panic": p}),
                                    };
                                    let replay = json!({"part":"X","vectors":set,"xapi":x.name(),"query":q,"k":k,"got":got});
                                    acc.violation(format!("c06:caller-held-index:{}:{}", x.short(), f.kind), set.len(), format!("{} (q={q:?}, k={k}) over {set:?} returned {got}: {}", x.name(), f.msg), replay);
                                }
                            }
                        }
                    }
                });
            }
            acc
        })
        .collect();
    let mut total = Acc::default();
    for a in accs {
        total.merge(a);
    }
    total
}

// ------------------------------------------------------------------ Part K: the public pairwise helper
fn k_case(a: &[f32], b: &[f32]) -> Option<Fail> {
    match guarded(|| VectorEngine::compute_similarity(a, b)) {
        Ok(Ok(s)) => match true_score(M::Cos, a, b) {
            Some(t) if !((f64::from(s) - t).abs() <= SCORE_TOL) => fail("score", format!("compute_similarity({a:?}, {b:?}) = {s}, the cosine is {t}")),
            _ => None,
        },
        Ok(Err(e)) => fail("error", format!("compute_similarity({a:?}, {b:?}) failed: {e}")),
        Err(p) => fail("panic", format!("compute_similarity({a:?}, {b:?}) panicked: {p}")),
    }
}
/// compute_similarity over every ordered pair of grid vectors of equal dimension
fn part_pairwise() -> Acc {
    let mut acc = Acc::default();
    for d in [2usize, 3] {
        let g = grid(d);
        for a in &g {
            for b in &g {
                acc.nodes += 1;
                acc.searches += 1;
                acc.exact_checks += 1;
                if true_score(M::Cos, a, b).is_some() {
                    acc.nontrivial_searches += 1;
                }
                if let Some(f) = k_case(a, b) {
                    acc.violation(format!("c06:compute_similarity:{}", f.kind), d, f.msg, json!({"part":"K","a":a,"b":b}));
                }
            }
        }
    }
    acc
}

// ------------------------------------------------------------------ replay of one recorded case
fn replay_case(rep: &mut Report, c: &Value) {
    let part = c.get("part").and_then(Value::as_str).unwrap_or("");
    let cfg = c.get("cfg").and_then(Value::as_str).and_then(Cfg::parse).unwrap_or(Cfg::Default);
    match part {
        "R" => {
            let bits: Vec<u32> = c["bits"].as_array().map(|a| a.iter().filter_map(|x| x.as_u64().map(|b| b as u32)).collect()).unwrap_or_default();
            let v: Vec<f32> = bits.iter().map(|b| f32::from_bits(*b)).collect();
            let path = c["path"].as_str().unwrap_or("store_embedding");
            let e = cfg.engine();
            match r_case(&e, path, &v) {
                Ok((true, got, sparse)) if !got.as_ref().is_some_and(|g| vec_eq(g, &v)) => rep.violation(format!("c06:readback:{}:value-differs", if sparse { "sparse" } else { "dense" }), format!("{path}({v:?}) read back {got:?}"), c.clone()),
                Err(p) => rep.violation(format!("c06:readback:{path}:panic"), p, c.clone()),
                _ => eprintln!("replay: holds"),
            }
        }
        "K" => match (jvec(&c["a"]), jvec(&c["b"])) {
            (Some(a), Some(b)) => match k_case(&a, &b) {
                Some(f) => rep.violation(format!("c06:compute_similarity:{}", f.kind), f.msg, c.clone()),
                None => eprintln!("replay: holds"),
            },
            _ => rep.machinery("replay file not understood"),
        },
        "X" => {
            let vectors: Vec<Vec<f32>> = c["vectors"].as_array().map(|a| a.iter().filter_map(jvec).collect()).unwrap_or_default();
            let x = c["xapi"].as_str().and_then(XApi::parse);
            let q = jvec(&c["query"]);
            let (Some(x), Some(q)) = (x, q) else {
                rep.machinery("replay file not understood");
                return;
            };
            let k = c["k"].as_u64().unwrap_or(1) as usize;
            let e = VectorEngine::new();
            let model = match x_model(&e, &vectors) {
                Ok(m) => m,
                Err(p) => {
                    rep.machinery(format!("replay: set-up failed: {p}"));
                    return;
                }
            };
            let f = match x_build(&e, x) {
                Ok(i) => x_judge(&x_search(&e, &i, x, &q, k), x, &model, &q, k),
                Err(p) => fail("build-error", p),
            };
            match f {
                Some(f) => rep.violation(format!("c06:caller-held-index:{}:{}", x.short(), f.kind), f.msg, c.clone()),
                None => eprintln!("replay: holds"),
            }
        }
        "H" => {
            let metric = M::parse(c["metric"].as_str().unwrap_or("cos")).unwrap_or(M::Cos);
            let sparse = c["sparse"].as_bool().unwrap_or(false);
            let ins: Vec<Vec<f32>> = c["inserts"].as_array().map(|a| a.iter().filter_map(jvec).collect()).unwrap_or_default();
            let q = jvec(&c["query"]).unwrap_or_default();
            let k = c["k"].as_u64().unwrap_or(1) as usize;
            let ef = c["ef"].as_u64().map(|x| x as usize);
            match h_case(&h_build(metric, sparse, &ins), metric, &ins, &q, k, ef) {
                Some(f) => rep.violation(format!("c06:hnsw-index:{}:{}", if sparse { "sparse" } else { "dense" }, f.kind), f.msg, c.clone()),
                None => eprintln!("replay: holds"),
            }
        }
        _ => {
            let w = c.get("world").and_then(Value::as_str).and_then(World::parse);
            let ops: Option<Vec<Op>> = c.get("ops").and_then(Value::as_array).map(|a| a.iter().map(Op::from_json).collect::<Option<Vec<_>>>()).unwrap_or(None);
            let (Some(w), Some(ops)) = (w, ops) else {
                rep.machinery("replay file not understood");
                return;
            };
            let e = cfg.engine();
            let diag = cfg.engine();
            // in a thread of its own, like every node of the exploration (same hash order of the store's scans)
            let (model, _) = match in_thread(|| setup(&e, w, cfg, &ops)) {
                Ok(x) => x,
                Err(p) => {
                    rep.machinery(format!("replay: mutator panicked: {p}"));
                    return;
                }
            };
            if c["api"].as_str() == Some("readback") {
                match readback(&e, w, &model) {
                    Some(f) => rep.violation(format!("c06:readback:{}:{}", w.short(), f.kind), f.msg, c.clone()),
                    None => eprintln!("replay: holds"),
                }
                remove_save_files();
                return;
            }
            if c["api"].as_str() == Some("listing") {
                match listings(&e, w, &model, &mut 0) {
                    Some((func, f)) => rep.violation(format!("c06:listing:{func}:{}", f.kind), f.msg, c.clone()),
                    None => eprintln!("replay: holds"),
                }
                remove_save_files();
                return;
            }
            let api = c["api"].as_str().and_then(Api::parse);
            let q = jvec(&c["query"]);
            let (Some(api), Some(q)) = (api, q) else {
                rep.machinery("replay file not understood");
                return;
            };
            let k = c["k"].as_u64().unwrap_or(1) as usize;
            let weak = weak_for(api, &model);
            // with a scan bound the answer may depend on the store's hash order, which changes from call to call: the
            // recorded search is repeated, the first wrong answer is reported
            let attempts = if cfg.scan_bound().is_some() { 32 } else { 1 };
            let mut held = true;
            for attempt in 1..=attempts {
                let out = run_api(&e, api, &q, k);
                let got = match &out {
                    Outcome::Ok(res) => format!("{:?}", res.iter().map(|r| (r.key.clone(), r.score)).collect::<Vec<_>>()),
                    Outcome::Err(e) => format!("Err({e})"),
                    Outcome::Panic(p) => format!("panic({p})"),
                };
                eprintln!("replay (attempt {attempt}): {} [{}] {}(q={q:?},k={k}) after {ops:?} -> {got}; live = {:?}", w.name(), cfg.name(), api.name(), model.data);
                if let Some(f) = judge(&out, weak, &model, api, &q, k) {
                    let sig = diagnose(&diag, w, &ops, &model, api, &q, k, &f, &out);
                    rep.violation(sig, format!("{} [{}]", f.msg, f.kind), c.clone());
                    held = false;
                    break;
                }
            }
            if held {
                eprintln!("replay: holds");
            }
            remove_save_files();
        }
    }
    rep.sample(c.clone());
}

// ------------------------------------------------------------------ alphabets
fn v2(a: i8, b: i8) -> Vec<f32> {
    vec![f32::from(a), f32::from(b)]
}
fn alphabet_default(keys: &[&'static str], with_zero: bool) -> Vec<Op> {
    let mut vs = vec![v2(1, 0), v2(1, 1), vec![1.0, 0.0, 0.0]];
    if with_zero {
        vs.push(v2(0, 0));
    }
    let mut a = vec![];
    for k in keys {
        for v in &vs {
            a.push(Op::Store(k, v.clone()));
        }
    }
    for k in keys {
        a.push(Op::Delete(k));
    }
    a.push(Op::Build);
    for (i, k) in keys.iter().enumerate() {
        if i % 2 == 0 {
            a.push(Op::StoreMeta(k, v2(1, 1), "x"));
        } else {
            a.push(Op::StoreMeta(k, v2(-1, 1), "y"));
        }
    }
    a.push(Op::BatchStore(vec![(keys[0], v2(-1, 1)), (keys[1], v2(1, 0))]));
    a.push(Op::BatchDelete(vec![keys[0]]));
    a.push(Op::BatchDelete(keys.to_vec()));
    a.push(Op::Clear);
    a
}
fn alphabet_named(keys: &[&'static str]) -> Vec<Op> {
    let vs = [v2(1, 0), v2(1, 1), vec![1.0, 0.0, 0.0]];
    let mut a = vec![];
    for k in keys {
        for v in &vs {
            a.push(Op::Store(k, v.clone()));
        }
    }
    for k in keys {
        a.push(Op::Delete(k));
    }
    a.push(Op::Build);
    for (i, k) in keys.iter().enumerate() {
        if i % 2 == 0 {
            a.push(Op::StoreMeta(k, v2(-1, 1), "x"));
        } else {
            a.push(Op::StoreMeta(k, v2(0, 1), "y"));
        }
    }
    a.push(Op::Clear);
    a
}
fn alphabet_filter(keys: &[&'static str]) -> Vec<Op> {
    let mut a = vec![];
    for k in keys {
        a.push(Op::StoreMeta(k, v2(1, 0), "y"));
        a.push(Op::StoreMeta(k, v2(1, 1), "x"));
    }
    a.push(Op::Delete(keys[0]));
    a.push(Op::Delete(keys[1]));
    a.push(Op::Build);
    a
}

/// Part M: metadata mutators between stores
fn alphabet_meta() -> Vec<Op> {
    vec![
        Op::StoreMeta("a", v2(1, 0), "y"),
        Op::StoreMeta("a", v2(1, 1), "x"),
        Op::StoreMeta("b", v2(1, 1), "x"),
        Op::StoreMeta("b", v2(-1, 1), "y"),
        Op::Store("b", v2(1, 0)),
        Op::SetTag("a", "x"),
        Op::SetTag("a", "y"),
        Op::SetTag("b", "x"),
        Op::DropTag("a"),
        Op::DropTag("b"),
        Op::Delete("a"),
        Op::Build,
    ]
}
/// Part N: entity embeddings
fn alphabet_entity() -> Vec<Op> {
    vec![
        Op::Store("a", v2(1, 0)),
        Op::Store("a", v2(1, 1)),
        Op::Store("a", vec![1.0, 0.0, 0.0]),
        Op::Store("b", v2(1, 0)),
        Op::Store("b", v2(1, 1)),
        Op::Store("b", v2(-1, 1)),
        Op::Delete("a"),
        Op::Delete("b"),
        Op::Noise,
    ]
}
/// Part P: persistence as a store path
fn alphabet_persist() -> Vec<Op> {
    vec![Op::Store("a", v2(1, 0)), Op::Store("a", v2(1, 1)), Op::StoreMeta("b", v2(1, 1), "x"), Op::Delete("a"), Op::Build, Op::Save, Op::Load(false), Op::Load(true), Op::Clear]
}
/// the part of the default alphabet a scan bound of 2 matters for, small enough for one more level
fn alphabet_scan() -> Vec<Op> {
    vec![
        Op::Store("a", v2(1, 0)),
        Op::Store("b", v2(1, 1)),
        Op::Store("b", vec![1.0, 0.0, 0.0]),
        Op::Delete("a"),
        Op::Build,
        Op::Clear,
        Op::StoreMeta("a", v2(1, 1), "x"),
        Op::BatchStore(vec![("a", v2(-1, 1)), ("b", v2(1, 0))]),
        Op::BatchDelete(vec!["a", "b"]),
    ]
}

/// histories and comparisons per engine configuration, summed over the parts
static BY_CFG: std::sync::Mutex<BTreeMap<String, (u64, u64)>> = std::sync::Mutex::new(BTreeMap::new());
fn report_part(rep: &mut Report, name: &str, acc: &Acc, extra: Value) {
    {
        let cfg = extra.get("engine_config").and_then(Value::as_str).unwrap_or("default").to_string();
        let mut m = BY_CFG.lock().unwrap();
        let e = m.entry(cfg).or_default();
        e.0 += acc.nodes;
        e.1 += acc.searches + acc.readbacks + acc.listings;
    }
    let mut v = json!({
        "nodes": acc.nodes, "searches_checked": acc.searches, "checked_against_exact_oracle": acc.exact_checks, "checked_against_index_oracle": acc.weak_checks,
        "readbacks": acc.readbacks, "listings_compared": acc.listings, "distinct_model_states": acc.states.len(), "states_with_2plus_candidates": acc.nontrivial_states.len(),
        "searches_with_2plus_candidates": acc.nontrivial_searches, "stored_sparse": acc.sparse_stored, "stored_dense": acc.dense_stored, "index_builds_ok": acc.builds_ok,
        "violating_cases_by_signature": acc.viol.iter().map(|(k, v)| (k.clone(), json!(v.0))).collect::<serde_json::Map<_, _>>(),
    });
    if let (Some(o), Some(x)) = (v.as_object_mut(), extra.as_object()) {
        for (k, val) in x {
            o.insert(k.clone(), val.clone());
        }
    }
    rep.part(name, v);
    if let Some(s) = &acc.sample {
        rep.sample(s.clone());
    }
    if let Some(m) = &acc.machinery {
        rep.machinery(m.clone());
    }
}

/// vacuity figures of one sequence part
struct PartStat {
    builds_ok: u64,
    weak_checks: u64,
    states: usize,
    parallel_capable: u64,
}
#[allow(clippy::too_many_arguments)]
fn run_seq(rep: &mut Report, all: &mut Acc, lap: &mut dyn FnMut() -> f64, name: &str, part: &str, w: World, cfg: Cfg, b: &Battery, alpha: &[Op], depth: usize) -> PartStat {
    let a = explore(&Ctx { part, world: w, cfg, battery: b }, alpha, depth);
    report_part(rep, name, &a, json!({"world": w.name(), "engine_config": cfg.name(), "depth": depth, "alphabet": alpha.len(), "queries": b.queries.len(), "apis": b.apis.iter().map(|x| x.name()).collect::<Vec<_>>(), "wall_s": lap()}));
    let st = PartStat { builds_ok: a.builds_ok, weak_checks: a.weak_checks, states: a.states.len(), parallel_capable: a.nontrivial_searches };
    all.merge(a);
    st
}

fn explore_all(rep: &mut Report, thorough: bool) {
    let mut all = Acc::default();
    let g2 = grid(2);
    let g3 = grid(3);
    let mut gridv: Vec<Vec<f32>> = g2.clone();
    gridv.extend(g3.clone());
    let mut all_q = nonzero(g2.clone());
    all_q.extend(nonzero(g3.clone()));
    let mut few_q = nonzero(g2.clone());
    few_q.extend([vec![1.0, 0.0, 0.0], vec![-1.0, 1.0, 1.0], vec![0.0, 1.0, -1.0], vec![1.0, 1.0, 1.0]]);

    let mut t0 = std::time::Instant::now();
    let mut lap = move || {
        let d = t0.elapsed().as_secs_f64();
        t0 = std::time::Instant::now();
        (d * 10.0).round() / 10.0
    };
    // ---- R: default configuration, then the two configurations that move the dense/sparse boundary
    for (cfg, r_dim) in [(Cfg::Default, if thorough { 5 } else { 4 }), (Cfg::SparseAll, if thorough { 4 } else { 3 }), (Cfg::SparseNone, if thorough { 4 } else { 3 })] {
        let (r, rejected) = part_readback(cfg, r_dim);
        report_part(rep, &format!("R_readback_{}", cfg.name()), &r, json!({"engine_config": cfg.name(), "max_dim": r_dim, "vectors": r.nodes, "rejected_by_store": rejected, "wall_s": lap()}));
        match cfg {
            Cfg::Default if r.sparse_stored == 0 || r.dense_stored == 0 => rep.machinery("vacuous: read-back did not reach both representations"),
            Cfg::SparseAll if r.dense_stored != 0 || r.sparse_stored == 0 => rep.machinery("vacuous: sparse_threshold=0 did not force the sparse representation"),
            Cfg::SparseNone if r.dense_stored == 0 => rep.machinery("vacuous: sparse_threshold=1 stored nothing dense"),
            _ => {}
        }
        all.merge(r);
    }

    // ---- E: (world, configuration, sizes, queries)
    let d_apis = vec![Api::Similar, Api::Metric(M::Cos), Api::Metric(M::Dot), Api::Metric(M::Euc), Api::Filtered(Filt::True, Strat::Auto)];
    let n_apis = vec![Api::InColl, Api::FilteredColl(Filt::True, Strat::Pre), Api::FilteredColl(Filt::True, Strat::Auto)];
    let mut e_plan: Vec<(World, Cfg, usize, usize, bool)> = vec![]; // world, configuration, min size, max size, all queries?
    if thorough {
        e_plan.push((World::Default, Cfg::Default, 0, 3, true));
        e_plan.push((World::Default, Cfg::Default, 4, 4, false));
        for m in [M::Cos, M::Dot, M::Euc] {
            e_plan.push((World::Named(m), Cfg::Default, 0, 2, true));
            e_plan.push((World::Named(m), Cfg::Default, 3, 3, false));
        }
        e_plan.push((World::Default, Cfg::Par2, 0, 2, true));
        e_plan.push((World::Default, Cfg::SparseAll, 0, 2, true));
        e_plan.push((World::Default, Cfg::Combo, 0, 2, true));
        e_plan.push((World::Named(M::Dot), Cfg::SparseAll, 0, 2, false));
    } else {
        e_plan.push((World::Default, Cfg::Default, 0, 2, true));
        e_plan.push((World::Default, Cfg::Default, 3, 3, false));
        for m in [M::Cos, M::Dot, M::Euc] {
            e_plan.push((World::Named(m), Cfg::Default, 0, 2, false));
        }
        e_plan.push((World::Default, Cfg::Par2, 0, 2, false));
        e_plan.push((World::Default, Cfg::SparseAll, 0, 2, false));
    }
    let mut e_nontrivial = 0;
    let mut e_builds = 0;
    for (w, cfg, lo, hi, allq) in e_plan {
        let b = Battery { queries: if allq { all_q.clone() } else { few_q.clone() }, apis: if w == World::Default { d_apis.clone() } else { n_apis.clone() }, skip_failed_build: true, listings: hi <= 2 || (thorough && hi <= 3) };
        let e = part_sets(&Ctx { part: "E", world: w, cfg, battery: &b }, &gridv, lo, hi);
        let cfg_tag = if cfg == Cfg::Default { String::new() } else { format!("_{}", cfg.name()) };
        report_part(rep, &format!("E_sets_{}{}_size{}to{}", w.name().replace(':', "_"), cfg_tag, lo, hi), &e, json!({"engine_config": cfg.name(), "vector_alphabet": gridv.len(), "queries": b.queries.len(), "wall_s": lap()}));
        if cfg == Cfg::Default {
            e_nontrivial += e.nontrivial_states.len();
            e_builds += e.builds_ok;
        }
        all.merge(e);
        if cfg != Cfg::Default {
            drain_pool(cfg);
        }
    }
    if e_nontrivial < 100 || e_builds < 100 {
        rep.machinery("vacuous: part E reached too few non-trivial states");
    }

    // ---- S: default configuration
    let s_apis = vec![Api::Similar, Api::Metric(M::Dot), Api::Metric(M::Euc), Api::Filtered(Filt::True, Strat::Auto), Api::Filtered(Filt::TagX, Strat::Auto), Api::Filtered(Filt::TagX, Strat::Pre)];
    let s_q = vec![v2(1, 0), v2(0, 1), v2(1, 1), v2(-1, 1), vec![1.0, 0.0, 0.0]];
    // the listings are compared in the runs over the same alphabet one level below (and in the thorough depth-4 runs)
    // quick: the pass-through filter (search_similar plus a filter that keeps everything) moves to the depth-3 run below
    let s_main_apis: Vec<Api> = s_apis.iter().copied().filter(|a| thorough || *a != Api::Filtered(Filt::True, Strat::Auto)).collect();
    let b = Battery { queries: s_q.clone(), apis: s_main_apis, skip_failed_build: false, listings: false };
    let b_listed = Battery { queries: s_q.clone(), apis: s_apis.clone(), skip_failed_build: false, listings: true };
    let s_depth = if thorough { 5 } else { 4 };
    let full = alphabet_default(&KEYS[..2], false);
    let mut alpha = full.clone();
    if thorough {
        // depth 5 runs over 13 of the 15 ops; the two dropped ones stay in the depth-4 runs below
        alpha.retain(|o| *o != Op::BatchDelete(KEYS[..2].to_vec()) && *o != Op::Store("b", vec![1.0, 0.0, 0.0]));
        run_seq(rep, &mut all, &mut lap, "S_sequences_default_depth4_full_alphabet", "S4", World::Default, Cfg::Default, &b_listed, &full, 4);
    }
    let st = run_seq(rep, &mut all, &mut lap, "S_sequences_default", "S", World::Default, Cfg::Default, &b, &alpha, s_depth);
    if st.builds_ok == 0 || st.weak_checks == 0 || st.states < 50 {
        rep.machinery("vacuous: part S never searched through a cached index or reached too few states");
    }
    if thorough {
        let alpha = alphabet_default(&KEYS[..2], true);
        run_seq(rep, &mut all, &mut lap, "S_sequences_default_with_zero_vector", "S0", World::Default, Cfg::Default, &b, &alpha, 4);
        let alpha = alphabet_default(&KEYS[..3], false);
        run_seq(rep, &mut all, &mut lap, "S_sequences_default_3keys", "S3", World::Default, Cfg::Default, &b_listed, &alpha, 4);
    }
    // the remaining default-collection search variants (cosine through the metric entry point, every page shape)
    let more_apis = vec![Api::Metric(M::Cos), Api::Filtered(Filt::True, Strat::Auto), Api::Filtered(Filt::TagX, Strat::Post), Api::Paged(0, Some(1)), Api::Paged(1, Some(1)), Api::Paged(1, Some(2)), Api::Paged(0, Some(3)), Api::Paged(1, None), Api::Paged(2, None)];
    let bm = Battery { queries: s_q.clone(), apis: more_apis.clone(), skip_failed_build: false, listings: true };
    run_seq(rep, &mut all, &mut lap, "S_sequences_default_more_search_variants", "S", World::Default, Cfg::Default, &bm, &full, if thorough { 4 } else { 3 });

    // ---- S again on engines built with non-default configurations: (configuration, alphabet, depth, search variants)
    let mut every_api: Vec<Api> = s_apis.clone();
    every_api.extend(more_apis.iter().copied().filter(|a| !s_apis.contains(a)));
    let scan_alpha = alphabet_scan();
    let full3 = alphabet_default(&KEYS[..3], false);
    // the search variants a configuration can influence
    let tailored = |cfg: Cfg| -> Vec<Api> {
        match cfg {
            Cfg::Par2 | Cfg::Combo => vec![Api::Similar, Api::Metric(M::Cos), Api::Metric(M::Dot), Api::Metric(M::Euc), Api::Filtered(Filt::True, Strat::Auto), Api::Filtered(Filt::TagX, Strat::Post), Api::Paged(1, Some(2))],
            Cfg::Scan1 => vec![Api::Similar, Api::Filtered(Filt::TagX, Strat::Auto), Api::Filtered(Filt::TagX, Strat::Pre), Api::Filtered(Filt::TagX, Strat::Post), Api::Paged(0, Some(1))],
            Cfg::Scan2 => vec![Api::Similar, Api::Metric(M::Euc), Api::Filtered(Filt::TagX, Strat::Pre), Api::Paged(1, Some(1))],
            Cfg::MaxDim2 => vec![Api::Similar, Api::Metric(M::Dot), Api::Filtered(Filt::TagX, Strat::Auto)],
            Cfg::SparseAll | Cfg::SparseNone => vec![Api::Similar, Api::Metric(M::Dot), Api::Metric(M::Euc), Api::Filtered(Filt::TagX, Strat::Pre)],
            Cfg::BatchPar2 => vec![Api::Similar, Api::Metric(M::Euc)],
            Cfg::Timeout | Cfg::Default => every_api.clone(),
        }
    };
    let mut c_plan: Vec<(Cfg, &str, &[Op], usize, Vec<Api>)> = vec![];
    if thorough {
        for cfg in [Cfg::Par2, Cfg::Scan2, Cfg::Scan1, Cfg::MaxDim2, Cfg::SparseAll, Cfg::SparseNone, Cfg::BatchPar2, Cfg::Timeout, Cfg::Combo] {
            // every search variant to depth 3; for the configurations that switch search / clear / build paths the variants
            // they can influence to depth 4 (the others switch store paths only: one store, one overwrite, one search)
            c_plan.push((cfg, "2keys_every_variant", &full, 3, every_api.clone()));
            if matches!(cfg, Cfg::Par2 | Cfg::Scan2 | Cfg::Scan1 | Cfg::Combo) {
                c_plan.push((cfg, "2keys", &full, 4, tailored(cfg)));
            }
        }
        // three keys: a page of two is a proper part of the store
        c_plan.push((Cfg::Scan2, "3keys", &full3, 3, every_api.clone()));
        c_plan.push((Cfg::Scan2, "scan_alphabet", &scan_alpha, 5, tailored(Cfg::Scan2)));
        c_plan.push((Cfg::Par2, "3keys", &full3, 3, every_api.clone()));
    } else {
        c_plan.push((Cfg::Par2, "2keys", &full, 3, tailored(Cfg::Par2)));
        c_plan.push((Cfg::Scan1, "2keys", &full, 3, tailored(Cfg::Scan1)));
        c_plan.push((Cfg::Scan2, "scan_alphabet", &scan_alpha, 4, tailored(Cfg::Scan2)));
        c_plan.push((Cfg::MaxDim2, "2keys", &full, 2, tailored(Cfg::MaxDim2)));
        c_plan.push((Cfg::SparseAll, "2keys", &full, 2, tailored(Cfg::SparseAll)));
        c_plan.push((Cfg::SparseNone, "2keys", &full, 2, tailored(Cfg::SparseNone)));
        c_plan.push((Cfg::BatchPar2, "2keys", &full, 2, tailored(Cfg::BatchPar2)));
        c_plan.push((Cfg::Timeout, "2keys", &full, 2, tailored(Cfg::Timeout)));
    }
    for (cfg, tag, alpha, depth, apis) in c_plan {
        let b = Battery { queries: s_q.clone(), apis, skip_failed_build: false, listings: true };
        let st = run_seq(rep, &mut all, &mut lap, &format!("S_sequences_default_cfg_{}_{}", cfg.name(), tag), "S", World::Default, cfg, &b, alpha, depth);
        if st.parallel_capable == 0 || st.builds_ok == 0 {
            rep.machinery(format!("vacuous: configuration {} never searched two stored vectors or never built an index", cfg.name()));
        }
        drain_pool(cfg);
    }

    // ---- F
    let fq = vec![v2(1, 0), v2(0, 1), v2(-1, 1)];
    let f_depth = if thorough { 5 } else { 4 };
    let alpha = alphabet_filter(&KEYS);
    let mut f_plan: Vec<(World, Cfg, usize)> = vec![(World::Default, Cfg::Default, f_depth), (World::Named(M::Cos), Cfg::Default, 4)];
    // four keys under a scan bound of two, and post-filtering over the parallel search
    let f_cfg_depth = if thorough { 4 } else { 3 };
    f_plan.push((World::Default, Cfg::Scan2, f_cfg_depth));
    f_plan.push((World::Default, Cfg::Par2, f_cfg_depth));
    for (w, cfg, depth) in f_plan {
        let mut f_apis = vec![];
        for fl in [Filt::TagX, Filt::True] {
            for st in [Strat::Auto, Strat::Pre, Strat::Post] {
                f_apis.push(if w == World::Default { Api::Filtered(fl, st) } else { Api::FilteredColl(fl, st) });
            }
        }
        let b = Battery { queries: fq.clone(), apis: f_apis, skip_failed_build: false, listings: cfg != Cfg::Default };
        let cfg_tag = if cfg == Cfg::Default { String::new() } else { format!("_cfg_{}", cfg.name()) };
        run_seq(rep, &mut all, &mut lap, &format!("F_filter_{}{}", w.name().replace(':', "_"), cfg_tag), "F", w, cfg, &b, &alpha, depth);
        if cfg != Cfg::Default {
            drain_pool(cfg);
        }
    }

    // ---- M: metadata changed in place between filtered searches
    let m_apis = vec![Api::Similar, Api::Filtered(Filt::TagX, Strat::Auto), Api::Filtered(Filt::TagX, Strat::Pre), Api::Filtered(Filt::TagX, Strat::Post), Api::Filtered(Filt::True, Strat::Auto)];
    let b = Battery { queries: fq.clone(), apis: m_apis, skip_failed_build: false, listings: true };
    let st = run_seq(rep, &mut all, &mut lap, "M_metadata_mutators", "M", World::Default, Cfg::Default, &b, &alphabet_meta(), if thorough { 4 } else { 3 });
    if st.weak_checks == 0 {
        rep.machinery("vacuous: part M never searched through a cached index");
    }

    // ---- C
    let c_apis = vec![Api::InColl, Api::FilteredColl(Filt::True, Strat::Auto), Api::FilteredColl(Filt::TagX, Strat::Auto), Api::FilteredColl(Filt::TagX, Strat::Pre), Api::FilteredColl(Filt::TagX, Strat::Post)];
    let c_q = vec![v2(1, 0), v2(0, 1), v2(-1, 1), vec![1.0, 0.0, 0.0]];
    let b = Battery { queries: c_q.clone(), apis: c_apis, skip_failed_build: false, listings: true };
    let alpha = alphabet_named(&KEYS[..2]);
    for m in [M::Cos, M::Dot, M::Euc] {
        // quick: depth 3 over the whole alphabet for every metric (same code but for the score) ...
        let depth = match (thorough, m) {
            (true, M::Cos) => 5,
            (true, _) => 4,
            (false, _) => 3,
        };
        let st = run_seq(rep, &mut all, &mut lap, &format!("C_sequences_named_{}", m.name()), "C", World::Named(m), Cfg::Default, &b, &alpha, depth);
        if st.builds_ok == 0 || st.weak_checks == 0 {
            rep.machinery("vacuous: part C never searched through a cached index");
        }
    }
    if !thorough {
        // ... and depth 4 over its core (two keys, two 2-d vectors and one 3-d vector, every kind of mutator once)
        let core = vec![
            Op::Store("a", v2(1, 0)),
            Op::Store("a", v2(1, 1)),
            Op::Store("b", v2(1, 0)),
            Op::Store("b", vec![1.0, 0.0, 0.0]),
            Op::Delete("a"),
            Op::Build,
            Op::StoreMeta("a", v2(-1, 1), "x"),
            Op::Clear,
        ];
        run_seq(rep, &mut all, &mut lap, "C_sequences_named_cos_depth4_core_alphabet", "C", World::Named(M::Cos), Cfg::Default, &b, &core, 4);
    }
    // collections on the configurations their store path reads (max_dimension, sparse_threshold) and with a deadline set
    for cfg in [Cfg::MaxDim2, Cfg::SparseAll, Cfg::Timeout] {
        run_seq(rep, &mut all, &mut lap, &format!("C_sequences_named_dot_cfg_{}", cfg.name()), "C", World::Named(M::Dot), cfg, &b, &alpha, if thorough { 3 } else { 2 });
        drain_pool(cfg);
    }

    // ---- N: entity embeddings
    let n_q = vec![v2(1, 0), v2(1, 1), v2(-1, 1), vec![1.0, 0.0, 0.0]];
    let b = Battery { queries: n_q, apis: vec![Api::Entities, Api::EntPaged(0, Some(1)), Api::EntPaged(1, Some(2)), Api::EntPaged(1, None)], skip_failed_build: false, listings: true };
    for cfg in [Cfg::Default, Cfg::Scan2, Cfg::SparseAll] {
        if cfg == Cfg::SparseAll && !thorough {
            continue;
        }
        let depth = if thorough { 4 } else { 3 };
        let st = run_seq(rep, &mut all, &mut lap, &format!("N_entity_embeddings_cfg_{}", cfg.name()), "N", World::Entity, cfg, &b, &alphabet_entity(), depth);
        if st.parallel_capable == 0 {
            rep.machinery("vacuous: part N never searched two entity embeddings");
        }
        if cfg != Cfg::Default {
            drain_pool(cfg);
        }
    }

    // ---- P: persistence as a store path
    let alpha = alphabet_persist();
    let b = Battery { queries: fq.clone(), apis: vec![Api::Similar, Api::Metric(M::Euc), Api::Filtered(Filt::TagX, Strat::Auto)], skip_failed_build: false, listings: true };
    run_seq(rep, &mut all, &mut lap, "P_persistence_default", "P", World::Default, Cfg::Default, &b, &alpha, if thorough { 5 } else { 3 });
    let b = Battery { queries: fq.clone(), apis: vec![Api::InColl, Api::FilteredColl(Filt::TagX, Strat::Auto)], skip_failed_build: false, listings: true };
    run_seq(rep, &mut all, &mut lap, "P_persistence_named_dot", "P", World::Named(M::Dot), Cfg::Default, &b, &alpha, if thorough { 4 } else { 3 });

    // ---- X: indexes held by the caller
    let x_plan = if thorough { vec![(g2.clone(), 4), (g3.clone(), 3)] } else { vec![(g2.clone(), 3), (g3.clone(), 2)] };
    let x = part_user_index(&x_plan);
    report_part(rep, "X_caller_held_indexes", &x, json!({"max_vectors_dim2": x_plan[0].1, "max_vectors_dim3": x_plan[1].1, "variants": XAPIS.iter().map(|x| x.name()).collect::<Vec<_>>(), "wall_s": lap()}));
    if x.builds_ok == 0 || x.nontrivial_searches == 0 {
        rep.machinery("vacuous: part X built no index");
    }
    all.merge(x);

    // ---- K
    let kk = part_pairwise();
    report_part(rep, "K_compute_similarity", &kk, json!({"pairs": kk.nodes, "wall_s": lap()}));
    all.merge(kk);

    // ---- H
    let (h2, h3) = if thorough { (5, 3) } else { (4, 2) };
    let h = part_hnsw(h2, h3);
    report_part(rep, "H_hnsw_index", &h, json!({"max_inserts_dim2": h2, "max_inserts_dim3": h3, "wall_s": lap()}));
    all.merge(h);

    for (sig, (n, arts)) in &all.viol {
        if *n > 0 && arts.is_empty() {
            rep.machinery(format!("{n} cases of {sig} were seen on pooled engines only, none on a brand-new engine"));
        }
        for (_, msg, replay) in arts {
            rep.violation(sig.clone(), msg.clone(), replay.clone());
        }
    }
    rep.set("violating_cases_by_signature", json!(all.viol.iter().map(|(k, v)| (k.clone(), json!(v.0))).collect::<serde_json::Map<_, _>>()));
    rep.set("nodes_not_confirmed_on_new_engine_by_signature", json!(all.unconfirmed));
    rep.set("histories_and_comparisons_by_engine_config", json!(BY_CFG.lock().unwrap().iter().map(|(k, v)| (k.clone(), json!({"histories": v.0, "comparisons": v.1}))).collect::<serde_json::Map<_, _>>()));
    rep.set("engine_configurations", json!(Cfg::ALL.iter().map(|c| (c.name().to_string(), json!(format!("{:?}", c.config())))).collect::<serde_json::Map<_, _>>()));
    rep.add("states", all.states.len() as u64);
    rep.add("transitions", all.nodes);
    rep.add("traces_validated_against_impl", all.nodes);
    rep.add("evaluations", all.searches + all.readbacks + all.listings);
    rep.add("distinct_nontrivial", all.nontrivial_states.len() as u64);
    rep.set("explanation", json!("no separate model: every op and every search ran the real VectorEngine/HNSWIndex; reference = BTreeMap of stored vectors + f64 score recomputation"));
}

fn main() {
    let default_hook = std::panic::take_hook();
    std::panic::set_hook(Box::new(move |info| {
        if !QUIET.with(Cell::get) {
            default_hook(info);
        }
    }));
    let mut rep = Report::new("C06", "model_checking");
    let thorough = rep.thorough();
    if let Some(s) = rep.args.flag("selftest") {
        SELFTEST.store(s.parse().unwrap_or(1), AO::Relaxed);
        rep.set("selftest_corrupted_oracle", json!(s));
    }
    if let Some(path) = rep.args.replay.clone() {
        let body: Value = std::fs::read_to_string(&path).ok().and_then(|s| serde_json::from_str(&s).ok()).unwrap_or(Value::Null);
        let case = body.get("replay").cloned().unwrap_or(body);
        replay_case(&mut rep, &case);
        rep.finish();
    }
    rep.rule("R: every vector over 13 special f32 values of dimension <=D through 4 store paths, read back by value (-0=+0, NaN by bits)");
    rep.rule("E: every multiset of <=S vectors of {-1,0,1}^2 u {-1,0,1}^3 under keys a..d, every non-zero grid query, k in {1,2,n,n+1}, every search API/metric, default + named collection; again after caching the index; non-trivial = >=2 candidates of the query's dimension");
    rep.rule("S/C/F: every op sequence <= depth over the listed mutator alphabet on a fresh engine, full search battery and read-back after every step; oracle = exact unless an index is cached and the stored data equals the data it was built from");
    rep.rule("H: every insert sequence over the grid into HNSWIndex (dense and sparse storage, 3 metrics), search/search_with_ef for every query,k,ef in {default,1,k}");
    rep.assume("score of cosine against a zero stored vector is undefined: such entries are exempt from score/order/top-k checks (they still count towards k)");
    rep.assume("euclidean score is 1/(1+distance) as documented on search_similar_with_metric; ties within 1e-6 may appear in any order; scores compared within 1e-5");
    rep.assume("a named collection's chosen metric is VectorCollectionConfig::distance_metric (cosine when the collection has no configuration)");
    rep.assume("with a cached index and a query of another dimension no score is defined, so any returned key is a violation");
    rep.rule("configurations: every VectorEngineConfig field that switches a code path gets an engine built with a value that fires on tiny stores (parallel_threshold=2, max_keys_per_scan=2 and 1, max_dimension=2, sparse_threshold=0 and 1, batch_parallel_threshold=2, search_timeout=1h, all at once); parts R, E, S, F, C, N run again on those engines with the same oracles");
    rep.rule("M / N / P: every op sequence <= depth over metadata mutators (update_metadata, remove_metadata_field), entity embeddings (set/remove_entity_embedding, search_entities[_paginated]) and persistence (save_index[_binary], load_index[_binary]) with the same search battery");
    rep.rule("pages: search_*_paginated(q, k, skip, limit) must be positions skip.. of a correct ranking cut at min(k, skip+limit): right size, live keys, true scores, and the vector at rank r carries the r-th best true score");
    rep.rule("listings after every step (all sequence parts but the largest default-configuration runs, whose alphabet is listed one level lower): list_keys[_bounded], count, exists, list_keys_paginated (8 page shapes), list_keys_matching, count_matching, dimension, list_collection_keys, collection_count, exists_in_collection, scan/count_entities_with_embeddings, entity_has_embedding: only live (matching) keys, none twice, complete unless max_keys_per_scan cuts the listing");
    rep.rule("X: every multiset of <=S grid vectors, every index the caller can build and hold (build_hnsw_index / _with_options(auto) / _default, build_ivf_index(default, flat 2)), searched with search_with_hnsw / search_with_hnsw_and_metric / search_with_ivf / search_with_ivf_nprobe right after the build: index oracle");
    rep.assume("max_keys_per_scan: list_keys*, clear and index builds are documented to work on one page of keys (the model follows the page clear() chose); searches are not: search_similar* and search_similar_filtered must stay exact. search_entities carries the bound explicitly in its code and is outside the property's quantifier (default and named collections): on such engines only the index oracle (live keys, true scores, order, <= k) is applied to it");
    rep.assume("a query longer than max_dimension may be answered with an error (documented); VectorEngineConfig::default_metric and default_dimension are read by no code path and have no configuration here");
    rep.rule("K: compute_similarity over every ordered pair of grid vectors of equal dimension against the f64 cosine");
    rep.assume("search_with_hnsw_and_metric(Cosine) reports (cos+1)/2 as documented on ExtendedDistanceMetric::to_similarity; IVF-flat and Euclidean report 1/(1+distance)");

    // the harness runs on a pool of its own: every node waits for a thread of its own, and the engine's parallel paths
    // (rayon's global pool) must find free workers while all harness workers wait
    let pool = rayon::ThreadPoolBuilder::new().num_threads(std::thread::available_parallelism().map_or(16, usize::from)).build().expect("harness thread pool");
    pool.install(|| explore_all(&mut rep, thorough));
    rep.finish();
}
