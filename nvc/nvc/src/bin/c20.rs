//! C20 — encoders and decoders are exact inverses and reject garbage safely (DESIGN §5, C20).
//!
//! In-process parts (valid inputs, rayon):
//!   A ids      : every u64 sequence (len ≤ N) over {0,1,2,127,128,2^32,MAX}, unsorted + duplicates,
//!                through varint / delta / compress_ids and through the snapshot file of TensorStore.
//!   B rle      : every i64 sequence (len ≤ N) over 3 symbols through rle_encode/rle_decode + bitcode.
//!   C sparse   : every f32 vector (len ≤ N) over 10 extreme floats through SparseVector and the
//!                sparse snapshot value.
//!   D messages : every Message variant × optional fields × codec v1 / v2 / v2+LZ4 × frame limits.
//!   E records  : WAL record types of the three logs, snapshot headers, streaming trailers.
//!   F tt       : tensor-train decompose/reconstruct on {-1,0,1}^d and two long vectors (lossy bound).
//! Sub-process part (arbitrary bytes; an abort of the decoder is a verdict, not a crash of the checker):
//!   G garbage  : per decoder every byte string of length ≤ 2 (≤ 3 thorough), every truncation and
//!                every single-bit flip of each valid encoding, length prefixes around the limit;
//!                a counting global allocator observes the largest single request.
use nvc::Report;
use rayon::prelude::*;
use serde_json::{json, Value};
use std::alloc::{GlobalAlloc, Layout, System};
use std::cell::RefCell;
use std::collections::BTreeMap;
use std::sync::atomic::{AtomicBool, AtomicIsize, AtomicPtr, AtomicUsize, Ordering::Relaxed};

// ------------------------------------------------------------------------------------------------
// counting / guarding global allocator
// ------------------------------------------------------------------------------------------------
struct Guard;
static TRACK: AtomicBool = AtomicBool::new(false);
static CUR: AtomicIsize = AtomicIsize::new(0);
static PEAK: AtomicIsize = AtomicIsize::new(0);
static MAXREQ: AtomicUsize = AtomicUsize::new(0);
/// single requests above this are refused (null) — only set in garbage workers
static CAP: AtomicUsize = AtomicUsize::new(usize::MAX);
/// zero-initialised requests (`vec![0u8; len]`) are lazily mapped by the system allocator and cost
/// nothing until touched, so they are let through up to this size (and still measured)
static ZCAP: AtomicUsize = AtomicUsize::new(usize::MAX);
/// shared state page of a garbage worker (slot 1 receives the refused request size)
static STATE: AtomicPtr<u64> = AtomicPtr::new(std::ptr::null_mut());

#[inline]
fn note(size: usize) -> bool {
    note_cap(size, &CAP)
}
#[inline]
fn note_cap(size: usize, cap: &AtomicUsize) -> bool {
    if size > cap.load(Relaxed) {
        let p = STATE.load(Relaxed);
        if !p.is_null() {
            unsafe { p.add(1).write_volatile(size as u64) };
        }
        return false;
    }
    if TRACK.load(Relaxed) {
        let c = CUR.fetch_add(size as isize, Relaxed) + size as isize;
        PEAK.fetch_max(c, Relaxed);
        MAXREQ.fetch_max(size, Relaxed);
    }
    true
}
unsafe impl GlobalAlloc for Guard {
    unsafe fn alloc(&self, l: Layout) -> *mut u8 {
        if !note(l.size()) {
            return std::ptr::null_mut();
        }
        System.alloc(l)
    }
    unsafe fn alloc_zeroed(&self, l: Layout) -> *mut u8 {
        if !note_cap(l.size(), &ZCAP) {
            return std::ptr::null_mut();
        }
        System.alloc_zeroed(l)
    }
    unsafe fn dealloc(&self, p: *mut u8, l: Layout) {
        if TRACK.load(Relaxed) {
            CUR.fetch_sub(l.size() as isize, Relaxed);
        }
        System.dealloc(p, l)
    }
    unsafe fn realloc(&self, p: *mut u8, l: Layout, new: usize) -> *mut u8 {
        if new > CAP.load(Relaxed) {
            note(new);
            return std::ptr::null_mut();
        }
        if TRACK.load(Relaxed) {
            let c = CUR.fetch_add(new as isize - l.size() as isize, Relaxed) + new as isize - l.size() as isize;
            PEAK.fetch_max(c, Relaxed);
            MAXREQ.fetch_max(new, Relaxed);
        }
        System.realloc(p, l, new)
    }
}
#[global_allocator]
static GLOBAL: Guard = Guard;

// ------------------------------------------------------------------------------------------------
// panic capture
// ------------------------------------------------------------------------------------------------
thread_local! { static LAST_PANIC: RefCell<Option<(String, String)>> = const { RefCell::new(None) }; }

fn install_panic_hook() {
    std::panic::set_hook(Box::new(|info| {
        let loc = info.location().map(|l| l.file().to_string()).unwrap_or_default();
        let loc = loc.rsplit_once("/repo/").map(|x| x.1.to_string()).unwrap_or(loc);
        let loc = match loc.find("/registry/src/") {
            Some(i) => loc[i + 14..].split_once('/').map(|x| x.1.to_string()).unwrap_or(loc.clone()),
            None => loc,
        };
        let msg = if let Some(s) = info.payload().downcast_ref::<&str>() {
            s.to_string()
        } else if let Some(s) = info.payload().downcast_ref::<String>() {
            s.clone()
        } else {
            "panic".to_string()
        };
        LAST_PANIC.with(|p| *p.borrow_mut() = Some((loc, msg)));
    }));
}
/// run `f`; a panic becomes Err((file, message))
fn guarded<T>(f: impl FnOnce() -> T) -> Result<T, (String, String)> {
    match std::panic::catch_unwind(std::panic::AssertUnwindSafe(f)) {
        Ok(v) => Ok(v),
        Err(_) => Err(LAST_PANIC.with(|p| p.borrow_mut().take()).unwrap_or_default()),
    }
}
/// digits → N, cut at 60 chars: panic messages of one call site collapse to one signature
fn norm_msg(m: &str) -> String {
    let mut out = String::new();
    let mut in_num = false;
    for c in m.chars() {
        if c.is_ascii_digit() {
            if !in_num {
                out.push('N');
            }
            in_num = true;
        } else {
            in_num = false;
            out.push(if c == ' ' { '_' } else { c });
        }
        if out.len() >= 60 {
            break;
        }
    }
    out
}
fn hex(b: &[u8]) -> String {
    b.iter().map(|x| format!("{x:02x}")).collect()
}
fn unhex(s: &str) -> Vec<u8> {
    (0..s.len() / 2).map(|i| u8::from_str_radix(&s[2 * i..2 * i + 2], 16).unwrap_or(0)).collect()
}

// ------------------------------------------------------------------------------------------------
// accumulator (mergeable across rayon chunks)
// ------------------------------------------------------------------------------------------------
#[derive(Default, Clone, serde::Serialize, serde::Deserialize)]
struct Acc {
    cases: u64,
    evals: u64,
    nontrivial: u64,
    counts: BTreeMap<String, u64>,
    by_sig: BTreeMap<String, u64>,
    kept: Vec<(String, String, Value)>,
    samples: Vec<Value>,
}
impl Acc {
    fn viol(&mut self, sig: impl Into<String>, msg: impl Into<String>, replay: Value) {
        let sig = sig.into();
        let n = self.by_sig.entry(sig.clone()).or_insert(0);
        *n += 1;
        if *n <= 3 {
            self.kept.push((sig, msg.into(), replay));
        }
    }
    fn count(&mut self, k: &str, n: u64) {
        *self.counts.entry(k.to_string()).or_insert(0) += n;
    }
    fn merge(&mut self, o: Acc) {
        self.cases += o.cases;
        self.evals += o.evals;
        self.nontrivial += o.nontrivial;
        for (k, v) in o.counts {
            *self.counts.entry(k).or_insert(0) += v;
        }
        for (k, v) in o.by_sig {
            *self.by_sig.entry(k).or_insert(0) += v;
        }
        for k in o.kept {
            if self.kept.iter().filter(|x| x.0 == k.0).count() < 3 {
                self.kept.push(k);
            }
        }
        for s in o.samples {
            if self.samples.len() < 2 {
                self.samples.push(s);
            }
        }
    }
    fn part_json(&self, extra: Value) -> Value {
        json!({"cases": self.cases, "oracle_evaluations": self.evals, "nontrivial": self.nontrivial,
               "counts": self.counts, "violating_cases_by_signature": self.by_sig, "bounds": extra})
    }
}
fn par_acc<T: Sync>(items: &[T], chunk: usize, f: impl Fn(&T, &mut Acc) + Sync) -> Acc {
    let parts: Vec<Acc> = items
        .par_chunks(chunk.max(1))
        .map(|c| {
            let mut a = Acc::default();
            for x in c {
                f(x, &mut a);
            }
            a
        })
        .collect();
    let mut t = Acc::default();
    for p in parts {
        t.merge(p);
    }
    t
}
/// every sequence over `alpha` with length 0..=n, shortest first
fn seqs_upto<T: Copy>(alpha: &[T], n: usize) -> Vec<Vec<T>> {
    let mut out = vec![vec![]];
    let mut frontier: Vec<Vec<T>> = vec![vec![]];
    for _ in 0..n {
        let mut next = Vec::with_capacity(frontier.len() * alpha.len());
        for s in &frontier {
            for &a in alpha {
                let mut t = s.clone();
                t.push(a);
                next.push(t);
            }
        }
        out.extend(next.iter().cloned());
        frontier = next;
    }
    out
}

static T0: std::sync::OnceLock<std::time::Instant> = std::sync::OnceLock::new();
static SELFTEST: AtomicBool = AtomicBool::new(false);
fn selftest() -> bool {
    SELFTEST.load(Relaxed)
}


// ------------------------------------------------------------------------------------------------
// Part A — identifier lists
// ------------------------------------------------------------------------------------------------
const ID_ALPHA: [u64; 7] = [0, 1, 2, 127, 128, 1 << 32, u64::MAX];

fn check_ids(ids: &[u64], a: &mut Acc) {
    use tensor_compress::{compress_ids, decompress_ids, delta_decode, delta_encode, varint_decode, varint_encode};
    a.cases += 1;
    let sorted = ids.windows(2).all(|w| w[0] <= w[1]);
    let dup = ids.windows(2).any(|w| w[0] == w[1]);
    if !sorted || dup {
        a.nontrivial += 1;
    }
    a.count(if sorted { "sorted" } else { "unsorted" }, 1);
    // varint layer: lossless for every u64 sequence
    let r = guarded(|| varint_decode(&varint_encode(ids)));
    a.evals += 1;
    let expect: Vec<u64> = if selftest() && ids.len() == 2 { vec![ids[0]] } else { ids.to_vec() };
    match r {
        Ok(v) if v == expect => {}
        Ok(v) => a.viol("c20:varint-roundtrip", format!("varint_decode(varint_encode({ids:?})) = {v:?}"), json!({"part":"A","codec":"varint","ids":ids})),
        Err((f, m)) => a.viol(format!("c20:varint-panic:{f}"), format!("varint on {ids:?} panicked: {m}"), json!({"part":"A","codec":"varint","ids":ids})),
    }
    // delta layer alone (information: which layer loses the data)
    if let Ok(v) = guarded(|| delta_decode(&delta_encode(ids))) {
        if v != ids {
            a.count("delta_layer_mismatch", 1);
        }
    }
    // the codec as exported
    let r = guarded(|| {
        let bytes = compress_ids(ids);
        (decompress_ids(&bytes), bytes)
    });
    a.evals += 1;
    match r {
        Ok((v, _)) if v == ids => {}
        Ok((v, bytes)) => {
            let sig = if sorted { "c20:compress-ids-sorted" } else { "c20:compress-ids-unsorted" };
            a.viol(sig, format!("decompress_ids(compress_ids({ids:?})) = {v:?} (encoding {})", hex(&bytes)), json!({"part":"A","codec":"compress_ids","ids":ids,"decoded":v}));
        }
        Err((f, m)) => a.viol(format!("c20:compress-ids-panic:{f}"), format!("compress_ids on {ids:?} panicked: {m}"), json!({"part":"A","codec":"compress_ids","ids":ids})),
    }
    if a.samples.is_empty() && ids.len() == 3 && !sorted {
        a.samples.push(json!({"part":"A","ids":ids}));
    }
}

fn part_a(n: usize) -> Acc {
    let all = seqs_upto(&ID_ALPHA, n);
    par_acc(&all, 4096, |s, a| check_ids(s, a))
}

// ------------------------------------------------------------------------------------------------
// Part B — run-length coding
// ------------------------------------------------------------------------------------------------
const RLE_ALPHA: [i64; 3] = [0, -1, i64::MAX];

fn check_rle(data: &[i64], a: &mut Acc) {
    use tensor_compress::{rle_decode, rle_encode, RleEncoded};
    a.cases += 1;
    // reference: runs of the input
    let mut ref_vals: Vec<i64> = vec![];
    let mut ref_runs: Vec<u32> = vec![];
    for &x in data {
        if ref_vals.last() == Some(&x) {
            *ref_runs.last_mut().unwrap() += 1;
        } else {
            ref_vals.push(x);
            ref_runs.push(1);
        }
    }
    if ref_runs.iter().any(|&r| r > 1) {
        a.nontrivial += 1;
    }
    let expect: Vec<i64> = if selftest() && data.len() == 2 { data[..1].to_vec() } else { data.to_vec() };
    let r = guarded(|| {
        let e = rle_encode(data);
        let d = rle_decode(&e);
        let bytes = bitcode::serialize(&e).expect("serialize rle");
        let e2: Result<RleEncoded<i64>, _> = bitcode::deserialize(&bytes);
        (e, d, e2.map(|x| rle_decode(&x)).ok())
    });
    a.evals += 3;
    let rp = json!({"part":"B","data":data});
    match r {
        Ok((e, d, d2)) => {
            if d != expect {
                a.viol("c20:rle-roundtrip", format!("rle_decode(rle_encode({data:?})) = {d:?}"), rp.clone());
            }
            if e.values != ref_vals || e.run_lengths != ref_runs || e.len() != data.len() {
                a.viol("c20:rle-encoding-shape", format!("rle_encode({data:?}) = {:?}/{:?}, reference {ref_vals:?}/{ref_runs:?}", e.values, e.run_lengths), rp.clone());
            }
            if d2.as_deref() != Some(data) {
                a.viol("c20:rle-bitcode-roundtrip", format!("bitcode round trip of rle_encode({data:?}) decodes to {d2:?}"), rp);
            }
        }
        Err((f, m)) => a.viol(format!("c20:rle-panic:{f}"), format!("rle on {data:?} panicked: {m}"), rp),
    }
    if a.samples.is_empty() && data.len() == 5 {
        a.samples.push(json!({"part":"B","data":data}));
    }
}
fn part_b(n: usize) -> Acc {
    let all = seqs_upto(&RLE_ALPHA, n);
    par_acc(&all, 4096, |s, a| check_rle(s, a))
}

// ------------------------------------------------------------------------------------------------
// Part C — sparse vectors
// ------------------------------------------------------------------------------------------------
fn f32_alpha() -> [f32; 10] {
    [0.0, -0.0, 1.0, -1.5, f32::MIN_POSITIVE, f32::from_bits(1), f32::MAX, f32::INFINITY, f32::NEG_INFINITY, f32::NAN]
}
/// value equality of the property: bit pattern, with -0.0 and +0.0 identified
fn feq(a: f32, b: f32) -> bool {
    a.to_bits() == b.to_bits() || (a == 0.0 && b == 0.0)
}
fn veq(a: &[f32], b: &[f32]) -> bool {
    a.len() == b.len() && a.iter().zip(b).all(|(x, y)| feq(*x, *y))
}
fn fshow(v: &[f32]) -> Vec<String> {
    v.iter().map(|x| format!("{x:?}")).collect()
}

fn check_sparse(v: &[f32], a: &mut Acc) {
    use tensor_compress::format::{compress_dense_as_sparse, compress_sparse, decompress_vector};
    use tensor_store::SparseVector;
    a.cases += 1;
    let nnz_ref = v.iter().filter(|x| **x != 0.0).count();
    if nnz_ref > 0 && nnz_ref < v.len() {
        a.nontrivial += 1;
    }
    let rp = json!({"part":"C","vector_bits": v.iter().map(|x| x.to_bits()).collect::<Vec<_>>(), "vector": fshow(v)});
    let mut expect = v.to_vec();
    if selftest() && v.len() == 2 {
        expect[0] = 42.0;
    }
    let r = guarded(|| {
        let sv = SparseVector::from_dense(v);
        let d = sv.to_dense();
        let bytes = bitcode::serialize(&sv).expect("serialize sparse");
        let sv2: Result<SparseVector, _> = bitcode::deserialize(&bytes);
        (sv.dimension(), sv.nnz(), sv.positions().to_vec(), d, sv2.map(|s| s.to_dense()).ok())
    });
    a.evals += 2;
    match r {
        Ok((dim, nnz, pos, d, d2)) => {
            if !veq(&d, &expect) {
                a.viol("c20:sparse-roundtrip", format!("to_dense(from_dense({:?})) = {:?}", fshow(v), fshow(&d)), rp.clone());
            }
            if dim != v.len() || nnz != nnz_ref || !pos.windows(2).all(|w| w[0] < w[1]) || pos.iter().any(|p| *p as usize >= v.len().max(1) && !v.is_empty()) {
                a.viol("c20:sparse-shape", format!("from_dense({:?}): dimension {dim}, nnz {nnz}, positions {pos:?}", fshow(v)), rp.clone());
            }
            match d2 {
                Some(d2) if veq(&d2, v) => {}
                other => a.viol("c20:sparse-bitcode-roundtrip", format!("bitcode round trip of from_dense({:?}) gives {:?}", fshow(v), other.map(|x| fshow(&x))), rp.clone()),
            }
        }
        Err((f, m)) => a.viol(format!("c20:sparse-panic:{f}"), format!("SparseVector on {:?} panicked: {m}", fshow(v)), rp.clone()),
    }
    // sparse snapshot value (delta-coded positions)
    let r = guarded(|| {
        let auto = compress_dense_as_sparse(v).map(|cv| decompress_vector(&cv).map_err(|e| e.to_string()));
        let pos: Vec<u32> = v.iter().enumerate().filter(|(_, x)| **x != 0.0).map(|(i, _)| i as u32).collect();
        let vals: Vec<f32> = v.iter().copied().filter(|x| *x != 0.0).collect();
        let manual = decompress_vector(&compress_sparse(v.len(), &pos, &vals)).map_err(|e| e.to_string());
        (auto, manual)
    });
    a.evals += 1;
    match r {
        Ok((auto, manual)) => {
            if let Some(x) = auto {
                a.evals += 1;
                a.count("dense_as_sparse_taken", 1);
                if !matches!(&x, Ok(d) if veq(d, v)) {
                    a.viol("c20:snapshot-sparse-roundtrip", format!("decompress_vector(compress_dense_as_sparse({:?})) = {:?}", fshow(v), x.map(|d| fshow(&d))), rp.clone());
                }
            }
            if !matches!(&manual, Ok(d) if veq(d, v)) {
                a.viol("c20:snapshot-sparse-roundtrip", format!("decompress_vector(compress_sparse({:?})) = {:?}", fshow(v), manual.map(|d| fshow(&d))), rp.clone());
            }
        }
        Err((f, m)) => a.viol(format!("c20:snapshot-sparse-panic:{f}"), format!("sparse snapshot value on {:?} panicked: {m}", fshow(v)), rp),
    }
    if a.samples.is_empty() && v.len() == 4 && nnz_ref == 2 {
        a.samples.push(json!({"part":"C","vector": fshow(v)}));
    }
}
fn part_c(n: usize, grid_d: usize) -> Acc {
    let mut all = seqs_upto(&f32_alpha(), n);
    // the C06 grid {-1,0,1}^d
    all.extend(seqs_upto(&[-1.0f32, 0.0, 1.0], grid_d).into_iter().filter(|v| v.len() > n));
    par_acc(&all, 2048, |s, a| check_sparse(s, a))
}

// ------------------------------------------------------------------------------------------------
// Part F — tensor train (lossy)
// ------------------------------------------------------------------------------------------------
/// Bound demanded: relative L2 error ≤ max(1 %, 10·tol·sqrt(Σ_k min(rows_k, cols_k))) whenever the rank
/// cap cannot bind (max_rank ≥ min(rows_k, cols_k) of every unfolding), i.e. only the documented
/// `tolerance` ("relative tolerance for SVD truncation") may discard anything. 1 % is the crate's
/// headline figure ("<1% error"); the second term is ten times the TT-SVD truncation bound.
fn tt_bound(shape: &[usize], max_rank: usize, tol: f32) -> Option<f64> {
    let n = shape.len();
    let mut left = 1usize;
    let mut sum = 0usize;
    for k in 0..n.saturating_sub(1) {
        let rows = left * shape[k];
        let cols: usize = shape[k + 1..].iter().product();
        let m = rows.min(cols);
        if max_rank < m {
            return None;
        }
        sum += m;
        left = m;
    }
    Some((10.0 * tol as f64 * (sum as f64).sqrt()).max(0.01))
}
fn check_tt(v: &[f32], cfg: &tensor_compress::TTConfig, cfg_name: &str, a: &mut Acc) {
    use tensor_compress::{tt_decompose, tt_reconstruct};
    a.cases += 1;
    let norm: f64 = v.iter().map(|x| (*x as f64).powi(2)).sum::<f64>().sqrt();
    let Some(bound) = tt_bound(&cfg.shape, cfg.max_rank, cfg.tolerance) else {
        a.count("skipped_rank_cap_may_bind", 1);
        return;
    };
    let rp = json!({"part":"F","vector": v, "shape": cfg.shape, "max_rank": cfg.max_rank, "tolerance": cfg.tolerance, "config": cfg_name});
    let r = guarded(|| tt_decompose(v, cfg).map(|tt| (tt_reconstruct(&tt), tt.ranks.clone())));
    a.evals += 1;
    match r {
        Ok(Ok((rec, ranks))) => {
            if rec.len() != v.len() {
                a.viol("c20:tt-length", format!("tt_reconstruct returned {} values for {} inputs", rec.len(), v.len()), rp);
                return;
            }
            let err: f64 = v.iter().zip(&rec).map(|(x, y)| (*x as f64 - *y as f64).powi(2)).sum::<f64>().sqrt();
            let rel = if norm > 0.0 { err / norm } else { err };
            if norm > 0.0 {
                a.nontrivial += 1;
            }
            let rel = if selftest() && v.len() == 4 { rel + 1.0 } else { rel };
            if !(rel <= bound) {
                a.count(if ranks.iter().any(|r| *r == 0) { "bound_exceeded_with_rank_0" } else { "bound_exceeded_with_rank_ge_1" }, 1);
                a.viol("c20:tt-lossy-bound", format!("tt {cfg_name} shape {:?} on {v:?}: reconstruction {rec:?}, relative error {rel:.4} > bound {bound:.4} (ranks {ranks:?})", cfg.shape), rp);
            }
            if a.samples.is_empty() && v.len() == 8 && norm > 2.0 {
                a.samples.push(json!({"part":"F","vector": v, "shape": cfg.shape, "relative_error": rel, "bound": bound}));
            }
        }
        Ok(Err(e)) => a.viol("c20:tt-decompose-error", format!("tt_decompose({v:?}, {cfg_name} {:?}) = Err({e})", cfg.shape), rp),
        Err((f, m)) => a.viol(format!("c20:tt-panic:{f}"), format!("tt on {v:?} panicked: {m}"), rp),
    }
}
fn part_f(thorough: bool) -> Acc {
    use tensor_compress::TTConfig;
    let mut jobs: Vec<(Vec<f32>, TTConfig, String)> = vec![];
    let shapes: Vec<Vec<usize>> = if thorough { vec![vec![2, 2], vec![2, 3], vec![3, 2], vec![2, 2, 2], vec![3, 3], vec![2, 5]] } else { vec![vec![2, 2], vec![2, 3], vec![2, 2, 2]] };
    for shape in shapes {
        let d: usize = shape.iter().product();
        let grid: Vec<Vec<f32>> = seqs_upto(&[-1.0f32, 0.0, 1.0], d).into_iter().filter(|v| v.len() == d).collect();
        for (name, max_rank, tol) in [("for_dim", 8usize, 1e-4f32), ("high_compression", 4, 1e-2), ("high_accuracy", 16, 1e-6)] {
            let cfg = TTConfig { shape: shape.clone(), max_rank, tolerance: tol };
            for v in &grid {
                if v.iter().all(|x| *x == 0.0) {
                    continue; // tt of the zero vector: relative error undefined
                }
                jobs.push((v.clone(), cfg.clone(), name.to_string()));
            }
        }
    }
    // two structured long vectors with the crate's own presets
    for dim in [64usize, 4096] {
        let ramp: Vec<f32> = (0..dim).map(|i| i as f32 / dim as f32).collect();
        let sine: Vec<f32> = (0..dim).map(|i| (i as f32 * 0.1).sin()).collect();
        for v in [ramp, sine] {
            for (name, cfg) in [("for_dim", TTConfig::for_dim(dim)), ("high_accuracy", TTConfig::high_accuracy(dim))] {
                if let Ok(cfg) = cfg {
                    jobs.push((v.clone(), cfg, name.to_string()));
                }
            }
        }
    }
    par_acc(&jobs, 64, |(v, cfg, name), a| check_tt(v, cfg, name, a))
}


// ------------------------------------------------------------------------------------------------
// Part D — network messages, framing, compression
// ------------------------------------------------------------------------------------------------
mod msgs {
    use std::collections::HashMap;
    use tensor_chain::block::{Block, BlockHeader, Transaction, ValidatorSignature};
    use tensor_chain::codebook::{CodebookEntry, GlobalCodebookSnapshot};
    use tensor_chain::distributed_tx::TxPhase;
    use tensor_chain::gossip::{GossipMessage, GossipNodeState};
    use tensor_chain::membership::NodeHealth;
    use tensor_chain::network::*;
    use tensor_chain::partition_merge::{MembershipViewSummary, PartitionStateSummary, PendingTxState};
    use tensor_chain::signing::{SignedGossipMessage, SignedMessage};
    use tensor_store::SparseVector;

    pub fn sparse(kind: u8) -> SparseVector {
        match kind {
            0 => SparseVector::new(0),
            1 => SparseVector::from_dense(&[0.0, 1.5, 0.0, -2.0]),
            _ => SparseVector::from_dense(&[f32::MAX, 0.0, f32::MIN_POSITIVE, f32::NAN, f32::NEG_INFINITY, 0.0, 0.0, 0.0, -1.0e-45]),
        }
    }
    fn s(kind: u8) -> String {
        match kind {
            0 => String::new(),
            1 => "n1".to_string(),
            _ => "ñ✓\u{0}\u{10FFFF}-node".to_string(),
        }
    }
    fn n(kind: u8) -> u64 {
        match kind {
            0 => 0,
            1 => 7,
            _ => u64::MAX,
        }
    }
    fn us(kind: u8) -> usize {
        match kind {
            0 => 0,
            1 => 3,
            _ => usize::MAX,
        }
    }
    fn h(kind: u8) -> [u8; 32] {
        match kind {
            0 => [0; 32],
            1 => core::array::from_fn(|i| i as u8),
            _ => [0xff; 32],
        }
    }
    fn bytes(kind: u8) -> Vec<u8> {
        match kind {
            0 => vec![],
            1 => vec![1, 2, 3],
            _ => vec![0, 255, 128, 127],
        }
    }
    pub fn transactions() -> Vec<Transaction> {
        vec![
            Transaction::Put { key: s(1), data: bytes(2) },
            Transaction::Delete { key: s(2) },
            Transaction::Embed { key: s(1), vector: vec![0.0, -0.0, f32::NAN, f32::INFINITY, 1.5] },
            Transaction::NodeCreate { key: s(1), label: s(0) },
            Transaction::NodeDelete { key: s(0) },
            Transaction::EdgeCreate { from: s(1), to: s(2), edge_type: s(1) },
            Transaction::TableInsert { table: s(1), values: bytes(1) },
            Transaction::TableUpdate { table: s(1), row_id: n(2), values: bytes(0) },
            Transaction::TableDelete { table: s(2), row_id: n(0) },
            Transaction::CompareAndSwap { key: s(1), expected_data: bytes(0), new_data: bytes(2) },
        ]
    }
    pub fn block(kind: u8) -> Block {
        match kind {
            0 => Block::default(),
            _ => Block {
                header: BlockHeader {
                    height: n(kind),
                    prev_hash: h(1),
                    tx_root: h(2),
                    state_root: h(0),
                    delta_embedding: sparse(kind),
                    quantized_codes: vec![0, 1, u16::MAX],
                    timestamp: n(kind),
                    proposer: s(kind),
                    signature: bytes(kind),
                },
                transactions: transactions(),
                signatures: vec![ValidatorSignature { validator: s(1), signature: vec![9; 64], block_hash: h(1) }],
            },
        }
    }
    fn config_changes() -> Vec<ConfigChange> {
        vec![
            ConfigChange::AddLearner { node_id: s(1) },
            ConfigChange::PromoteLearner { node_id: s(2) },
            ConfigChange::RemoveNode { node_id: s(0) },
            ConfigChange::JointChange { additions: vec![s(1), s(2)], removals: vec![] },
        ]
    }
    fn codebook_change() -> CodebookChange {
        CodebookChange::Replace {
            snapshot: GlobalCodebookSnapshot::new(2, vec![CodebookEntry::new(1, vec![1.0, -0.0]), CodebookEntry::new(u32::MAX, vec![]).with_label("l")], n(2)),
        }
    }
    pub fn log_entries() -> Vec<LogEntry> {
        let mut v = vec![];
        // every combination of the two optional fields, every ConfigChange variant
        let ccs: Vec<Option<ConfigChange>> = std::iter::once(None).chain(config_changes().into_iter().map(Some)).collect();
        for cc in ccs {
            for cb in [None, Some(codebook_change())] {
                v.push(LogEntry { term: n(1), index: n(2), block: block(if cb.is_some() { 1 } else { 0 }), config_change: cc.clone(), codebook_change: cb });
            }
        }
        v
    }
    fn gossip_state(kind: u8, hlth: NodeHealth) -> GossipNodeState {
        GossipNodeState { node_id: s(kind), health: hlth, timestamp: n(kind), updated_at: n(1), incarnation: n(kind) }
    }
    pub fn gossips() -> Vec<GossipMessage> {
        let all_health = [NodeHealth::Healthy, NodeHealth::Degraded, NodeHealth::Failed, NodeHealth::Unknown];
        vec![
            GossipMessage::Sync { sender: s(1), states: vec![], sender_time: n(0) },
            GossipMessage::Sync { sender: s(2), states: all_health.iter().enumerate().map(|(i, hl)| gossip_state(i as u8 % 3, *hl)).collect(), sender_time: n(2) },
            GossipMessage::Suspect { reporter: s(1), suspect: s(2), incarnation: n(2) },
            GossipMessage::Alive { node_id: s(1), incarnation: n(1) },
            GossipMessage::PingReq { origin: s(1), target: s(2), sequence: n(2) },
            GossipMessage::PingAck { origin: s(1), target: s(0), sequence: n(1), success: true },
            GossipMessage::PingAck { origin: s(1), target: s(0), sequence: n(1), success: false },
            GossipMessage::BidirectionalProbe { origin: s(1), probe_id: n(2), timestamp: n(1) },
            GossipMessage::BidirectionalAck { origin: s(1), probe_id: n(0), responder: s(2) },
        ]
    }
    fn summary(kind: u8, emb: bool) -> PartitionStateSummary {
        PartitionStateSummary {
            node_id: s(kind),
            last_committed_index: n(kind),
            last_committed_term: n(1),
            state_embedding: if emb { Some(sparse(kind)) } else { None },
            committed_tx_ids: if kind == 0 { vec![] } else { vec![n(0), n(2)] },
            state_hash: h(kind),
            entry_count: n(kind),
        }
    }
    fn pending(kind: u8, delta: bool) -> PendingTxState {
        let mut votes = HashMap::new();
        if kind > 0 {
            votes.insert(us(kind), kind == 1);
        }
        let phases = [TxPhase::Preparing, TxPhase::Prepared, TxPhase::Committing, TxPhase::Committed, TxPhase::Aborting, TxPhase::Aborted];
        PendingTxState {
            tx_id: n(kind),
            phase: phases[(kind as usize * 2 + delta as usize) % 6],
            coordinator: s(kind),
            participants: if kind == 0 { vec![] } else { vec![us(0), us(2)] },
            votes,
            delta: if delta { Some(sparse(kind)) } else { None },
            started_at: n(kind),
        }
    }

    /// every Message variant; every optional field absent and present; simplest values first, then extremes
    pub fn all() -> Vec<(String, Message)> {
        let mut v: Vec<(String, Message)> = vec![];
        let mut add = |name: &str, m: Message| v.push((format!("{}#{}", m.type_name(), name), m));
        for k in 0..3u8 {
            let t = format!("k{k}");
            add(&t, Message::RequestVote(RequestVote { term: n(k), candidate_id: s(k), last_log_index: n(k), last_log_term: n(1), state_embedding: sparse(k) }));
            add(&t, Message::RequestVoteResponse(RequestVoteResponse { term: n(k), vote_granted: k == 1, voter_id: s(k) }));
            add(&t, Message::PreVote(PreVote { term: n(k), candidate_id: s(k), last_log_index: n(k), last_log_term: n(k), state_embedding: sparse(k) }));
            add(&t, Message::PreVoteResponse(PreVoteResponse { term: n(k), vote_granted: k != 1, voter_id: s(k) }));
            add(&t, Message::TimeoutNow(TimeoutNow { term: n(k), leader_id: s(k) }));
            add(&t, Message::AppendEntriesResponse(AppendEntriesResponse { term: n(k), success: k == 1, follower_id: s(k), match_index: n(k), used_fast_path: k == 2 }));
            add(&t, Message::BlockRequest(BlockRequest { from_height: n(k), to_height: n(2), requester_id: s(k) }));
            add(&t, Message::BlockResponse(BlockResponse { blocks: (0..k).map(block).collect(), current_height: n(k) }));
            add(&t, Message::SnapshotRequest(SnapshotRequest { requester_id: s(k), offset: n(k), chunk_size: n(2) }));
            add(&t, Message::SnapshotResponse(SnapshotResponse { snapshot_height: n(k), snapshot_hash: h(k), data: bytes(k), offset: n(k), total_size: n(2), is_last: k == 1 }));
            add(&t, Message::Ping { term: n(k) });
            add(&t, Message::Pong { term: n(k) });
            add(&t, Message::TxPrepare(TxPrepareMsg { tx_id: n(k), coordinator: s(k), shard_id: us(k), operations: if k == 0 { vec![] } else { transactions() }, delta_embedding: sparse(k), timeout_ms: n(k) }));
            add(&t, Message::TxCommit(TxCommitMsg { tx_id: n(k), shards: if k == 0 { vec![] } else { vec![us(0), us(1), us(2)] } }));
            add(&t, Message::TxAbort(TxAbortMsg { tx_id: n(k), reason: s(k), shards: vec![us(k)] }));
            add(&t, Message::DataMergeRequest(DataMergeRequest { session_id: n(k), requester: s(k), last_committed_index: n(k), last_committed_term: n(1), key_patterns: if k == 0 { vec![] } else { vec![s(0), s(2)] } }));
            add(&t, Message::ViewExchange(MergeViewExchange { session_id: n(k), sender: s(k), view: MembershipViewSummary { node_id: s(k), lamport_time: n(k), node_states: if k == 0 { vec![] } else { vec![gossip_state(k, NodeHealth::Failed)] }, state_hash: h(k), generation: n(k) } }));
            add(&t, Message::MergeFinalize(MergeFinalize { session_id: n(k), sender: s(k), success: k == 1, final_state_hash: h(k), conflicts_resolved: if k == 2 { u32::MAX } else { k as u32 }, duration_ms: n(k) }));
            add(&t, Message::TxPrepareResponse(TxPrepareResponseMsg { tx_id: n(k), shard_id: us(k), vote: TxVote::Yes { lock_handle: n(k), delta: sparse(k), affected_keys: if k == 0 { vec![] } else { vec![s(1), s(2)] } } }));
            add(&t, Message::TxPrepareResponse(TxPrepareResponseMsg { tx_id: n(k), shard_id: us(k), vote: TxVote::No { reason: s(k) } }));
            add(&t, Message::TxPrepareResponse(TxPrepareResponseMsg { tx_id: n(k), shard_id: us(k), vote: TxVote::Conflict { similarity: [0.0, 0.5, f32::NAN][k as usize], conflicting_tx: n(k) } }));
            add(&t, Message::SignedGossip(SignedGossipMessage { envelope: SignedMessage { sender: s(k), public_key: h(k), payload: bytes(k), signature: if k == 0 { vec![] } else { vec![k; 64] }, sequence: n(k), timestamp_ms: n(k) } }));
            for opt in [false, true] {
                let t = format!("k{k}-opt{}", opt as u8);
                add(&t, Message::AppendEntries(AppendEntries { term: n(k), leader_id: s(k), prev_log_index: n(k), prev_log_term: n(1), entries: if k == 0 { vec![] } else { log_entries() }, leader_commit: n(k), block_embedding: if opt { Some(sparse(k)) } else { None } }));
                add(&t, Message::TxAck(TxAckMsg { tx_id: n(k), shard_id: us(k), success: !opt, error: if opt { Some(s(k)) } else { None } }));
                add(&t, Message::QueryRequest(QueryRequest { query_id: n(k), query: s(k), shard_id: us(k), embedding: if opt { Some(sparse(k)) } else { None }, timeout_ms: n(k) }));
                add(&t, Message::QueryResponse(QueryResponse { query_id: n(k), shard_id: us(k), result: bytes(k), execution_time_us: n(k), success: !opt, error: if opt { Some(s(k)) } else { None } }));
                add(&t, Message::MergeInit(MergeInit { session_id: n(k), initiator: s(k), healed_nodes: if k == 0 { vec![] } else { vec![s(1), s(2)] }, local_summary: summary(k, opt) }));
                add(&t, Message::DataMergeResponse(DataMergeResponse {
                    session_id: n(k),
                    responder: s(k),
                    delta_entries: if k == 0 { vec![] } else { [MergeOpType::Put, MergeOpType::Delete, MergeOpType::Update].iter().map(|op| MergeDeltaEntry { key: s(k), log_index: n(k), log_term: n(1), op_type: *op, data_hash: h(k) }).collect() },
                    state_embedding: if opt { Some(sparse(k)) } else { None },
                    has_more: opt,
                }));
                add(&t, Message::TxReconcileRequest(TxReconcileRequest { session_id: n(k), requester: s(k), pending_txs: if k == 0 && !opt { vec![] } else { vec![pending(k, opt), pending(0, !opt)] } }));
                add(&t, Message::TxReconcileResponse(TxReconcileResponse { session_id: n(k), responder: s(k), pending_txs: vec![pending(k, opt)], to_commit: if opt { vec![n(0), n(2)] } else { vec![] }, to_abort: if opt { vec![] } else { vec![n(1)] } }));
                for opt2 in [false, true] {
                    let t = format!("k{k}-opt{}{}", opt as u8, opt2 as u8);
                    add(&t, Message::MergeAck(MergeAck { session_id: n(k), responder: s(k), accepted: opt, local_summary: if opt { Some(summary(k, opt2)) } else { None }, reject_reason: if opt2 { Some(s(k)) } else { None } }));
                }
            }
        }
        for (i, le) in log_entries().into_iter().enumerate().filter(|(i, _)| *i == 2 || *i == 7) {
            add(&format!("k1c{i}"), Message::AppendEntries(AppendEntries { term: 1, leader_id: s(1), prev_log_index: 1, prev_log_term: 1, entries: vec![le], leader_commit: 1, block_embedding: Some(sparse(1)) }));
        }
        for (i, g) in gossips().into_iter().enumerate() {
            add(&format!("g{i}"), Message::Gossip(g));
        }
        // two large, compressible messages (cross the LZ4 min_size and make compression beneficial)
        add("big-zero", Message::SnapshotResponse(SnapshotResponse { snapshot_height: 1, snapshot_hash: h(1), data: vec![0; 3000], offset: 0, total_size: 3000, is_last: true }));
        add("big-text", Message::QueryResponse(QueryResponse { query_id: 1, shard_id: 0, result: b"row,row,row,".repeat(200), execution_time_us: 1, success: true, error: None }));
        v
    }
}

#[derive(Clone, Copy, Debug, PartialEq, Eq)]
enum Mode {
    V1,
    V2Plain,
    V2Lz4Always,
    V2Lz4Default,
}
const MODES: [Mode; 4] = [Mode::V1, Mode::V2Plain, Mode::V2Lz4Always, Mode::V2Lz4Default];
fn codec(mode: Mode, max: usize) -> tensor_chain::LengthDelimitedCodec {
    use tensor_chain::tcp::compression::CompressionConfig;
    use tensor_chain::LengthDelimitedCodec;
    match mode {
        Mode::V1 | Mode::V2Plain => LengthDelimitedCodec::new(max),
        Mode::V2Lz4Always => {
            let mut c = LengthDelimitedCodec::with_compression(max, CompressionConfig::default().with_min_size(0));
            c.set_compression_enabled(true);
            c
        }
        Mode::V2Lz4Default => {
            let mut c = LengthDelimitedCodec::with_compression(max, CompressionConfig::default());
            c.set_compression_enabled(true);
            c
        }
    }
}
fn rt() -> tokio::runtime::Runtime {
    tokio::runtime::Builder::new_current_thread().enable_time().build().expect("tokio runtime")
}
/// read every frame of `stream` with the real async reader until it reports end of stream or an error
fn read_stream(rt: &tokio::runtime::Runtime, c: &tensor_chain::LengthDelimitedCodec, v2: bool, stream: &[u8]) -> (Vec<String>, Option<String>) {
    let mut rd: &[u8] = stream;
    let mut out = vec![];
    loop {
        let r = rt.block_on(async {
            if v2 {
                c.read_frame_v2(&mut rd).await
            } else {
                c.read_frame(&mut rd).await
            }
        });
        match r {
            Ok(Some(m)) => out.push(format!("{m:?}")),
            Ok(None) => return (out, None),
            Err(e) => return (out, Some(e.to_string())),
        }
        if out.len() > 8 {
            return (out, Some("more than 8 frames".into()));
        }
    }
}

fn check_message(name: &str, m: &tensor_chain::network::Message, a: &mut Acc) {
    use tensor_chain::network::Message;
    use tensor_chain::tcp::TcpError;
    a.cases += 1;
    let want = if selftest() && name.starts_with("Ping#k1") { "corrupted expectation".to_string() } else { format!("{m:?}") };
    let ser = match guarded(|| bitcode::serialize(m)) {
        Ok(Ok(b)) => b,
        other => {
            a.viol("c20:message-serialize", format!("bitcode::serialize({name}) failed: {:?}", other.map(|r| r.map(|_| ()).map_err(|e| e.to_string()))), json!({"part":"D","message":name}));
            return;
        }
    };
    // plain bitcode round trip (value and canonical re-encoding)
    a.evals += 1;
    match guarded(|| bitcode::deserialize::<Message>(&ser)) {
        Ok(Ok(m2)) => {
            let re = bitcode::serialize(&m2).unwrap_or_default();
            if format!("{m2:?}") != want || re != ser {
                a.viol("c20:message-bitcode-roundtrip", format!("{name}: decoded {m2:?}, encoded {want}"), json!({"part":"D","message":name,"codec":"bitcode"}));
            }
        }
        other => a.viol("c20:message-bitcode-roundtrip", format!("{name}: bitcode decode of own encoding failed: {:?}", other.map(|r| r.map(|_| ()).map_err(|e| e.to_string()))), json!({"part":"D","message":name,"codec":"bitcode"})),
    }
    let rt = rt();
    let l = ser.len();
    for mode in MODES {
        let v2 = mode != Mode::V1;
        // frame limits: far above, and the five values around the serialized length
        let mut limits = vec![1usize << 20, l.saturating_sub(2), l - 1, l, l + 1, l + 2];
        if v2 {
            // and around the actual frame content (flags + possibly compressed payload)
            if let Ok(Ok(f)) = guarded(|| codec(mode, 1 << 20).encode_v2(m)) {
                let content = f.len() - 4;
                limits.extend([content.saturating_sub(1), content, content + 1]);
            }
        }
        limits.sort_unstable();
        limits.dedup();
        for max in limits {
            let c = codec(mode, max);
            let rp = json!({"part":"D","message":name,"mode":format!("{mode:?}"),"max_frame_length":max,"serialized_len":l});
            let enc = guarded(|| if v2 { c.encode_v2(m) } else { c.encode(m) });
            a.evals += 1;
            let frame = match enc {
                Err((f, pm)) => {
                    a.viol(format!("c20:frame-encode-panic:{f}"), format!("{name} {mode:?} max={max}: encode panicked: {pm}"), rp);
                    continue;
                }
                Ok(Err(TcpError::MessageTooLarge { .. })) => {
                    a.count("encode_refused_too_large", 1);
                    // documented: v1 refuses iff the serialized payload exceeds the limit; v2 iff flags+payload do
                    if !v2 && l <= max || v2 && mode == Mode::V2Plain && 1 + l <= max {
                        a.viol("c20:frame-encode-refuses-within-limit", format!("{name} {mode:?}: {l}-byte payload refused with max_frame_length {max}"), rp);
                    }
                    continue;
                }
                Ok(Err(e)) => {
                    a.viol("c20:frame-encode-error", format!("{name} {mode:?} max={max}: encode failed: {e}"), rp);
                    continue;
                }
                Ok(Ok(f)) => f,
            };
            a.count("encode_ok", 1);
            if !v2 && l > max {
                a.viol("c20:frame-encode-exceeds-limit", format!("{name} v1: {l}-byte payload accepted with max_frame_length {max}"), rp.clone());
            }
            if v2 && frame.len() > 4 && frame[4] & 1 == 1 {
                a.count("frames_lz4_compressed", 1);
            }
            // header = big-endian length of the rest
            if frame.len() < 4 || u32::from_be_bytes([frame[0], frame[1], frame[2], frame[3]]) as usize != frame.len() - 4 {
                a.viol("c20:frame-length-prefix", format!("{name} {mode:?}: length prefix does not describe the frame"), rp.clone());
                continue;
            }
            // decode_payload on the payload
            let dec = guarded(|| if v2 { c.decode_payload_v2(&frame[4..]) } else { c.decode_payload(&frame[4..]) });
            a.evals += 1;
            let lim_kind = if max < (1 << 20) { "at-limit" } else { "roomy" };
            match dec {
                Ok(Ok(m2)) if format!("{m2:?}") == want => {}
                Ok(Ok(m2)) => a.viol("c20:frame-roundtrip-value", format!("{name} {mode:?} max={max}: decoded {m2:?}"), rp.clone()),
                Ok(Err(e)) => a.viol(format!("c20:frame-encode-ok-decode-err:{}:{lim_kind}", if v2 { "v2" } else { "v1" }), format!("{name} {mode:?} max_frame_length={max} (payload {l} B, frame content {} B): encode succeeded, decode_payload of that frame failed: {e}", frame.len() - 4), rp.clone()),
                Err((f, pm)) => a.viol(format!("c20:frame-decode-panic:{f}"), format!("{name} {mode:?} max={max}: decode panicked: {pm}"), rp.clone()),
            }
            // the real stream reader: two frames back to back, then clean end of stream
            if max == 1 << 20 || max == l + 2 {
                let mut stream = frame.clone();
                stream.extend_from_slice(&frame);
                let r = guarded(|| read_stream(&rt, &c, v2, &stream));
                a.evals += 1;
                match r {
                    Ok((ms, None)) if ms.len() == 2 && ms[0] == want && ms[1] == want => {}
                    Ok((ms, err)) => a.viol(format!("c20:stream-roundtrip:{}:{lim_kind}", if v2 { "v2" } else { "v1" }), format!("{name} {mode:?} max={max}: two frames written, reader produced {} message(s) equal={:?} then {err:?}", ms.len(), ms.iter().map(|x| *x == want).collect::<Vec<_>>()), rp.clone()),
                    Err((f, pm)) => a.viol(format!("c20:stream-read-panic:{f}"), format!("{name} {mode:?}: read_frame panicked: {pm}"), rp.clone()),
                }
            }
        }
    }
    if a.samples.is_empty() && name.starts_with("MergeAck#k2-opt11") {
        a.samples.push(json!({"part":"D","message":name,"serialized_len":l,"modes":MODES.iter().map(|m| format!("{m:?}")).collect::<Vec<_>>()}));
    }
}
/// the configured limit above MAX_DECOMPRESSED_SIZE: a compressible message larger than 16 MiB
fn part_d_big() -> Acc {
    use tensor_chain::network::{Message, SnapshotResponse};
    let mut a = Acc::default();
    let m = Message::SnapshotResponse(SnapshotResponse { snapshot_height: 1, snapshot_hash: [1; 32], data: (0..16 * 1024 * 1024 + 1).map(|i| (i % 251) as u8).collect(), offset: 0, total_size: 0, is_last: true });
    for max in [32usize << 20, 64 << 20] {
        let c = codec(Mode::V2Lz4Default, max);
        a.cases += 1;
        a.evals += 1;
        let rp = json!({"part":"D","message":"SnapshotResponse(16MiB+1 bytes of a repeating pattern)","mode":"V2Lz4Default","max_frame_length":max});
        match guarded(|| c.encode_v2(&m).map(|f| (f.len(), c.decode_payload_v2(&f[4..]).map(|m2| matches!(m2, Message::SnapshotResponse(ref r) if r.data.len() == 16 * 1024 * 1024 + 1))))) {
            Ok(Ok((_, Ok(true)))) | Ok(Err(_)) => {}
            Ok(Ok((flen, r))) => a.viol("c20:frame-encode-ok-decode-err:v2:roomy", format!("SnapshotResponse with 16 MiB+1 pattern bytes, max_frame_length {max}: encode_v2 produced a {flen}-byte frame, decode_payload_v2 of it: {:?}", r.map_err(|e| e.to_string())), rp),
            Err((f, pm)) => a.viol(format!("c20:frame-decode-panic:{f}"), format!("big message panicked: {pm}"), rp),
        }
    }
    a
}

// ------------------------------------------------------------------------------------------------
// Part E — log records, snapshot headers, snapshot files
// ------------------------------------------------------------------------------------------------
fn scratch_file(tag: &str) -> String {
    use std::sync::atomic::AtomicU64;
    static N: AtomicU64 = AtomicU64::new(0);
    let dir = SCRATCH.get().expect("scratch dir").clone();
    format!("{dir}/{tag}-{}-{}", std::process::id(), N.fetch_add(1, Relaxed))
}
static SCRATCH: std::sync::OnceLock<String> = std::sync::OnceLock::new();

mod recs {
    use tensor_chain::distributed_tx::TxPhase;
    use tensor_chain::raft_wal::RaftWalEntry;
    use tensor_chain::tx_wal::{PrepareVoteKind, TxOutcome, TxWalEntry};
    use tensor_store::entity_index::EntityId;
    use tensor_store::{ScalarValue, SparseVector, TensorData, TensorValue, WalEntry};

    pub fn tensor_values() -> Vec<TensorValue> {
        vec![
            TensorValue::Scalar(ScalarValue::Null),
            TensorValue::Scalar(ScalarValue::Bool(true)),
            TensorValue::Scalar(ScalarValue::Int(i64::MIN)),
            TensorValue::Scalar(ScalarValue::Float(f64::NAN)),
            TensorValue::Scalar(ScalarValue::Float(-0.0)),
            TensorValue::Scalar(ScalarValue::String("ñ✓\u{0}".into())),
            TensorValue::Scalar(ScalarValue::Bytes(vec![0, 255, 7])),
            TensorValue::Vector(vec![0.0, -0.0, f32::MAX, f32::NAN, f32::NEG_INFINITY]),
            TensorValue::Vector(vec![]),
            TensorValue::Sparse(SparseVector::from_dense(&[0.0, 1.5, 0.0, f32::INFINITY])),
            TensorValue::Pointer(String::new()),
            TensorValue::Pointers(vec!["a".into(), String::new()]),
        ]
    }
    pub fn tensor_wal() -> Vec<WalEntry> {
        let mut v = vec![
            WalEntry::TxBegin { tx_id: 0 },
            WalEntry::TxCommit { tx_id: 1 },
            WalEntry::TxAbort { tx_id: u64::MAX },
            WalEntry::Checkpoint { snapshot_id: 7 },
            WalEntry::MetadataDelete { key: String::new() },
            WalEntry::EntityCreate { key: "k".into(), entity_id: EntityId(u64::MAX) },
            WalEntry::EntityRemove { key: "ñ✓".into() },
            WalEntry::EmbeddingDelete { entity_id: EntityId(0) },
            WalEntry::EmbeddingSet { entity_id: EntityId(3), embedding: vec![] },
            WalEntry::EmbeddingSet { entity_id: EntityId(4), embedding: vec![f32::NAN, -0.0, f32::MIN_POSITIVE, f32::MAX] },
            WalEntry::MetadataSet { key: "empty".into(), data: TensorData::new() },
        ];
        for (i, tv) in tensor_values().into_iter().enumerate() {
            let mut d = TensorData::new();
            d.set(format!("f{i}"), tv);
            v.push(WalEntry::MetadataSet { key: format!("k{i}"), data: d });
        }
        v
    }
    pub fn raft_wal() -> Vec<RaftWalEntry> {
        vec![
            RaftWalEntry::TermChange { new_term: 0 },
            RaftWalEntry::TermChange { new_term: u64::MAX },
            RaftWalEntry::VoteCast { term: 1, candidate_id: String::new() },
            RaftWalEntry::VoteCast { term: 2, candidate_id: "ñ✓".into() },
            RaftWalEntry::TermAndVote { term: 3, voted_for: None },
            RaftWalEntry::TermAndVote { term: 3, voted_for: Some("n1".into()) },
            RaftWalEntry::LogAppend { index: 1, term: 1, command_hash: [0xab; 32] },
            RaftWalEntry::LogTruncate { from_index: u64::MAX },
            RaftWalEntry::SnapshotTaken { last_included_index: 5, last_included_term: 2 },
            RaftWalEntry::LogEntryFull { index: 2, term: 1, entry_data: vec![] },
            RaftWalEntry::LogEntryFull { index: 3, term: 1, entry_data: vec![0, 255, 1, 2, 3] },
        ]
    }
    pub fn tx_wal() -> Vec<TxWalEntry> {
        vec![
            TxWalEntry::TxBegin { tx_id: 0, participants: vec![] },
            TxWalEntry::TxBegin { tx_id: u64::MAX, participants: vec![0, usize::MAX] },
            TxWalEntry::PrepareVote { tx_id: 1, shard: 0, vote: PrepareVoteKind::Yes { lock_handle: u64::MAX } },
            TxWalEntry::PrepareVote { tx_id: 1, shard: usize::MAX, vote: PrepareVoteKind::No },
            TxWalEntry::PhaseChange { tx_id: 1, from: TxPhase::Preparing, to: TxPhase::Prepared },
            TxWalEntry::PhaseChange { tx_id: 1, from: TxPhase::Committing, to: TxPhase::Committed },
            TxWalEntry::PhaseChange { tx_id: 1, from: TxPhase::Aborting, to: TxPhase::Aborted },
            TxWalEntry::TxComplete { tx_id: 2, outcome: TxOutcome::Committed },
            TxWalEntry::TxComplete { tx_id: 2, outcome: TxOutcome::Aborted },
            TxWalEntry::LockRelease { tx_id: 3, lock_handle: 0 },
            TxWalEntry::AllLocksReleased { tx_id: 3 },
            TxWalEntry::AbortIntent { tx_id: 4, reason: String::new(), shards: vec![] },
            TxWalEntry::AbortIntent { tx_id: 4, reason: "ñ✓".into(), shards: vec![1, 2] },
        ]
    }
}

#[derive(Clone, Copy, Debug)]
enum WalKind {
    Tensor,
    Raft,
    Tx,
}
fn raft_cfg(checksums: bool) -> tensor_chain::raft_wal::WalConfig {
    tensor_chain::raft_wal::WalConfig { enable_checksums: checksums, verify_on_replay: true, max_size_bytes: 1 << 20, min_free_space_bytes: 0, max_rotated_files: 1, auto_rotate: false, pre_check_space: false }
}
fn tensor_cfg(checksums: bool) -> tensor_store::WalConfig {
    tensor_store::WalConfig { enabled: true, enable_checksums: checksums, verify_on_replay: true, max_size_bytes: 1 << 20, auto_rotate: false, max_rotated_files: 1, sync_mode: tensor_store::SyncMode::Manual }
}
/// append the entries `idx` of the kind's alphabet to a fresh log, reopen it, replay: (written, replayed) as Debug strings
fn wal_roundtrip(kind: WalKind, idx: &[usize], checksums: bool) -> Result<(Vec<String>, Vec<String>), String> {
    let path = scratch_file("wal");
    let es = |e: &dyn std::fmt::Debug| format!("{e:?}");
    let r = (|| -> Result<(Vec<String>, Vec<String>), String> {
        match kind {
            WalKind::Tensor => {
                let alpha = recs::tensor_wal();
                let mut w = tensor_store::TensorWal::open(&path, tensor_cfg(checksums)).map_err(|e| e.to_string())?;
                for &i in idx {
                    w.append(&alpha[i]).map_err(|e| e.to_string())?;
                }
                w.sync().map_err(|e| e.to_string())?;
                drop(w);
                let w = tensor_store::TensorWal::open(&path, tensor_cfg(checksums)).map_err(|e| e.to_string())?;
                let got = w.replay().map_err(|e| e.to_string())?;
                Ok((idx.iter().map(|&i| es(&alpha[i])).collect(), got.iter().map(|e| es(e)).collect()))
            }
            WalKind::Raft => {
                let alpha = recs::raft_wal();
                let mut w = tensor_chain::RaftWal::open_with_config(&path, raft_cfg(checksums)).map_err(|e| e.to_string())?;
                for &i in idx {
                    w.append(&alpha[i]).map_err(|e| e.to_string())?;
                }
                drop(w);
                let w = tensor_chain::RaftWal::open_with_config(&path, raft_cfg(checksums)).map_err(|e| e.to_string())?;
                if w.entry_count() != idx.len() as u64 {
                    return Err(format!("reopen counts {} entries, {} written", w.entry_count(), idx.len()));
                }
                let got = w.replay().map_err(|e| e.to_string())?;
                Ok((idx.iter().map(|&i| es(&alpha[i])).collect(), got.iter().map(|e| es(e)).collect()))
            }
            WalKind::Tx => {
                let alpha = recs::tx_wal();
                let mut w = tensor_chain::tx_wal::TxWal::open_with_config(&path, raft_cfg(checksums)).map_err(|e| e.to_string())?;
                for &i in idx {
                    w.append(&alpha[i]).map_err(|e| e.to_string())?;
                }
                drop(w);
                let w = tensor_chain::tx_wal::TxWal::open_with_config(&path, raft_cfg(checksums)).map_err(|e| e.to_string())?;
                if w.entry_count() != idx.len() as u64 {
                    return Err(format!("reopen counts {} entries, {} written", w.entry_count(), idx.len()));
                }
                let got = w.replay().map_err(|e| e.to_string())?;
                Ok((idx.iter().map(|&i| es(&alpha[i])).collect(), got.iter().map(|e| es(e)).collect()))
            }
        }
    })();
    let _ = std::fs::remove_file(&path);
    r
}
fn part_e_wal(depth: usize) -> Acc {
    let mut jobs: Vec<(WalKind, Vec<usize>, bool)> = vec![];
    for (kind, n) in [(WalKind::Tensor, recs::tensor_wal().len()), (WalKind::Raft, recs::raft_wal().len()), (WalKind::Tx, recs::tx_wal().len())] {
        let alpha: Vec<usize> = (0..n).collect();
        for s in seqs_upto(&alpha, depth) {
            for cs in [true, false] {
                jobs.push((kind, s.clone(), cs));
            }
        }
    }
    par_acc(&jobs, 64, |(kind, idx, cs), a| {
        a.cases += 1;
        a.evals += 1;
        if idx.len() > 1 {
            a.nontrivial += 1;
        }
        let rp = json!({"part":"E","wal":format!("{kind:?}"),"entry_indices":idx,"checksums":cs});
        match guarded(|| wal_roundtrip(*kind, idx, *cs)) {
            Ok(Ok((mut w, g))) => {
                if selftest() && w.len() == 2 {
                    w.pop();
                }
                if w != g {
                    a.viol(format!("c20:wal-roundtrip:{kind:?}"), format!("{kind:?} log checksums={cs}: wrote {w:?}, replayed {g:?}"), rp);
                }
            }
            Ok(Err(e)) => a.viol(format!("c20:wal-roundtrip-error:{kind:?}"), format!("{kind:?} log checksums={cs} entries {idx:?}: {e}"), rp),
            Err((f, m)) => a.viol(format!("c20:wal-panic:{f}"), format!("{kind:?} log entries {idx:?} panicked: {m}"), rp),
        }
        if a.samples.is_empty() && idx.len() == 2 && matches!(kind, WalKind::Tx) {
            a.samples.push(json!({"part":"E","wal":"Tx","entries": idx.iter().map(|&i| format!("{:?}", recs::tx_wal()[i])).collect::<Vec<_>>()}));
        }
    })
}

mod snap {
    use std::collections::BTreeMap;
    use tensor_compress::format::*;
    use tensor_compress::{rle_encode, tt_decompose, CompressionConfig, TTConfig};

    pub fn configs() -> Vec<(&'static str, CompressionConfig)> {
        vec![
            ("default", CompressionConfig::default()),
            ("lossless", CompressionConfig { tensor_mode: None, delta_encoding: true, rle_encoding: true }),
            ("balanced64", CompressionConfig::balanced(64)),
            ("high_compression", CompressionConfig::high_compression()),
            ("high_accuracy8", CompressionConfig::high_accuracy(8)),
        ]
    }
    /// one snapshot value of every kind, each valid
    pub fn values() -> Vec<(&'static str, CompressedValue)> {
        let tt = tt_decompose(&[1.0, 2.0, 3.0, 4.0, 5.0, 6.0, 7.0, 9.0], &TTConfig { shape: vec![2, 2, 2], max_rank: 4, tolerance: 1e-4 }).expect("tt");
        vec![
            ("null", CompressedValue::Scalar(CompressedScalar::Null)),
            ("bool", CompressedValue::Scalar(CompressedScalar::Bool(true))),
            ("int", CompressedValue::Scalar(CompressedScalar::Int(i64::MIN))),
            ("float", CompressedValue::Scalar(CompressedScalar::Float(f64::NAN))),
            ("string", CompressedValue::Scalar(CompressedScalar::String("ñ✓".into()))),
            ("raw", CompressedValue::VectorRaw(vec![0.0, -0.0, f32::MAX, f32::NAN])),
            ("tt", CompressedValue::VectorTT { cores: tt.cores, original_dim: tt.original_dim, shape: tt.shape, ranks: tt.ranks }),
            ("sparse", compress_sparse(8, &[1, 5, 7], &[1.5, -2.0, 3.0])),
            ("idlist", CompressedValue::IdList(tensor_compress::compress_ids(&[3, 4, 200, 70000]))),
            ("rle", CompressedValue::RleInt(rle_encode(&[5i64, 5, 5, -1, -1, 7]))),
            ("pointer", CompressedValue::Pointer("p".into())),
            ("pointers", CompressedValue::Pointers(vec!["a".into(), String::new()])),
        ]
    }
    pub fn snapshot_of(vals: &[(&'static str, CompressedValue)], cfg: CompressionConfig) -> CompressedSnapshot {
        let entries: Vec<CompressedEntry> = vals
            .iter()
            .map(|(n, v)| CompressedEntry { key: format!("key:{n}"), fields: BTreeMap::from([(format!("f_{n}"), v.clone())]) })
            .collect();
        CompressedSnapshot { header: Header::new(cfg, entries.len() as u64), entries }
    }
}

fn part_e_snap() -> Acc {
    use std::io::Cursor;
    use tensor_compress::format::{CompressedSnapshot, Header};
    use tensor_compress::streaming::{read_streaming_to_snapshot, StreamingReader, StreamingWriter};
    use tensor_compress::{read_streaming_tt_all, tt_decompose, StreamingTTReader, StreamingTTWriter, TTConfig};
    let mut a = Acc::default();
    let vals = snap::values();
    for (cname, cfg) in snap::configs() {
        for count in [0u64, 1, u64::MAX] {
            a.cases += 1;
            a.evals += 1;
            let hd = Header::new(cfg.clone(), count);
            let r = guarded(|| {
                let b = bitcode::serialize(&hd).map_err(|e| e.to_string())?;
                let h2: Header = bitcode::deserialize(&b).map_err(|e| e.to_string())?;
                h2.validate().map_err(|e| e.to_string())?;
                Ok::<_, String>(h2)
            });
            let want = if selftest() && count == 1 { Header::new(cfg.clone(), 2) } else { hd.clone() };
            match r {
                Ok(Ok(h2)) if h2 == want => {}
                other => a.viol("c20:snapshot-header-roundtrip", format!("Header({cname}, {count}) round trip gives {other:?}"), json!({"part":"E","header_config":cname,"entry_count":count})),
            }
        }
        // whole snapshot, every number of leading value kinds 0..=12
        for k in 0..=vals.len() {
            a.cases += 1;
            a.evals += 1;
            a.nontrivial += 1;
            let s = snap::snapshot_of(&vals[..k], cfg.clone());
            let r = guarded(|| s.serialize().and_then(|b| CompressedSnapshot::deserialize(&b)).map_err(|e| e.to_string()));
            match r {
                Ok(Ok(s2)) if format!("{s2:?}") == format!("{s:?}") => {}
                other => a.viol("c20:snapshot-roundtrip", format!("CompressedSnapshot({cname}, {k} entries) round trip gives {:?}", other.map(|x| x.map(|_| "different value"))), json!({"part":"E","config":cname,"entries":k})),
            }
            // streaming container: trailer header + entries
            a.evals += 1;
            let r = guarded(|| -> Result<(u64, String, String), String> {
                let mut w = StreamingWriter::new(Cursor::new(Vec::new()), cfg.clone()).map_err(|e| e.to_string())?;
                for e in &s.entries {
                    w.write_entry(e).map_err(|e| e.to_string())?;
                }
                let buf = w.finish().map_err(|e| e.to_string())?.into_inner();
                let rd = StreamingReader::open(Cursor::new(buf.clone())).map_err(|e| e.to_string())?;
                let hc = format!("{:?}", rd.header().config);
                let n = rd.entry_count();
                let s2 = read_streaming_to_snapshot(Cursor::new(buf)).map_err(|e| e.to_string())?;
                Ok((n, hc, format!("{:?}", s2.entries)))
            });
            match r {
                Ok(Ok((n, hc, es))) if n == k as u64 && hc == format!("{cfg:?}") && es == format!("{:?}", s.entries) => {}
                other => a.viol("c20:streaming-roundtrip", format!("streaming snapshot ({cname}, {k} entries) round trip gives {:?}", other.map(|x| x.map(|y| (y.0, y.1)))), json!({"part":"E","config":cname,"entries":k,"container":"streaming"})),
            }
        }
    }
    // streaming TT container
    for shape in [vec![2usize, 2], vec![2, 2, 2], vec![4, 4, 4]] {
        for k in 0..=3usize {
            a.cases += 1;
            a.evals += 1;
            let d: usize = shape.iter().product();
            let cfg = TTConfig { shape: shape.clone(), max_rank: 8, tolerance: 1e-4 };
            let r = guarded(|| -> Result<bool, String> {
                let tts: Vec<_> = (0..k).map(|j| tt_decompose(&(0..d).map(|i| ((i * (j + 2) + 1) % 7) as f32 + 0.5).collect::<Vec<f32>>(), &cfg)).collect::<Result<_, _>>().map_err(|e| e.to_string())?;
                let mut w = StreamingTTWriter::new(Cursor::new(Vec::new()), cfg.clone()).map_err(|e| e.to_string())?;
                for t in &tts {
                    w.write_tt(t).map_err(|e| e.to_string())?;
                }
                let buf = w.finish().map_err(|e| e.to_string())?.into_inner();
                let rd = StreamingTTReader::open(Cursor::new(buf.clone())).map_err(|e| e.to_string())?;
                let ok_h = rd.vector_count() == k as u64 && *rd.config() == cfg;
                let back = read_streaming_tt_all(Cursor::new(buf)).map_err(|e| e.to_string())?;
                Ok(ok_h && format!("{back:?}") == format!("{tts:?}"))
            });
            if !matches!(r, Ok(Ok(true))) {
                a.viol("c20:streaming-tt-roundtrip", format!("streaming TT container shape {shape:?} with {k} vectors: {r:?}"), json!({"part":"E","container":"streaming_tt","shape":shape,"vectors":k}));
            }
        }
    }
    a.samples.push(json!({"part":"E","snapshot_value_kinds": vals.iter().map(|v| v.0).collect::<Vec<_>>()}));
    a
}

/// TensorStore::save_snapshot_compressed → load_snapshot_compressed on vector fields (the call site that
/// decides *by field name / value shape* to run compress_ids on an f32 vector).
fn part_e_store(n: usize) -> Acc {
    use tensor_compress::CompressionConfig;
    use tensor_store::{TensorData, TensorStore, TensorValue};
    let alpha = [0.0f32, 1.0, 2.0, 16_777_216.0, -1.0, 0.5, f32::MAX];
    let vecs = seqs_upto(&alpha, n);
    let mut jobs = vec![];
    for v in vecs {
        for field in ["v", "ids"] {
            for (cname, cfg) in [("default", CompressionConfig::default()), ("lossless", CompressionConfig { tensor_mode: None, delta_encoding: true, rle_encoding: true })] {
                jobs.push((v.clone(), field, cname, cfg));
            }
        }
    }
    par_acc(&jobs, 16, |(v, field, cname, cfg), a| {
        a.cases += 1;
        a.evals += 1;
        let ints = v.iter().all(|x| *x >= 0.0 && x.fract() == 0.0 && *x < 1.8e19);
        let sorted = v.windows(2).all(|w| w[0] <= w[1]);
        if !sorted || !ints {
            a.nontrivial += 1;
        }
        let rp = json!({"part":"E","store_field":field,"vector":v,"config":cname});
        let r = guarded(|| -> Result<Option<TensorValue>, String> {
            let path = scratch_file("snap");
            let st = TensorStore::new();
            let mut d = TensorData::new();
            d.set(*field, TensorValue::Vector(v.clone()));
            st.put("k", d).map_err(|e| e.to_string())?;
            let r = (|| {
                st.save_snapshot_compressed(&path, cfg.clone()).map_err(|e| e.to_string())?;
                let st2 = TensorStore::load_snapshot_compressed(&path).map_err(|e| e.to_string())?;
                Ok(st2.get("k").map_err(|e| e.to_string())?.get(field).cloned())
            })();
            let _ = std::fs::remove_file(&path);
            r
        });
        match r {
            Ok(Ok(Some(TensorValue::Vector(got)))) if veq(&got, v) => {}
            Ok(Ok(got)) => {
                let sig = if ints && !sorted {
                    "c20:compress-ids-unsorted"
                } else if !ints {
                    "c20:snapshot-idlist-cast-lossy"
                } else {
                    "c20:store-snapshot-vector-roundtrip"
                };
                a.viol(sig, format!("TensorStore compressed snapshot ({cname}): field {field:?} = {v:?} loads back as {got:?}"), rp);
            }
            Ok(Err(e)) => a.viol("c20:store-snapshot-error", format!("compressed snapshot of field {field:?} = {v:?} ({cname}): {e}"), rp),
            Err((f, m)) => a.viol(format!("c20:store-snapshot-panic:{f}"), format!("compressed snapshot of {v:?} panicked: {m}"), rp),
        }
        if a.samples.is_empty() && v.len() == 2 && *field == "ids" {
            a.samples.push(json!({"part":"E","store_field":field,"vector":v,"config":cname}));
        }
    })
}

// ------------------------------------------------------------------------------------------------
// Part G — decoders on arbitrary bytes (sub-processes)
// ------------------------------------------------------------------------------------------------
const FRAME_MAX: usize = 4096;
const PAYLOAD_MAX: usize = 65536;
const WAL_MAX: usize = 1 << 20;
const HANDSHAKE_MAX: usize = 1024;
const LZ4_MAX: usize = 16 * 1024 * 1024; // tensor_chain::tcp::compression::MAX_DECOMPRESSED_SIZE
const STREAM_ENTRY_MAX: usize = 100 * 1024 * 1024; // tensor_compress::streaming::MAX_ENTRY_SIZE
const GUARD_CAP: usize = 1 << 30;
const GUARD_ZCAP: usize = 8 << 30;
/// values of the expanding formats (rle, sparse, tt) larger than this are declared-valid but not executed
const EXPAND_MAX: usize = 1 << 22;

#[derive(Clone, Copy, Debug, PartialEq, Eq)]
enum Dec {
    Ids,
    MsgV1,
    MsgV2,
    FrameV1,
    FrameV2,
    Handshake,
    Lz4,
    Snapshot,
    StoreSnapshot,
    Header,
    Sparse,
    Rle,
    Tt,
    Streaming,
    StreamingTt,
    WalTensor,
    WalRaft,
    WalTx,
}
const DECS: [Dec; 18] = [Dec::Ids, Dec::MsgV1, Dec::MsgV2, Dec::FrameV1, Dec::FrameV2, Dec::Handshake, Dec::Lz4, Dec::Snapshot, Dec::StoreSnapshot, Dec::Header, Dec::Sparse, Dec::Rle, Dec::Tt, Dec::Streaming, Dec::StreamingTt, Dec::WalTensor, Dec::WalRaft, Dec::WalTx];
impl Dec {
    fn name(self) -> String {
        format!("{self:?}").to_lowercase()
    }
    fn from_name(s: &str) -> Option<Dec> {
        DECS.iter().copied().find(|d| d.name() == s)
    }
    fn file_based(self) -> bool {
        matches!(self, Dec::StoreSnapshot | Dec::WalTensor | Dec::WalRaft | Dec::WalTx)
    }
    /// largest single allocation the decoder may request: its declared limit plus bookkeeping slack
    fn alloc_limit(self, input_len: usize) -> usize {
        let slack = (1 << 20) + 64 * input_len;
        match self {
            Dec::MsgV1 => 8 * PAYLOAD_MAX + slack,
            Dec::MsgV2 | Dec::FrameV2 | Dec::Lz4 => LZ4_MAX + slack,
            Dec::FrameV1 => 8 * FRAME_MAX + slack,
            Dec::Handshake => 8 * HANDSHAKE_MAX + slack,
            Dec::WalTensor | Dec::WalRaft | Dec::WalTx => WAL_MAX + slack,
            Dec::Streaming | Dec::StreamingTt => STREAM_ENTRY_MAX + slack,
            // no declared byte limit: bounded by the expanding-format screen (EXPAND_MAX elements)
            Dec::Ids | Dec::Header => slack,
            Dec::Snapshot | Dec::StoreSnapshot | Dec::Sparse | Dec::Rle | Dec::Tt => 16 * EXPAND_MAX + slack,
        }
    }
}

fn small_messages() -> Vec<(String, tensor_chain::network::Message)> {
    nvc::env::clock_freeze(1_700_000_000);
    let v = msgs::all();
    nvc::env::clock_unfreeze();
    v
}

/// valid encodings per decoder (label, bytes) and explicit extra inputs (length prefixes around the limits)
fn corpus(dec: Dec, thorough: bool) -> (Vec<(String, Vec<u8>)>, Vec<(String, Vec<u8>)>) {
    use std::io::Cursor;
    let mut valid: Vec<(String, Vec<u8>)> = vec![];
    let mut extra: Vec<(String, Vec<u8>)> = vec![];
    let quick_len = 256usize;
    let be = |n: u32| n.to_be_bytes().to_vec();
    let le = |n: u32| n.to_le_bytes().to_vec();
    let cat = |a: &[u8], b: &[u8]| [a, b].concat();
    match dec {
        Dec::Ids => {
            for ids in [vec![], vec![0u64], vec![0, 1, 2, 127, 128, 1 << 32, u64::MAX], vec![5, 5, 5], vec![u64::MAX]] {
                valid.push((format!("{ids:?}"), tensor_compress::compress_ids(&ids)));
            }
            extra.push(("eleven-continuation-bytes".into(), cat(&[0x80; 11], &[0x01, 0x05])));
            extra.push(("overlong-max".into(), cat(&[0xff; 9], &[0x7f])));
        }
        Dec::MsgV1 | Dec::MsgV2 | Dec::FrameV1 | Dec::FrameV2 => {
            for (name, m) in small_messages() {
                if name.contains("#big") && (!thorough || matches!(dec, Dec::FrameV1 | Dec::FrameV2)) {
                    continue;
                }
                let modes: &[Mode] = match dec {
                    Dec::MsgV1 | Dec::FrameV1 => &[Mode::V1],
                    _ => &[Mode::V2Plain, Mode::V2Lz4Always],
                };
                for mode in modes {
                    let c = codec(*mode, 1 << 20);
                    let f = if *mode == Mode::V1 { c.encode(&m) } else { c.encode_v2(&m) }.expect("encode corpus message");
                    if matches!(dec, Dec::FrameV1 | Dec::FrameV2) && f.len() - 4 > FRAME_MAX {
                        continue;
                    }
                    // quick tier: the short encodings of every variant (k1c = AppendEntries with one log entry)
                    if !thorough && f.len() > quick_len && !name.contains("#k1c2") {
                        continue;
                    }
                    let bytes = if matches!(dec, Dec::MsgV1 | Dec::MsgV2) { f[4..].to_vec() } else { f };
                    valid.push((format!("{name}/{mode:?}"), bytes));
                }
            }
            if matches!(dec, Dec::FrameV1 | Dec::FrameV2) {
                let ping = {
                    let c = codec(Mode::V1, 1 << 20);
                    let f = if dec == Dec::FrameV1 { c.encode(&tensor_chain::network::Message::Ping { term: 1 }) } else { c.encode_v2(&tensor_chain::network::Message::Ping { term: 1 }) }.expect("ping");
                    f[4..].to_vec()
                };
                let l = FRAME_MAX as u32;
                for p in [0u32, 1, l - 1, l, l + 1, 1 << 16, 1 << 24, 1 << 31, u32::MAX] {
                    extra.push((format!("prefix={p},body=none"), be(p)));
                    extra.push((format!("prefix={p},body=1"), cat(&be(p), &[0])));
                    extra.push((format!("prefix={p},body=ping"), cat(&be(p), &ping)));
                    let n = (p as usize).min(FRAME_MAX + 2);
                    extra.push((format!("prefix={p},body=zeros({n})"), cat(&be(p), &vec![0u8; n])));
                    extra.push((format!("prefix={p},body=ping+zeros({n})"), cat(&be(p), &cat(&ping, &vec![0u8; n.saturating_sub(ping.len())]))));
                }
            }
            if dec == Dec::MsgV2 || dec == Dec::FrameV2 {
                // LZ4 size prefix (claimed decompressed size) around MAX_DECOMPRESSED_SIZE and the frame limit
                let m = LZ4_MAX as u32;
                for claimed in [0u32, 1, FRAME_MAX as u32, FRAME_MAX as u32 + 1, PAYLOAD_MAX as u32 + 1, m - 1, m, m + 1, 1 << 31, u32::MAX] {
                    for body in [vec![], vec![0u8], vec![0x10, 0x00], vec![0xf0; 8]] {
                        let content = cat(&[1u8], &cat(&le(claimed), &body));
                        let bytes = if dec == Dec::FrameV2 { cat(&be(content.len() as u32), &content) } else { content };
                        extra.push((format!("lz4 claimed={claimed},body={}", hex(&body)), bytes));
                    }
                }
            }
        }
        Dec::Handshake => {
            use tensor_chain::Handshake;
            for h in [Handshake::new("n1"), Handshake::new("").with_compression(), Handshake::new("ñ✓").with_capability("a").with_capability("")] {
                valid.push((format!("{h:?}"), h.encode().expect("handshake")));
            }
            let mut old = Handshake::new("v1");
            old.protocol_version = 1;
            valid.push(("protocol 1".into(), old.encode().expect("handshake")));
            let l = HANDSHAKE_MAX as u32;
            for p in [0u32, 1, l - 1, l, l + 1, 1 << 31, u32::MAX] {
                extra.push((format!("prefix={p},body=none"), be(p)));
                extra.push((format!("prefix={p},body=zeros"), cat(&be(p), &vec![0u8; (p as usize).min(HANDSHAKE_MAX + 2)])));
            }
        }
        Dec::Lz4 => {
            use tensor_chain::tcp::compression::{compress, CompressionMethod};
            for data in [vec![], vec![7u8], vec![0u8; 300], b"row,row,row,".repeat(20)] {
                valid.push((format!("{} bytes", data.len()), compress(&data, CompressionMethod::Lz4)));
            }
            let m = LZ4_MAX as u32;
            for claimed in [0u32, 1, m - 1, m, m + 1, 1 << 31, u32::MAX] {
                for body in [vec![], vec![0u8], vec![0x10, 0x00], vec![0xf0; 8], vec![0x1f, 0x00, 0x01, 0x00, 0xff, 0xff, 0xff]] {
                    extra.push((format!("claimed={claimed},body={}", hex(&body)), cat(&le(claimed), &body)));
                }
            }
        }
        Dec::Snapshot | Dec::StoreSnapshot => {
            let vals = snap::values();
            let cfg = tensor_compress::CompressionConfig { tensor_mode: None, delta_encoding: true, rle_encoding: true };
            for (i, (n, _)) in vals.iter().enumerate() {
                valid.push((n.to_string(), snap::snapshot_of(&vals[i..=i], cfg.clone()).serialize().expect("snapshot")));
            }
            valid.push(("empty".into(), snap::snapshot_of(&[], cfg.clone()).serialize().expect("snapshot")));
            if thorough || dec == Dec::Snapshot {
                valid.push(("all-balanced64".into(), snap::snapshot_of(&vals, tensor_compress::CompressionConfig::balanced(64)).serialize().expect("snapshot")));
            }
        }
        Dec::Header => {
            for (n, cfg) in snap::configs() {
                valid.push((n.to_string(), bitcode::serialize(&tensor_compress::format::Header::new(cfg, 3)).expect("header")));
            }
        }
        Dec::Sparse => {
            for k in 0..3u8 {
                valid.push((format!("sparse({k})"), bitcode::serialize(&msgs::sparse(k)).expect("sparse")));
            }
            valid.push(("dim=100000".into(), bitcode::serialize(&tensor_store::SparseVector::from_parts(100_000, vec![99_999, 5], vec![1.0, 2.0])).expect("sparse")));
        }
        Dec::Rle => {
            for d in [vec![], vec![5i64], vec![5, 5, 5, -1, -1, 7], vec![i64::MAX; 300]] {
                valid.push((format!("{} values", d.len()), bitcode::serialize(&tensor_compress::rle_encode(&d)).expect("rle")));
            }
        }
        Dec::Tt | Dec::StreamingTt => {
            use tensor_compress::{tt_decompose, StreamingTTWriter, TTConfig};
            let mut tts = vec![];
            for shape in [vec![2usize, 2], vec![2, 2, 2], vec![4, 4, 4]] {
                let d: usize = shape.iter().product();
                let v: Vec<f32> = (0..d).map(|i| ((i * 3 + 1) % 7) as f32 + 0.5).collect();
                tts.push((shape.clone(), tt_decompose(&v, &TTConfig { shape, max_rank: 8, tolerance: 1e-4 }).expect("tt")));
            }
            if dec == Dec::Tt {
                for (shape, tt) in &tts {
                    valid.push((format!("{shape:?}"), bitcode::serialize(tt).expect("tt")));
                }
                // hostile structured values: every size field of the smallest valid train replaced by every
                // extreme value, alone and consistently along the rank chain (rank k in `ranks`, in the right
                // rank of core k-1 and in the left rank of core k), with the core data kept and emptied —
                // the latter includes declared sizes whose product wraps around to the real data length
                let hostile: [usize; 9] = [0, 1, 3, 1 << 16, 1 << 31, 1 << 32, 1 << 62, 1 << 63, usize::MAX];
                let base = &tts[0].1;
                let mut push = |name: String, t: &tensor_compress::TTVector| extra.push((name, bitcode::serialize(t).expect("tt")));
                for h in hostile {
                    let mut t = base.clone();
                    t.original_dim = h;
                    push(format!("original_dim={h}"), &t);
                    for i in 0..base.shape.len() {
                        let mut t = base.clone();
                        t.shape[i] = h;
                        push(format!("shape[{i}]={h}"), &t);
                        let mut t = base.clone();
                        t.shape[i] = h;
                        t.cores[i].shape.1 = h;
                        push(format!("shape[{i}]=core[{i}].mode={h}"), &t);
                    }
                    for i in 0..base.ranks.len() {
                        let mut t = base.clone();
                        t.ranks[i] = h;
                        push(format!("ranks[{i}]={h}"), &t);
                        for empty in [false, true] {
                            let mut t = base.clone();
                            t.ranks[i] = h;
                            if i > 0 {
                                t.cores[i - 1].shape.2 = h;
                            }
                            if i < t.cores.len() {
                                t.cores[i].shape.0 = h;
                            }
                            if empty {
                                for c in &mut t.cores {
                                    c.data.clear();
                                }
                            }
                            push(format!("rank {i} = {h} along the chain, data {}", if empty { "emptied" } else { "kept" }), &t);
                        }
                    }
                    for i in 0..base.cores.len() {
                        for f in 0..3 {
                            let mut t = base.clone();
                            match f {
                                0 => t.cores[i].shape.0 = h,
                                1 => t.cores[i].shape.1 = h,
                                _ => t.cores[i].shape.2 = h,
                            }
                            push(format!("core[{i}].shape.{f}={h}"), &t);
                        }
                    }
                }
            } else {
                for k in 0..=2usize {
                    let mut w = StreamingTTWriter::new(Cursor::new(Vec::new()), TTConfig { shape: vec![2, 2], max_rank: 8, tolerance: 1e-4 }).expect("writer");
                    for _ in 0..k {
                        w.write_tt(&tts[0].1).expect("write");
                    }
                    valid.push((format!("{k} vectors"), w.finish().expect("finish").into_inner()));
                }
            }
        }
        Dec::Streaming => {
            use tensor_compress::streaming::StreamingWriter;
            let vals = snap::values();
            for k in [0usize, 1, 3] {
                let s = snap::snapshot_of(&vals[..k], tensor_compress::CompressionConfig::default());
                let mut w = StreamingWriter::new(Cursor::new(Vec::new()), s.header.config.clone()).expect("writer");
                for e in &s.entries {
                    w.write_entry(e).expect("write");
                }
                valid.push((format!("{k} entries"), w.finish().expect("finish").into_inner()));
            }
        }
        Dec::WalTensor | Dec::WalRaft | Dec::WalTx => {
            let kind = match dec {
                Dec::WalTensor => WalKind::Tensor,
                Dec::WalRaft => WalKind::Raft,
                _ => WalKind::Tx,
            };
            let n = match kind {
                WalKind::Tensor => recs::tensor_wal().len(),
                WalKind::Raft => recs::raft_wal().len(),
                WalKind::Tx => recs::tx_wal().len(),
            };
            let all: Vec<usize> = (0..n).collect();
            for (label, idx, cs) in [("all-entries", all.clone(), true), ("all-entries-nochecksum", all.clone(), false), ("one-entry", vec![1usize], true), ("empty", vec![], true)] {
                valid.push((label.to_string(), wal_file_bytes(kind, &idx, cs)));
            }
            // a valid first record followed by a record header whose length is at the limits
            let first = wal_file_bytes(kind, &[0], true);
            let l = WAL_MAX as u32;
            for p in [0u32, 1, 4, l - 1, l, l + 1, 1 << 24, 1 << 29, 1 << 31, u32::MAX] {
                for body in [vec![], vec![0u8; 3], vec![0u8; 64]] {
                    extra.push((format!("len={p},crc=0,body={}", body.len()), cat(&first, &cat(&le(p), &cat(&le(0), &body)))));
                    extra.push((format!("only len={p},crc=1,body={}", body.len()), cat(&le(p), &cat(&le(1), &body))));
                }
            }
        }
    }
    // expanding / container formats: trailer and entry prefixes at the declared limits
    if dec == Dec::Streaming || dec == Dec::StreamingTt {
        let base = valid.last().map(|x| x.1.clone()).unwrap_or_default();
        // layout: magic(4) | [len u32 | entry]* | trailer | trailer_len u64
        let tl = u64::from_le_bytes(base[base.len() - 8..].try_into().unwrap()) as usize;
        let trailer = base[base.len() - 8 - tl..].to_vec();
        for p in [0u32, 1, STREAM_ENTRY_MAX as u32 - 1, STREAM_ENTRY_MAX as u32, STREAM_ENTRY_MAX as u32 + 1, 1 << 31, u32::MAX] {
            // a container that announces entries but whose first entry has length p
            extra.push((format!("first-entry-len={p}"), [&base[..4], &p.to_le_bytes()[..], &[0u8; 5][..], &trailer[..]].concat()));
        }
        for t in [0u64, 1, (1 << 20) - 1, 1 << 20, (1 << 20) + 1, 1 << 40, u64::MAX, i64::MAX as u64, (i64::MAX as u64).wrapping_sub(7)] {
            extra.push((format!("trailer-len={t}"), [&base[..base.len() - 8], &t.to_le_bytes()[..]].concat()));
        }
    }
    (valid, extra)
}
fn wal_file_bytes(kind: WalKind, idx: &[usize], checksums: bool) -> Vec<u8> {
    let path = scratch_file("walcorpus");
    match kind {
        WalKind::Tensor => {
            let alpha = recs::tensor_wal();
            let mut w = tensor_store::TensorWal::open(&path, tensor_cfg(checksums)).expect("open wal");
            for &i in idx {
                w.append(&alpha[i]).expect("append");
            }
            w.sync().expect("sync");
        }
        WalKind::Raft => {
            let alpha = recs::raft_wal();
            let mut w = tensor_chain::RaftWal::open_with_config(&path, raft_cfg(checksums)).expect("open wal");
            for &i in idx {
                w.append(&alpha[i]).expect("append");
            }
        }
        WalKind::Tx => {
            let alpha = recs::tx_wal();
            let mut w = tensor_chain::tx_wal::TxWal::open_with_config(&path, raft_cfg(checksums)).expect("open wal");
            for &i in idx {
                w.append(&alpha[i]).expect("append");
            }
        }
    }
    let b = std::fs::read(&path).expect("read wal");
    let _ = std::fs::remove_file(&path);
    b
}

/// the enumeration plan of one decoder: garbage strings, then per valid encoding truncations and bit flips, then extras
struct Plan {
    dec: Dec,
    glen: usize,
    valid: Vec<(String, Vec<u8>)>,
    extra: Vec<(String, Vec<u8>)>,
    /// (first index, segment kind, corpus index)
    segs: Vec<(u64, u8, usize)>,
    total: u64,
}
impl Plan {
    fn new(dec: Dec, glen: usize, thorough: bool) -> Plan {
        let (valid, extra) = corpus(dec, thorough);
        let mut segs = vec![];
        let mut at = 0u64;
        segs.push((at, 0u8, 0usize));
        at += (0..=glen).map(|l| 256u64.pow(l as u32)).sum::<u64>();
        for (i, (_, b)) in valid.iter().enumerate() {
            segs.push((at, 1, i));
            at += 1; // the valid encoding itself
            segs.push((at, 2, i));
            at += b.len() as u64;
            segs.push((at, 3, i));
            at += 8 * b.len() as u64;
        }
        segs.push((at, 4, 0));
        at += extra.len() as u64;
        Plan { dec, glen, valid, extra, segs, total: at }
    }
    /// (input, description, corpus label, is the unmodified valid encoding)
    fn input(&self, idx: u64) -> (Vec<u8>, Value, String, bool) {
        let si = self.segs.partition_point(|s| s.0 <= idx) - 1;
        let (start, kind, ci) = self.segs[si];
        let off = idx - start;
        match kind {
            0 => {
                let mut rest = off;
                let mut l = 0usize;
                while rest >= 256u64.pow(l as u32) {
                    rest -= 256u64.pow(l as u32);
                    l += 1;
                }
                let b: Vec<u8> = (0..l).map(|i| (rest >> (8 * (l - 1 - i))) as u8).collect();
                (b, json!({"kind":"garbage"}), "garbage".into(), false)
            }
            1 => (self.valid[ci].1.clone(), json!({"kind":"valid","of":self.valid[ci].0}), self.valid[ci].0.clone(), true),
            2 => (self.valid[ci].1[..off as usize].to_vec(), json!({"kind":"truncation","of":self.valid[ci].0,"keep":off,"full_len":self.valid[ci].1.len()}), self.valid[ci].0.clone(), false),
            3 => {
                let mut b = self.valid[ci].1.clone();
                b[(off / 8) as usize] ^= 1 << (off % 8);
                (b, json!({"kind":"bitflip","of":self.valid[ci].0,"byte":off/8,"bit":off%8,"full_len":self.valid[ci].1.len()}), self.valid[ci].0.clone(), false)
            }
            _ => (self.extra[off as usize].1.clone(), json!({"kind":"limit-probe","what":self.extra[off as usize].0}), "limit-probe".into(), false),
        }
    }
}

/// outcome of one decode: Ok(true) = value, Ok(false) = error returned, Err = invalid value description
type Outcome = Result<bool, (String, String)>;

struct Ctx {
    rt: tokio::runtime::Runtime,
    validator: tensor_chain::CompositeValidator,
    file: String,
    skipped_expanding: u64,
}
fn msg_valid(ctx: &Ctx, m: &tensor_chain::network::Message) -> Outcome {
    use tensor_chain::MessageValidator;
    // "valid value": the semantic validator and the formatter accept or reject it without panicking, it can be re-encoded
    let _ = ctx.validator.validate(m, &"peer".to_string());
    let _ = format!("{m:?}");
    match bitcode::serialize(m) {
        Ok(_) => Ok(true),
        Err(e) => Err(("reencode".into(), format!("decoded message cannot be re-encoded: {e}"))),
    }
}
fn expanding_screen(ctx: &mut Ctx, s: &tensor_compress::format::CompressedSnapshot) -> bool {
    use tensor_compress::format::CompressedValue as V;
    for e in &s.entries {
        for v in e.fields.values() {
            let big = match v {
                V::VectorSparse { dimension, .. } => *dimension > EXPAND_MAX,
                V::VectorTT { shape, .. } => shape.iter().fold(1usize, |a, b| a.wrapping_mul(*b)) > EXPAND_MAX || shape.len() > 64,
                V::RleInt(r) => r.run_lengths.iter().map(|x| *x as usize).sum::<usize>() > EXPAND_MAX,
                _ => false,
            };
            if big {
                ctx.skipped_expanding += 1;
                return true;
            }
        }
    }
    false
}
fn run_decoder(dec: Dec, b: &[u8], ctx: &mut Ctx) -> Outcome {
    use std::io::Cursor;
    match dec {
        Dec::Ids => {
            let v = tensor_compress::decompress_ids(b);
            let w = tensor_compress::varint_decode(b);
            if v.len() > b.len() || w.len() != v.len() {
                return Err(("length".into(), format!("{} ids from {} bytes", v.len(), b.len())));
            }
            Ok(true)
        }
        Dec::MsgV1 => match codec(Mode::V1, PAYLOAD_MAX).decode_payload(b) {
            Ok(m) => msg_valid(ctx, &m),
            Err(_) => Ok(false),
        },
        Dec::MsgV2 => match codec(Mode::V2Lz4Always, PAYLOAD_MAX).decode_payload_v2(b) {
            Ok(m) => msg_valid(ctx, &m),
            Err(_) => Ok(false),
        },
        Dec::FrameV1 | Dec::FrameV2 => {
            let v2 = dec == Dec::FrameV2;
            let c = codec(if v2 { Mode::V2Lz4Always } else { Mode::V1 }, FRAME_MAX);
            let mut rd: &[u8] = b;
            let mut any = false;
            for _ in 0..16 {
                let before = rd.len();
                let r = ctx.rt.block_on(async {
                    if v2 {
                        c.read_frame_v2(&mut rd).await
                    } else {
                        c.read_frame(&mut rd).await
                    }
                });
                match r {
                    Ok(Some(m)) => {
                        any = true;
                        msg_valid(ctx, &m)?;
                        // never consume more than header + announced length
                        let announced = u32::from_be_bytes([b[b.len() - before], b[b.len() - before + 1], b[b.len() - before + 2], b[b.len() - before + 3]]) as usize;
                        if before - rd.len() != 4 + announced {
                            return Err(("overread".into(), format!("frame announced {announced} bytes, reader consumed {}", before - rd.len())));
                        }
                    }
                    Ok(None) => return Ok(any),
                    Err(_) => return Ok(false),
                }
            }
            Ok(any)
        }
        Dec::Handshake => {
            let mut rd: &[u8] = b;
            match ctx.rt.block_on(tensor_chain::Handshake::read_from(&mut rd, HANDSHAKE_MAX)) {
                Ok(h) => {
                    if !(1..=2).contains(&h.protocol_version) {
                        return Err(("version".into(), format!("accepted protocol version {}", h.protocol_version)));
                    }
                    let _ = (h.supports_compression(), format!("{h:?}"));
                    Ok(true)
                }
                Err(_) => Ok(false),
            }
        }
        Dec::Lz4 => match tensor_chain::tcp::compression::decompress(b, tensor_chain::tcp::compression::CompressionMethod::Lz4) {
            Ok(v) if v.len() > LZ4_MAX => Err(("size".into(), format!("decompressed {} bytes > MAX_DECOMPRESSED_SIZE", v.len()))),
            Ok(_) => Ok(true),
            Err(_) => Ok(false),
        },
        Dec::Snapshot => {
            use tensor_compress::format::{decompress_ints, decompress_vector, CompressedSnapshot, CompressedValue as V};
            match CompressedSnapshot::deserialize(b) {
                Ok(s) => {
                    if expanding_screen(ctx, &s) {
                        return Ok(true);
                    }
                    for e in &s.entries {
                        for v in e.fields.values() {
                            match v {
                                V::RleInt(_) => {
                                    let _ = decompress_ints(v);
                                }
                                _ => {
                                    let _ = decompress_vector(v);
                                }
                            }
                        }
                    }
                    Ok(true)
                }
                Err(_) => Ok(false),
            }
        }
        Dec::StoreSnapshot => {
            if let Ok(s) = tensor_compress::format::CompressedSnapshot::deserialize(b) {
                if expanding_screen(ctx, &s) {
                    return Ok(true);
                }
            }
            std::fs::write(&ctx.file, b).map_err(|e| ("io".to_string(), e.to_string()))?;
            match tensor_store::TensorStore::load_snapshot_compressed(&ctx.file) {
                Ok(st) => {
                    for k in st.scan("") {
                        let _ = st.get(&k);
                    }
                    Ok(true)
                }
                Err(_) => Ok(false),
            }
        }
        Dec::Header => match bitcode::deserialize::<tensor_compress::format::Header>(b) {
            Ok(h) => Ok(h.validate().is_ok()),
            Err(_) => Ok(false),
        },
        Dec::Sparse => match bitcode::deserialize::<tensor_store::SparseVector>(b) {
            Ok(sv) => {
                let (d, p, v) = (sv.dimension(), sv.positions(), sv.values());
                if d > tensor_store::SPARSE_MAX_DIMENSION || p.len() != v.len() || !p.windows(2).all(|w| w[0] < w[1]) || p.iter().any(|x| *x as usize >= d) {
                    let panics = d > tensor_store::SPARSE_MAX_DIMENSION || p.len() != v.len() || p.iter().any(|x| *x as usize >= d);
                    return Err(("sparse-unvalidated".into(), format!("bitcode::deserialize::<SparseVector> returned Ok for a vector that breaks the type's documented invariants (positions sorted, unique, < dimension <= u32::MAX, one value per position): dimension {d}, positions {:?}, {} values{}", &p[..p.len().min(6)], v.len(), if panics { "; to_dense()/get() on it panic or index out of bounds" } else { "" })));
                }
                if d <= EXPAND_MAX {
                    let dense = sv.to_dense();
                    if dense.len() != d {
                        return Err(("to_dense".into(), "to_dense length differs from dimension".into()));
                    }
                } else {
                    ctx.skipped_expanding += 1;
                }
                Ok(true)
            }
            Err(_) => Ok(false),
        },
        Dec::Rle => match bitcode::deserialize::<tensor_compress::RleEncoded<i64>>(b) {
            Ok(e) => {
                let total: usize = e.run_lengths.iter().map(|x| *x as usize).sum();
                if total > EXPAND_MAX {
                    ctx.skipped_expanding += 1;
                    return Ok(true);
                }
                let d = tensor_compress::rle_decode(&e);
                if e.values.len() == e.run_lengths.len() && d.len() != total {
                    return Err(("length".into(), format!("rle_decode produced {} values for runs summing to {total}", d.len())));
                }
                Ok(true)
            }
            Err(_) => Ok(false),
        },
        Dec::Tt => match bitcode::deserialize::<tensor_compress::TTVector>(b) {
            Ok(tt) => {
                if tt.shape.iter().fold(1usize, |a, b| a.wrapping_mul(*b)) > EXPAND_MAX || tt.shape.len() > 64 {
                    ctx.skipped_expanding += 1;
                    return Ok(true);
                }
                // what the repository does with a TT value read from bytes (format::decompress_vector)
                let v = tensor_compress::format::CompressedValue::VectorTT { cores: tt.cores, original_dim: tt.original_dim, shape: tt.shape, ranks: tt.ranks };
                Ok(tensor_compress::format::decompress_vector(&v).is_ok())
            }
            Err(_) => Ok(false),
        },
        Dec::Streaming => {
            if b.len() < 8 {
                // StreamingReader::open seeks to End(-8); a shorter file is an I/O error of the caller's reader
            }
            match tensor_compress::streaming::read_streaming_to_snapshot(Cursor::new(b)) {
                Ok(_) => Ok(true),
                Err(_) => Ok(false),
            }
        }
        Dec::StreamingTt => match tensor_compress::read_streaming_tt_all(Cursor::new(b)) {
            Ok(tts) => {
                // the repository's consumer of such a file: similarity search against a query
                if tts.iter().any(|t| t.cores.iter().any(|c| c.shape.0.max(c.shape.1).max(c.shape.2) > 4096)) {
                    ctx.skipped_expanding += 1;
                    return Ok(true);
                }
                let q = tensor_compress::tt_decompose(&[1.0, 2.0, 3.0, 5.0], &tensor_compress::TTConfig { shape: vec![2, 2], max_rank: 8, tolerance: 1e-4 }).map_err(|e| ("query".to_string(), e.to_string()))?;
                Ok(tensor_compress::streaming_tt_similarity_search(Cursor::new(b), &q, 3).is_ok())
            }
            Err(_) => Ok(false),
        },
        Dec::WalTensor => {
            std::fs::write(&ctx.file, b).map_err(|e| ("io".to_string(), e.to_string()))?;
            let w = tensor_store::TensorWal::open(&ctx.file, tensor_cfg(true)).map_err(|e| ("open".to_string(), e.to_string()))?;
            match w.replay() {
                Ok(es) => {
                    let _ = tensor_store::WalRecovery::from_entries(&es);
                    Ok(true)
                }
                Err(_) => Ok(false),
            }
        }
        Dec::WalRaft => {
            std::fs::write(&ctx.file, b).map_err(|e| ("io".to_string(), e.to_string()))?;
            match tensor_chain::RaftWal::open_with_config(&ctx.file, raft_cfg(true)) {
                Ok(w) => match w.replay() {
                    Ok(es) => {
                        let _ = tensor_chain::RaftRecoveryState::from_entries(&es);
                        Ok(true)
                    }
                    Err(_) => Ok(false),
                },
                Err(_) => Ok(false),
            }
        }
        Dec::WalTx => {
            std::fs::write(&ctx.file, b).map_err(|e| ("io".to_string(), e.to_string()))?;
            match tensor_chain::tx_wal::TxWal::open_with_config(&ctx.file, raft_cfg(true)) {
                Ok(w) => match w.replay() {
                    Ok(es) => {
                        let _ = tensor_chain::tx_wal::TxRecoveryState::from_entries(&es);
                        Ok(true)
                    }
                    Err(_) => Ok(false),
                },
                Err(_) => Ok(false),
            }
        }
    }
}

// ---- worker side
fn map_state(path: &str) -> *mut u64 {
    use std::os::unix::io::AsRawFd;
    let f = std::fs::OpenOptions::new().read(true).write(true).create(true).truncate(false).open(path).expect("state file");
    f.set_len(128).expect("state size");
    let p = unsafe { libc::mmap(std::ptr::null_mut(), 128, libc::PROT_READ | libc::PROT_WRITE, libc::MAP_SHARED, f.as_raw_fd(), 0) };
    assert!(p != libc::MAP_FAILED, "mmap state");
    p as *mut u64
}
const S_CUR: usize = 0;
const S_OVERSIZE: usize = 1;
const S_CASES: usize = 2;
const S_OK: usize = 3;
const S_ERR: usize = 4;
const S_MAXREQ: usize = 6;
const S_SKIPPED: usize = 7;

fn g_worker(args: &nvc::Args) -> ! {
    let dec = Dec::from_name(&args.flag("dec").expect("--dec")).expect("decoder");
    let lo: u64 = args.flag("lo").expect("--lo").parse().expect("lo");
    let hi: u64 = args.flag("hi").expect("--hi").parse().expect("hi");
    let glen: usize = args.flag("glen").expect("--glen").parse().expect("glen");
    let st = map_state(&args.flag("state").expect("--state"));
    let _ = SCRATCH.set(args.flag("scratch").expect("--scratch"));
    let plan = Plan::new(dec, glen, args.thorough());
    let mut ctx = Ctx { rt: rt(), validator: tensor_chain::CompositeValidator::new(tensor_chain::MessageValidationConfig::default()), file: scratch_file("gfile"), skipped_expanding: 0 };
    STATE.store(st, Relaxed);
    CAP.store(GUARD_CAP, Relaxed);
    ZCAP.store(GUARD_ZCAP, Relaxed);
    let bump = |slot: usize, n: u64| unsafe { st.add(slot).write_volatile(st.add(slot).read_volatile() + n) };
    let mut by_sig: BTreeMap<String, u64> = BTreeMap::new();
    let mut emit = |sig: String, msg: String, desc: &Value, input: &[u8]| {
        let n = by_sig.entry(sig.clone()).or_insert(0);
        *n += 1;
        if *n <= 3 {
            println!("@@V {}", json!({"sig": sig, "msg": msg, "replay": {"part":"G","decoder":dec.name(),"case":desc,"input_hex":hex(&input[..input.len().min(4096)])}}));
        } else {
            println!("@@C {sig}");
        }
    };
    for idx in lo..hi {
        let (input, desc, label, is_valid) = plan.input(idx);
        unsafe { st.add(S_CUR).write_volatile(idx + 1) };
        CUR.store(0, Relaxed);
        PEAK.store(0, Relaxed);
        MAXREQ.store(0, Relaxed);
        TRACK.store(true, Relaxed);
        let r = guarded(|| run_decoder(dec, &input, &mut ctx));
        TRACK.store(false, Relaxed);
        let maxreq = MAXREQ.load(Relaxed);
        bump(S_CASES, 1);
        unsafe { st.add(S_MAXREQ).write_volatile(st.add(S_MAXREQ).read_volatile().max(maxreq as u64)) };
        let tag = dec.name();
        let _ = &label;
        match r {
            Ok(Ok(true)) => bump(S_OK, 1),
            Ok(Ok(false)) => {
                bump(S_ERR, 1);
                if is_valid || selftest() && desc["kind"] == "truncation" {
                    emit(format!("c20:{tag}:rejects-valid-encoding"), format!("{} rejects the valid encoding {label}", dec.name()), &desc, &input);
                }
            }
            Ok(Err((what, m))) => emit(if what == "sparse-unvalidated" { "c20:sparse-deserialize-unvalidated".to_string() } else { format!("c20:{tag}:invalid-value:{what}") }, format!("{} on {}: {m}", dec.name(), desc), &desc, &input),
            Err((file, m)) => emit(format!("c20:decode-panic:{file}:{}", norm_msg(&m)), format!("{} panicked on {} ({} bytes): {m} [{file}]", dec.name(), desc, input.len()), &desc, &input),
        }
        let limit = dec.alloc_limit(input.len());
        if maxreq > limit {
            emit(format!("c20:{tag}:overalloc"), format!("{} requested a single allocation of {maxreq} bytes for a {}-byte input {} (declared limit incl. slack {limit})", dec.name(), input.len(), desc), &desc, &input);
        }
    }
    unsafe { st.add(S_SKIPPED).write_volatile(st.add(S_SKIPPED).read_volatile() + ctx.skipped_expanding) };
    let _ = std::fs::remove_file(&ctx.file);
    println!("@@DONE");
    std::process::exit(0);
}

// ---- parent side
#[derive(Default)]
struct GOut {
    acc: Acc,
    cases: u64,
    ok: u64,
    err: u64,
    maxreq: u64,
    skipped: u64,
    respawns: u64,
    capped: bool,
    machinery: Option<String>,
}
fn g_job(dec: Dec, glen: usize, lo: u64, hi: u64, plan: &Plan, tier: &str, scratch: &str, job_id: usize) -> GOut {
    use std::process::{Command, Stdio};
    let mut out = GOut::default();
    let state_path = format!("{scratch}/c20-state-{job_id}");
    let _ = std::fs::remove_file(&state_path);
    let st = map_state(&state_path);
    let exe = std::env::current_exe().expect("current_exe");
    let mut from = lo;
    loop {
        let mut c = Command::new(&exe);
        c.arg("--g-worker").arg(format!("--dec={}", dec.name())).arg(format!("--lo={from}")).arg(format!("--hi={hi}")).arg(format!("--glen={glen}")).arg(format!("--state={state_path}")).arg(format!("--scratch={scratch}")).arg("--tier").arg(tier);
        if selftest() {
            c.arg("--selftest");
        }
        let o = c.stdout(Stdio::piped()).stderr(Stdio::piped()).output().expect("spawn garbage worker");
        let text = String::from_utf8_lossy(&o.stdout);
        let mut done = false;
        for line in text.lines() {
            if let Some(j) = line.strip_prefix("@@V ") {
                if let Ok(v) = serde_json::from_str::<Value>(j) {
                    out.acc.viol(v["sig"].as_str().unwrap_or("?").to_string(), v["msg"].as_str().unwrap_or("").to_string(), v["replay"].clone());
                }
            } else if let Some(s) = line.strip_prefix("@@C ") {
                *out.acc.by_sig.entry(s.to_string()).or_insert(0) += 1;
            } else if line == "@@DONE" {
                done = true;
            }
        }
        if done && o.status.success() {
            break;
        }
        // the worker died inside a decoder: that case is the verdict
        let cur = unsafe { st.add(S_CUR).read_volatile() };
        let oversize = unsafe { st.add(S_OVERSIZE).read_volatile() };
        if cur == 0 || cur <= from {
            out.machinery = Some(format!("garbage worker for {} died before its first case: {:?} {}", dec.name(), o.status, String::from_utf8_lossy(&o.stderr).lines().rev().take(5).collect::<Vec<_>>().join(" | ")));
            break;
        }
        let idx = cur - 1;
        let (input, desc, label, _) = plan.input(idx);
        let tag = dec.name();
        let _ = &label;
        let rp = json!({"part":"G","decoder":dec.name(),"case":desc,"input_hex":hex(&input[..input.len().min(4096)])});
        unsafe { st.add(S_CASES).write_volatile(st.add(S_CASES).read_volatile() + 1) };
        if oversize > 0 {
            out.acc.viol(format!("c20:{tag}:overalloc"), format!("{} requested a single allocation of {oversize} bytes for a {}-byte input {} (declared limit incl. slack {}; refused by the guard, process aborted)", dec.name(), input.len(), desc, dec.alloc_limit(input.len())), rp);
        } else {
            let err = String::from_utf8_lossy(&o.stderr);
            out.acc.viol(format!("c20:{tag}:abort"), format!("{} killed the process ({:?}) on {}: {}", dec.name(), o.status, desc, err.lines().rev().take(3).collect::<Vec<_>>().join(" | ")), rp);
        }
        unsafe { st.add(S_OVERSIZE).write_volatile(0) };
        out.respawns += 1;
        from = idx + 1;
        if from >= hi {
            break;
        }
        if out.respawns >= 300 {
            out.capped = true;
            break;
        }
    }
    unsafe {
        out.cases = st.add(S_CASES).read_volatile();
        out.ok = st.add(S_OK).read_volatile();
        out.err = st.add(S_ERR).read_volatile();
        out.maxreq = st.add(S_MAXREQ).read_volatile();
        out.skipped = st.add(S_SKIPPED).read_volatile();
        libc::munmap(st as *mut libc::c_void, 128);
    }
    let _ = std::fs::remove_file(&state_path);
    out
}

fn part_g(rep: &mut Report, thorough: bool, scratch: &str) {
    let tier = if thorough { "thorough" } else { "quick" };
    let mut jobs: Vec<(Dec, usize, u64, u64, usize)> = vec![];
    let mut plans: Vec<Plan> = vec![];
    for (di, dec) in DECS.iter().enumerate() {
        let glen = if thorough && !dec.file_based() { 3 } else { 2 };
        let plan = Plan::new(*dec, glen, thorough);
        let parts = (plan.total / 8_000 + 1).min(32);
        let step = plan.total.div_ceil(parts);
        let mut lo = 0;
        while lo < plan.total {
            jobs.push((*dec, glen, lo, (lo + step).min(plan.total), di));
            lo += step;
        }
        plans.push(plan);
    }
    eprintln!("[c20] part G: {} jobs, t={:.1}s", jobs.len(), T0.get().map(|t| t.elapsed().as_secs_f64()).unwrap_or(0.0));
    let outs: Vec<(Dec, GOut)> = jobs.par_iter().enumerate().map(|(j, (dec, glen, lo, hi, di))| (*dec, g_job(*dec, *glen, *lo, *hi, &plans[*di], tier, scratch, j))).collect();
    for (di, dec) in DECS.iter().enumerate() {
        let mut tot = GOut::default();
        for (d, o) in outs.iter().filter(|(d, _)| d == dec) {
            let _ = d;
            tot.acc.merge(o.acc.clone());
            tot.cases += o.cases;
            tot.ok += o.ok;
            tot.err += o.err;
            tot.maxreq = tot.maxreq.max(o.maxreq);
            tot.skipped += o.skipped;
            tot.respawns += o.respawns;
            tot.capped |= o.capped;
            if tot.machinery.is_none() {
                tot.machinery = o.machinery.clone();
            }
        }
        let plan = &plans[di];
        for (sig, msg, r) in &tot.acc.kept {
            rep.violation(sig.clone(), msg.clone(), r.clone());
        }
        rep.part(
            &format!("G_{}", dec.name()),
            json!({"garbage_max_len": plan.glen, "valid_encodings": plan.valid.len(), "valid_bytes": plan.valid.iter().map(|v| v.1.len()).sum::<usize>(), "limit_probes": plan.extra.len(),
                   "planned_cases": plan.total, "cases": tot.cases, "returned_value": tot.ok, "returned_error": tot.err, "largest_single_allocation": tot.maxreq,
                   "declared_valid_but_too_large_to_execute": tot.skipped, "decoder_aborts": tot.respawns, "violating_cases_by_signature": tot.acc.by_sig}),
        );
        rep.add("evaluations", tot.cases);
        rep.add("traces_validated_against_impl", tot.cases);
        rep.add("states", tot.cases);
        rep.add("transitions", tot.cases);
        rep.add("distinct_nontrivial", tot.ok.min(tot.err));
        if let Some(m) = tot.machinery {
            rep.machinery(m);
        }
        if tot.capped {
            rep.capped(&format!("G_{}: more than 300 decoder aborts, sweep not completed", dec.name()));
        }
        if tot.cases != plan.total && !tot.capped {
            rep.machinery(format!("G_{}: {} of {} planned cases executed", dec.name(), tot.cases, plan.total));
        }
        if tot.ok == 0 || tot.err == 0 && *dec != Dec::Ids {
            rep.machinery(format!("vacuous garbage sweep for {}: {} values, {} errors", dec.name(), tot.ok, tot.err));
        }
    }
    let p = &plans[7];
    let (b, d, _, _) = p.input(p.total - p.extra.len() as u64 - 9);
    rep.sample(json!({"part":"G","decoder":p.dec.name(),"case":d,"input_hex":hex(&b[..b.len().min(64)])}));
}

// ------------------------------------------------------------------------------------------------
// main
// ------------------------------------------------------------------------------------------------
fn flush(rep: &mut Report, name: &str, a: &Acc, bounds: Value) {
    eprintln!("[c20] part {name}: {} cases, {} evaluations, t={:.1}s", a.cases, a.evals, T0.get().map(|t| t.elapsed().as_secs_f64()).unwrap_or(0.0));
    for (sig, msg, r) in &a.kept {
        rep.violation(sig.clone(), msg.clone(), r.clone());
    }
    for s in &a.samples {
        rep.sample(s.clone());
    }
    rep.part(name, a.part_json(bounds));
    rep.add("evaluations", a.evals);
    rep.add("traces_validated_against_impl", a.evals);
    rep.add("states", a.cases);
    rep.add("transitions", a.evals);
    rep.add("distinct_nontrivial", a.nontrivial);
    if a.cases == 0 || a.evals == 0 {
        rep.machinery(format!("vacuous part {name}"));
    }
}

/// one decoder on one input in this process (used by --g-one and by replay through a child)
fn g_one(args: &nvc::Args) -> ! {
    let dec = Dec::from_name(&args.flag("dec").expect("--dec")).expect("decoder");
    let input = unhex(&args.flag("hex").unwrap_or_default());
    let _ = SCRATCH.set(args.flag("scratch").expect("--scratch"));
    let mut ctx = Ctx { rt: rt(), validator: tensor_chain::CompositeValidator::new(tensor_chain::MessageValidationConfig::default()), file: scratch_file("gone"), skipped_expanding: 0 };
    CAP.store(GUARD_CAP, Relaxed);
    ZCAP.store(GUARD_ZCAP, Relaxed);
    MAXREQ.store(0, Relaxed);
    TRACK.store(true, Relaxed);
    let r = guarded(|| run_decoder(dec, &input, &mut ctx));
    TRACK.store(false, Relaxed);
    let _ = std::fs::remove_file(&ctx.file);
    println!("@@ONE {}", json!({"outcome": format!("{r:?}"), "largest_single_allocation": MAXREQ.load(Relaxed), "limit": dec.alloc_limit(input.len())}));
    std::process::exit(0);
}

fn replay(rep: &mut Report, path: &str, scratch: &str) {
    let body: Value = std::fs::read_to_string(path).ok().and_then(|s| serde_json::from_str(&s).ok()).unwrap_or(Value::Null);
    let r = body.get("replay").cloned().unwrap_or(body.clone());
    let mut a = Acc::default();
    let floats = |v: &Value| -> Vec<f32> { v.as_array().map(|x| x.iter().map(|y| y.as_f64().unwrap_or(f64::NAN) as f32).collect()).unwrap_or_default() };
    match r["part"].as_str().unwrap_or("") {
        "A" => {
            let ids: Vec<u64> = r["ids"].as_array().map(|x| x.iter().filter_map(Value::as_u64).collect()).unwrap_or_default();
            check_ids(&ids, &mut a);
        }
        "B" => {
            let d: Vec<i64> = r["data"].as_array().map(|x| x.iter().filter_map(Value::as_i64).collect()).unwrap_or_default();
            check_rle(&d, &mut a);
        }
        "C" => {
            let v: Vec<f32> = r["vector_bits"].as_array().map(|x| x.iter().map(|y| f32::from_bits(y.as_u64().unwrap_or(0) as u32)).collect()).unwrap_or_default();
            check_sparse(&v, &mut a);
        }
        "D" => {
            let name = r["message"].as_str().unwrap_or("");
            for (n, m) in small_messages() {
                if n == name {
                    check_message(&n, &m, &mut a);
                }
            }
        }
        "F" => {
            let shape: Vec<usize> = r["shape"].as_array().map(|x| x.iter().filter_map(|y| y.as_u64().map(|z| z as usize)).collect()).unwrap_or_default();
            let cfg = tensor_compress::TTConfig { shape, max_rank: r["max_rank"].as_u64().unwrap_or(8) as usize, tolerance: r["tolerance"].as_f64().unwrap_or(1e-4) as f32 };
            check_tt(&floats(&r["vector"]), &cfg, r["config"].as_str().unwrap_or("replay"), &mut a);
        }
        "G" => {
            let dec = r["decoder"].as_str().unwrap_or("");
            let o = std::process::Command::new(std::env::current_exe().expect("exe")).arg("--g-one").arg(format!("--dec={dec}")).arg(format!("--hex={}", r["input_hex"].as_str().unwrap_or(""))).arg(format!("--scratch={scratch}")).output().expect("spawn");
            let text = String::from_utf8_lossy(&o.stdout).to_string();
            a.cases += 1;
            a.evals += 1;
            match text.lines().find_map(|l| l.strip_prefix("@@ONE ")).and_then(|j| serde_json::from_str::<Value>(j).ok()) {
                Some(v) => {
                    eprintln!("replay outcome: {v}");
                    let oc = v["outcome"].as_str().unwrap_or("");
                    if !(oc.starts_with("Ok(Ok(")) || v["largest_single_allocation"].as_u64() > v["limit"].as_u64() {
                        a.viol(body["signature"].as_str().unwrap_or("c20:replay").to_string(), format!("replayed: {v}"), r.clone());
                    }
                }
                None => a.viol(body["signature"].as_str().unwrap_or("c20:replay").to_string(), format!("replayed: decoder process died: {:?} {}", o.status, String::from_utf8_lossy(&o.stderr).lines().last().unwrap_or("")), r.clone()),
            }
        }
        other => {
            // parts E: re-run the whole (small) part
            eprintln!("replay of part {other:?}: re-running part E");
            a.merge(part_e_wal(2));
            a.merge(part_e_snap());
            a.merge(part_e_store(3));
        }
    }
    a.samples.push(r);
    flush(rep, "replay", &a, json!({}));
}

fn main() {
    install_panic_hook();
    let args = nvc::Args::parse();
    if args.rest.iter().any(|a| a == "--selftest") {
        SELFTEST.store(true, Relaxed);
    }
    if args.rest.iter().any(|a| a == "--g-worker") {
        g_worker(&args);
    }
    if args.rest.iter().any(|a| a == "--g-one") {
        g_one(&args);
    }
    nvc::env::require();
    let _ = T0.set(std::time::Instant::now());
    let mut rep = Report::new("C20", "model_checking");
    let thorough = rep.thorough();
    let scratch = nvc::env::scratch_root();
    let _ = SCRATCH.set(scratch.clone());
    rep.rule("A: every u64 sequence of length <=N over {0,1,2,127,128,2^32,u64::MAX} (unsorted and duplicates included) through varint, delta and compress_ids/decompress_ids; non-trivial = unsorted or contains a duplicate");
    rep.rule("B: every i64 sequence of length <=N over {0,-1,i64::MAX} through rle_encode/rle_decode, against a reference run splitter, and through bitcode");
    rep.rule("C: every f32 vector of length <=N over {0,-0,1,-1.5,MIN_POSITIVE,subnormal,MAX,+inf,-inf,NaN} plus {-1,0,1}^d (d<=6) through SparseVector::from_dense/to_dense, bitcode, and the sparse snapshot value; equality = bit pattern with -0.0==+0.0");
    rep.rule("D: every network::Message variant (30), every optional field absent/present, three value profiles (zero/typical/extreme) x codec v1, v2, v2+LZ4(min_size 0), v2+LZ4(default) x max_frame_length in {2^20, len-2..len+2, frame content-1..+1}: encode Ok => decode_payload and the async stream reader return the same value; encode refuses only above the limit");
    rep.rule("E: every sequence of <=K records over all record variants of TensorWal, RaftWal, TxWal (checksums on/off) written, reopened, replayed; snapshot Header / CompressedSnapshot / streaming containers for 5 configs x 0..12 value kinds; TensorStore compressed snapshot file of every f32 vector (len<=N over {0,1,2,2^24,-1,0.5,f32::MAX}) in a field named 'v' and 'ids'");
    rep.rule("F: tt_decompose/tt_reconstruct on every non-zero vector of {-1,0,1}^d for the listed shapes with the three presets' (max_rank, tolerance), plus ramp and sine of length 64/4096; bound = max(1%, 10*tol*sqrt(sum_k min(rows_k, cols_k))) and only where max_rank cannot bind");
    rep.rule("G: per decoder (18), in sub-processes under a counting allocator: every byte string of length <=2 (<=3 thorough, in-memory decoders), each valid encoding, each strict prefix, each single-bit flip, and length prefixes at 0/1/limit-1/limit/limit+1/2^31/u32::MAX; verdict = panic, process abort, single allocation above the declared limit, or an Ok value that breaks the type's invariants");
    rep.assume("bitcode, lz4_flex and crc32fast are trusted only in that their panics/aborts would be reported as the calling decoder's");
    rep.assume("values of expanding formats (rle runs, sparse dimension, tt shape) above 2^22 elements are declared-valid and are not executed (counted per decoder)");
    rep.assume("WAL limit = WalConfig.max_size_bytes (set to 1 MiB); frame limit = max_frame_length (4096 / 65536) and MAX_DECOMPRESSED_SIZE (16 MiB) for LZ4; streaming entry limit 100 MB; slack 1 MiB + 64 x input length");

    if let Some(p) = rep.args.replay.clone() {
        replay(&mut rep, &p, &scratch);
        rep.finish();
    }

    let na = if thorough { 7 } else { 5 };
    let a = part_a(na);
    flush(&mut rep, "A_ids", &a, json!({"max_len": na, "alphabet": ID_ALPHA}));
    let nb = if thorough { 12 } else { 8 };
    let b = part_b(nb);
    flush(&mut rep, "B_rle", &b, json!({"max_len": nb, "alphabet": RLE_ALPHA}));
    let nc = if thorough { 5 } else { 4 };
    let c = part_c(nc, 6);
    flush(&mut rep, "C_sparse", &c, json!({"max_len": nc, "grid_dims_upto": 6}));
    nvc::env::clock_freeze(1_700_000_000);
    let all = msgs::all();
    nvc::env::clock_unfreeze();
    let mut d = par_acc(&all, 4, |(n, m), a| check_message(n, m, a));
    let variants: std::collections::BTreeSet<&str> = all.iter().map(|(n, _)| n.split('#').next().unwrap()).collect();
    d.count("message_variants", variants.len() as u64);
    d.nontrivial += all.len() as u64;
    d.merge(part_d_big());
    flush(&mut rep, "D_messages", &d, json!({"messages": all.len(), "modes": MODES.iter().map(|m| format!("{m:?}")).collect::<Vec<_>>()}));
    if variants.len() != 30 {
        rep.machinery(format!("message corpus covers {} variants, expected 30", variants.len()));
    }
    let ne = if thorough { 3 } else { 2 };
    let e1 = part_e_wal(ne);
    flush(&mut rep, "E_wal", &e1, json!({"max_records": ne, "alphabet_sizes": [recs::tensor_wal().len(), recs::raft_wal().len(), recs::tx_wal().len()]}));
    let e2 = part_e_snap();
    flush(&mut rep, "E_snapshot", &e2, json!({"configs": 5, "value_kinds": 12}));
    let ns = if thorough { 3 } else { 2 };
    let e3 = part_e_store(ns);
    flush(&mut rep, "E_store", &e3, json!({"max_len": ns}));
    let f = part_f(thorough);
    flush(&mut rep, "F_tt", &f, json!({"thorough_shapes": thorough}));
    part_g(&mut rep, thorough, &scratch);
    rep.set("explanation", json!("no model: every case executes the repository's encoders/decoders; the oracle is the input value itself (lossless), a norm bound (tt), or 'returns Err or a value that satisfies the type's invariants, without panic/abort/oversized allocation' (decoders)"));
    rep.finish();
}
